//! C03 — suffix array is the sorted permutation of all suffixes; LCP, shortest unique
//! substrings and the sampled suffix array agree with it.

use crate::engine::*;
use crate::oracles::sa::{self, show, show_vec, textgen};
use crate::{ensure, fail};
use bio::alphabets::Alphabet;
use bio::data_structures::bwt::{bwt, less, Occ};
use bio::data_structures::suffix_array::{lcp, shortest_unique_substrings, suffix_array, suffix_array_int, SuffixArray};
use proptest::prelude::*;
use serde::{Deserialize, Serialize};

fn tiers(t: Tier) -> Vec<(u32, usize)> {
    match t {
        Tier::Quick => vec![(10, 19), (6, 299), (2, 2999)],
        Tier::Thorough => vec![(50, 19), (30, 299), (10, 2999), (1, 20_000)],
    }
}

// ---------------------------------------------------------------------------
// byte texts: suffix_array, lcp, shortest_unique_substrings

pub mod bytes {
    use super::*;

    #[derive(Serialize, Deserialize, Debug, Clone)]
    pub struct Case {
        /// body + trailing sentinel (the smallest symbol; may also occur inside)
        pub text: B,
    }

    pub fn check(c: &Case) -> R {
        let text: &[u8] = &c.text;
        ensure!(sa::in_domain(text), "harness: text {} is outside the domain (empty or last symbol not the smallest)", show(text));
        let n = text.len();
        let pos = suffix_array(text);
        let facts = match sa::verify_sa_bytes(text, &pos) {
            Ok(f) => f,
            Err(e) => fail!("suffix_array: {}", e),
        };
        let single = facts.sentinels == 1;
        let max_lcp = facts.adj_lcp.iter().copied().max().unwrap_or(0);

        if single && n >= 2 {
            // LCP array: n+1 entries, -1 at both ends, true common prefix lengths inside
            let l = lcp(text, &pos);
            let d = l.decompress();
            ensure!(d.len() == n + 1 && l.len() == n + 1, "lcp: text {}: LCP array has {} entries (len() says {}), expected {}", show(text), d.len(), l.len(), n + 1);
            ensure!(d[0] == -1 && d[n] == -1, "lcp: text {}: border entries are lcp[0]={} lcp[{}]={}, expected -1 and -1; lcp={}", show(text), d[0], n, d[n], show_vec(&d));
            for r in 1..n {
                let want = facts.adj_lcp[r] as isize;
                ensure!(
                    d[r] == want,
                    "lcp: text {}: lcp[{}]={} but suffixes {} and {} share exactly {} leading symbols; sa={} lcp={}",
                    show(text), r, d[r], pos[r - 1], pos[r], want, show_vec(&pos), show_vec(&d)
                );
            }
            for r in 0..=n {
                let g = l.get(r);
                ensure!(g == Some(d[r]), "lcp: text {}: get({})={:?} differs from decompress()[{}]={}", show(text), r, g, r, d[r]);
            }

            // shortest unique substrings
            let sus = shortest_unique_substrings(&pos, &l);
            ensure!(sus.len() == n, "shortest_unique_substrings: text {}: {} entries, expected {}", show(text), sus.len(), n);
            // (a) for every n: the suffix array is verified sorted, so the longest prefix shared with any
            //     other suffix is shared with a neighbour in the array
            for r in 0..n {
                let p = pos[r];
                let nb = facts.adj_lcp[r].max(if r + 1 < n { facts.adj_lcp[r + 1] } else { 0 });
                let want = Some(nb + 1);
                ensure!(
                    sus[p] == want,
                    "shortest_unique_substrings: text {}: position {} got {:?}, expected {:?} (1 + longest prefix shared with another suffix); sus={}",
                    show(text), p, sus[p], want, show_vec(&sus)
                );
            }
            // (b) pairwise scan, (c) literal definition on short texts
            if n <= 200 {
                let want = sa::sus_by_pairwise(text);
                ensure!(sus == want, "shortest_unique_substrings: text {}: got {}, pairwise brute force says {}", show(text), show_vec(&sus), show_vec(&want));
            }
            if n <= 60 {
                let want = sa::sus_by_definition(text);
                ensure!(sus == want, "shortest_unique_substrings: text {}: got {}, by definition (exactly one occurrence) {}", show(text), show_vec(&sus), show_vec(&want));
            }
        }

        // classes
        let mut distinct = [false; 256];
        for &ch in text {
            distinct[ch as usize] = true;
        }
        let nsym = distinct.iter().filter(|&&x| x).count();
        let repeated = nsym < n;
        let prof = sa::sais_profile(&sa::transformed(text));
        let mut pass = Pass::new(n >= 4 && repeated);
        pass.add_if(!single, "multi-sentinel");
        pass.add_if(single && n >= 2, "single-sentinel (LCP and SUS checked)");
        pass.add_if(facts.sentinels >= 10, "10+ sentinel occurrences");
        pass.add_if(text.windows(2).any(|w| w[0] == text[n - 1] && w[1] == text[n - 1]), "adjacent sentinels");
        pass.add_if(n >= 2 && text[0] == text[n - 1], "text starts with a sentinel");
        pass.add_if(prof.depth >= 1, "recursion taken");
        pass.add_if(prof.depth >= 2, "recursion depth>=2");
        pass.add_if(prof.max_lms > 255, ">255 LMS substrings (u16 reduced text)");
        pass.add_if(nsym + facts.sentinels > 255, ">255 ranks (u16 text path)");
        pass.add_if(single && n >= 2 && max_lcp >= 127, "LCP>=127");
        pass.add_if(single && n >= 2 && max_lcp >= 1 && max_lcp < 127, "0<LCP<127");
        pass.add_if(n == 1, "n=1");
        pass.add_if((2..=20).contains(&n), "n in 2..=20");
        pass.add_if((21..=300).contains(&n), "n in 21..=300");
        pass.add_if(n > 300, "n>300");
        pass.add_if(text[n - 1] == 0, "sentinel 0x00");
        pass.add_if(text[n - 1] != 0 && text[n - 1] != b'$', "sentinel ! or #");
        pass.add_if(distinct[255], "symbol 0xff present");
        Ok(pass)
    }

    pub fn strat(t: Tier) -> BoxedStrategy<Case> {
        textgen::text(&tiers(t)).prop_map(|v| Case { text: B(v) }).boxed()
    }
}

// ---------------------------------------------------------------------------
// integer texts: suffix_array_int over u8 / u16 / u32 / u64 / usize

pub mod ints {
    use super::*;

    #[derive(Serialize, Deserialize, Debug, Clone)]
    pub struct Case {
        /// element type handed to suffix_array_int: 0=u8 1=u16 2=u32 3=u64 4=usize
        pub width: u8,
        /// uses every value of 0..=max, ends in the only 0
        pub text: Vec<u64>,
    }

    pub fn width_name(w: u8) -> &'static str {
        ["u8", "u16", "u32", "u64", "usize"][w as usize]
    }

    fn run(width: u8, t: &[u64]) -> Vec<usize> {
        match width {
            0 => suffix_array_int(&t.iter().map(|&v| v as u8).collect::<Vec<u8>>()),
            1 => suffix_array_int(&t.iter().map(|&v| v as u16).collect::<Vec<u16>>()),
            2 => suffix_array_int(&t.iter().map(|&v| v as u32).collect::<Vec<u32>>()),
            3 => suffix_array_int(&t.iter().map(|&v| v).collect::<Vec<u64>>()),
            _ => suffix_array_int(&t.iter().map(|&v| v as usize).collect::<Vec<usize>>()),
        }
    }

    pub fn in_domain(width: u8, t: &[u64]) -> bool {
        let n = t.len();
        if n == 0 || width > 4 || t[n - 1] != 0 || t[..n - 1].iter().any(|&v| v == 0) {
            return false;
        }
        let max = *t.iter().max().unwrap();
        let limit = match width {
            0 => u8::MAX as u64,
            1 => u16::MAX as u64,
            2 => u32::MAX as u64,
            _ => u64::MAX,
        };
        if max > limit || max as usize >= n {
            return false;
        }
        let mut seen = vec![false; max as usize + 1];
        for &v in t {
            seen[v as usize] = true;
        }
        seen.iter().all(|&x| x)
    }

    pub fn check(c: &Case) -> R {
        let t: &[u64] = &c.text;
        ensure!(in_domain(c.width, t), "harness: integer text {} (width {}) is outside the domain", show_vec(t), c.width);
        let n = t.len();
        let w = width_name(c.width);
        let pos = run(c.width, t);
        ensure!(pos.len() == n, "suffix_array_int::<{}>: text {}: result has length {}, expected {}; sa={}", w, show_vec(t), pos.len(), n, show_vec(&pos));
        let mut seen = vec![false; n];
        for (r, &p) in pos.iter().enumerate() {
            ensure!(p < n && !seen[p], "suffix_array_int::<{}>: text {}: sa[{}]={} is out of range or repeated, not a permutation; sa={}", w, show_vec(t), r, p, show_vec(&pos));
            seen[p] = true;
        }
        // the final 0 is unique, so all suffixes differ and the sorted order is unique
        for r in 1..n {
            ensure!(
                t[pos[r - 1]..] < t[pos[r]..],
                "suffix_array_int::<{}>: text {}: suffix at sa[{}]={} is not smaller than suffix at sa[{}]={}; sa={}",
                w, show_vec(t), r - 1, pos[r - 1], r, pos[r], show_vec(&pos)
            );
        }
        if n <= 64 {
            let mut want: Vec<usize> = (0..n).collect();
            want.sort_by(|&a, &b| t[a..].cmp(&t[b..]));
            ensure!(pos == want, "suffix_array_int::<{}>: text {}: got {}, sorted suffixes are {}", w, show_vec(t), show_vec(&pos), show_vec(&want));
        }
        let max = *t.iter().max().unwrap() as usize;
        let prof = sa::sais_profile(&t.iter().map(|&v| v as usize).collect::<Vec<_>>());
        let mut pass = Pass::new(n >= 4 && max + 1 < n);
        pass.add(["int u8", "int u16", "int u32", "int u64", "int usize"][c.width as usize]);
        pass.add_if(prof.depth >= 1, "recursion taken");
        pass.add_if(prof.depth >= 2, "recursion depth>=2");
        pass.add_if(prof.max_lms > 255, ">255 LMS substrings (u16 reduced text)");
        pass.add_if(max > 255, "max symbol > 255");
        pass.add_if(max + 1 == n && n > 2, "permutation text (all symbols distinct)");
        pass.add_if(n == 1, "n=1");
        pass.add_if(n > 300, "n>300");
        Ok(pass)
    }

    /// rank-compress arbitrary positive values to 1..=max and append the unique 0
    pub fn densify(body: &[u32]) -> Vec<u64> {
        let mut vals: Vec<u32> = body.to_vec();
        vals.sort_unstable();
        vals.dedup();
        let mut t: Vec<u64> = body.iter().map(|v| vals.binary_search(v).unwrap() as u64 + 1).collect();
        t.push(0);
        t
    }

    fn body(l: usize) -> BoxedStrategy<Vec<u32>> {
        use proptest::collection::vec;
        prop_oneof![
            4 => (1u32..=5).prop_flat_map(move |sg| vec(1..=sg, 0..=l)),
            2 => vec((1u32..=4, 1usize..=l.clamp(1, 200)), 1..=5).prop_map(|r| r.into_iter().flat_map(|(c, k)| std::iter::repeat(c).take(k)).collect()),
            2 => (vec(1u32..=4, 1..=6), 0..=l).prop_map(|(unit, len)| unit.iter().cycle().take(len).cloned().collect()),
            2 => (0..=l, any::<bool>(), 0usize..=40).prop_map(|(len, tm, off)| textgen::Body::Morphic { a: 1, b: 2, thue_morse: tm, off: off as u16, len }.materialise().into_iter().map(|v| v as u32).collect()),
            2 => vec(1u32..=300, 0..=l),
            1 => vec(1u32..=100_000, 0..=l),
            1 => (0..=l).prop_flat_map(|len| Just((1..=len as u32).collect::<Vec<u32>>()).prop_shuffle()),
        ]
        .boxed()
    }

    pub fn strat(t: Tier) -> BoxedStrategy<Case> {
        let lens: Vec<(u32, usize)> = match t {
            Tier::Quick => vec![(10, 19), (6, 299), (2, 1500)],
            Tier::Thorough => vec![(10, 19), (6, 299), (3, 3000), (1, 12_000)],
        };
        let texts = proptest::strategy::Union::new_weighted(lens.into_iter().map(|(w, l)| (w, body(l))).collect::<Vec<_>>());
        (texts, 0u8..=4, proptest::collection::vec((any::<u16>(), 1u32..=3), 0..=2))
            .prop_map(|(mut b, width, edits)| {
                for (f, v) in edits {
                    if !b.is_empty() {
                        let i = gen::idx(f, b.len() - 1);
                        b[i] = v;
                    }
                }
                let text = densify(&b);
                let max = *text.iter().max().unwrap();
                // smallest element type that can hold the text, unless a wider one was drawn
                let need = if max <= 255 { 0 } else if max <= 65_535 { 1 } else { 2 };
                Case { width: width.max(need), text }
            })
            .boxed()
    }
}

// ---------------------------------------------------------------------------
// sampled suffix array

pub mod sampled {
    use super::*;

    #[derive(Serialize, Deserialize, Debug, Clone)]
    pub struct Case {
        pub text: B,
        /// symbols added to the alphabet handed to less / Occ
        pub extra: B,
        /// keep a `$` sentinel in that alphabet (other sentinels are always kept)
        pub with_sentinel: bool,
        /// suffix array sampling rate, 1..=n+2
        pub s: u32,
        /// Occ sampling rate, 1..=2n
        pub k: u32,
        /// the sampled array is sampled again (SuffixArray::sample called on the sampled array) at each of
        /// these rates in turn; every stage must agree with the full array at every index
        #[serde(default)]
        pub resample: Vec<u32>,
    }

    pub fn check(c: &Case) -> R {
        let text: &[u8] = &c.text;
        ensure!(sa::in_domain(text), "harness: text {} is outside the domain", show(text));
        ensure!(c.resample.iter().all(|&r| r >= 1), "harness: re-sampling rate 0");
        let n = text.len();
        ensure!(c.s >= 1 && c.k >= 1 && c.s as usize <= n + 2 && c.k as usize <= 2 * n, "harness: rates s={} k={} outside 1..=n+2 / 1..=2n for n={}", c.s, c.k, n);
        let syms = sa::alphabet_for(text, &c.extra, c.with_sentinel);
        let alphabet = Alphabet::new(&syms);
        let mut arrays = vec![("naive suffix sort", sa::naive_sa(text))];
        // the library's own array is used as well when it is a different valid order; whether it is
        // valid at all is C03/sa-bytes' business, not this sub-check's
        if let Ok(lib) = catch(|| suffix_array(text)) {
            if lib != arrays[0].1 && sa::verify_sa_bytes(text, &lib).is_ok() {
                arrays.push(("suffix_array()", lib));
            }
        }
        for (what, full) in &arrays {
            let b = bwt(text, full);
            let ls = less(&b, &alphabet);
            let occ = Occ::new(&b, c.k, &alphabet);
            ensure!(SuffixArray::get(full, n).is_none() && SuffixArray::get(full, n + 7).is_none(), "SuffixArray::get of the full array beyond its end (index {} / {}) is not None; n={}", n, n + 7, n);
            let sampled = full.sample(text, &b, &ls, &occ, c.s as usize);
            ensure!(SuffixArray::len(&sampled) == n, "sampled: text {} s={} k={}: len()={} expected {}", show(text), c.s, c.k, SuffixArray::len(&sampled), n);
            for i in 0..n {
                let got = sampled.get(i);
                ensure!(
                    got == Some(full[i]),
                    "sampled: text {} alphabet {} s={} k={} (full array from {}): get({})={:?} but the full array has {}; sa={}",
                    show(text), show(&syms), c.s, c.k, what, i, got, full[i], show_vec(full)
                );
            }
            let mut cur = sampled;
            let mut rates = vec![c.s];
            for &r in &c.resample {
                cur = cur.sample(text, &b, &ls, &occ, r as usize);
                rates.push(r);
                ensure!(SuffixArray::len(&cur) == n, "sampled: text {} sampled at rates {:?} in turn, k={}: len()={} expected {}", show(text), rates, c.k, SuffixArray::len(&cur), n);
                for i in 0..n {
                    let got = cur.get(i);
                    ensure!(
                        got == Some(full[i]),
                        "sampled: text {} alphabet {} k={} (full array from {}), sampled at rates {:?} in turn (each from the array before): get({})={:?} but the full array has {}; sa={}",
                        show(text), show(&syms), c.k, what, rates, i, got, full[i], show_vec(full)
                    );
                }
            }
        }
        let sentinels = text.iter().filter(|&&x| x == text[n - 1]).count();
        let mut pass = Pass::new(n >= 4 && c.s > 1);
        pass.add_if(c.s > 1, "sampling s>1");
        pass.add_if(c.s == 1, "s=1");
        pass.add_if(!c.resample.is_empty(), "sampled array sampled again");
        pass.add_if(c.resample.first().map_or(false, |&r| r > c.s && r % c.s == 0), "re-sampled at a multiple of the first rate");
        pass.add_if(c.resample.first().map_or(false, |&r| r < c.s), "re-sampled at a smaller rate");
        pass.add_if(c.s >= 3, "s>=3");
        pass.add_if(c.s as usize > n, "s>n");
        pass.add_if(sentinels > 1, "multi-sentinel");
        pass.add_if(sentinels > 1 && c.s > 1, "multi-sentinel with s>1 (extra rows)");
        pass.add_if(c.k > 64, "k>64");
        pass.add_if(c.k > 64 && (c.k as usize) < n, "k>64 with a second checkpoint");
        pass.add_if(c.k as usize > n, "k>n");
        pass.add_if(!syms.contains(&text[n - 1]), "alphabet without the $ sentinel");
        pass.add_if(arrays.len() > 1, "library array differs from naive order");
        Ok(pass)
    }

    pub fn strat(t: Tier) -> BoxedStrategy<Case> {
        let lens: Vec<(u32, usize)> = match t {
            Tier::Quick => vec![(6, 19), (6, 120), (3, 400)],
            Tier::Thorough => vec![(6, 19), (6, 120), (4, 400), (1, 2500)],
        };
        (textgen::text(&lens), textgen::extra(), any::<bool>(), textgen::sa_rate(), textgen::occ_rate(), prop_oneof![3 => Just(Vec::new()), 1 => proptest::collection::vec((any::<bool>(), 0u8..=7), 1..=2)])
            .prop_map(|(text, extra, with_sentinel, s, k, rs)| {
                let n = text.len();
                // long texts: keep n*s*k (walk length times counting cost) bounded
                let (mut s, mut k) = (s.resolve(n, n + 2), k.resolve(n, 2 * n));
                if n > 800 {
                    s = s.min(64);
                    k = k.min(256);
                }
                let mut prev = s;
                let resample: Vec<u32> = if n > 800 {
                    Vec::new()
                } else {
                    rs.iter()
                        .map(|&(multiple, v)| {
                            prev = if multiple { prev.saturating_mul(2 + v as u32 % 3).min(4 * n as u32 + 8) } else { 1 + v as u32 };
                            prev
                        })
                        .collect()
                };
                Case { text: B(text), extra: B(extra), with_sentinel, s, k, resample }
            })
            .boxed()
    }
}

// ---------------------------------------------------------------------------
// bounded exhaustive: every text over {$, a, b} up to a length, plus the final $

pub mod exh {
    use super::*;

    #[derive(Serialize, Deserialize, Debug, Clone)]
    pub struct Case {
        pub text: B,
    }

    pub fn check(c: &Case) -> R {
        let text: &[u8] = &c.text;
        let n = text.len();
        let mut pass = bytes::check(&bytes::Case { text: c.text.clone() })?;
        // sampled array: every s in 1..=n+2, k in {1,2,3,n,2n}, alphabet with and without `$`
        let mut ks = vec![1u32, 2, 3, n as u32, 2 * n as u32];
        ks.retain(|&k| k >= 1 && k as usize <= 2 * n);
        ks.sort_unstable();
        ks.dedup();
        for s in 1..=(n as u32 + 2) {
            for &k in &ks {
                for with_sentinel in [true, false] {
                    // re-sampling: doubled rate, tripled rate, and back to 1
                    let resample = match (s + k) % 4 { 0 => vec![2 * s], 1 => vec![3 * s, 1], _ => Vec::new() };
                    sampled::check(&sampled::Case { text: c.text.clone(), extra: B(vec![]), with_sentinel, s, k, resample })?;
                }
            }
        }
        // integer construction on the rank-compressed text (single sentinel only: the integer
        // property is stated for a unique minimum)
        let single = text.iter().filter(|&&x| x == text[n - 1]).count() == 1;
        if single {
            let body: Vec<u32> = text[..n - 1].iter().map(|&x| x as u32).collect();
            let t = ints::densify(&body);
            for width in 0..=4u8 {
                ints::check(&ints::Case { width, text: t.clone() })?;
            }
            pass.add("integer variants checked");
        }
        pass.add("sampled: all s in 1..=n+2");
        Ok(pass)
    }

    pub fn enumerate(t: Tier) -> Box<dyn Iterator<Item = Case>> {
        let max_len = match t {
            Tier::Quick => 8,
            Tier::Thorough => 10,
        };
        let syms = [b'$', b'a', b'b'];
        // enumerate by (length, index in base 3)
        let mut bounds = Vec::new();
        let mut p = 1usize;
        for l in 0..=max_len {
            bounds.push((l, p));
            p *= 3;
        }
        Box::new(bounds.into_iter().flat_map(move |(l, count)| {
            (0..count).map(move |mut code| {
                let mut v = Vec::with_capacity(l + 1);
                for _ in 0..l {
                    v.push(syms[code % 3]);
                    code /= 3;
                }
                v.push(b'$');
                Case { text: B(v) }
            })
        }))
    }
}

// ---------------------------------------------------------------------------
// LARGE-SCALE sub-checks: every size parameter across the ladder 255 .. 2^20 (see oracles/scale.rs).
// Cases are generator parameters ({kind, n, sigma, sentinel layout, seed}); the check expands them.

pub mod large {
    use super::*;
    use crate::c0306_ladder_labels;
    use crate::oracles::scale::c0306::{self as sc, add_group, ladder, mix, Kind, LadderSub, Sent, Sm64, TextSpec};
    use std::rc::Rc;
    use std::sync::Arc;

    pub const N_LABELS: [&str; 12] = c0306_ladder_labels!("n");
    pub const SENT_LABELS: [&str; 12] = c0306_ladder_labels!("sentinel occurrences");
    pub const LMS_LABELS: [&str; 12] = c0306_ladder_labels!("LMS positions");
    pub const LCP_LABELS: [&str; 12] = c0306_ladder_labels!("max LCP");
    pub const MAXSYM_LABELS: [&str; 12] = c0306_ladder_labels!("max symbol");
    pub const S_LABELS: [&str; 12] = c0306_ladder_labels!("SA sampling rate s");
    pub const K_LABELS: [&str; 12] = c0306_ladder_labels!("Occ rate k");
    pub const WALK_LABELS: [&str; 12] = c0306_ladder_labels!("longest LF walk");

    /// number of LMS positions of an integer text whose last symbol is the unique minimum (linear)
    pub fn lms_count(t: &[usize]) -> usize {
        let n = t.len();
        if n < 2 {
            return 0;
        }
        let mut count = 0usize;
        // s_next = type of position p+1 (true = S)
        let mut s_next = true;
        for p in (0..n - 1).rev() {
            let s_here = if t[p] == t[p + 1] { s_next } else { t[p] < t[p + 1] };
            if !s_here && s_next {
                count += 1; // p+1 is S and p is L
            }
            s_next = s_here;
        }
        count
    }

    fn kind_label(k: Kind) -> &'static str {
        match k {
            Kind::Random => "kind random",
            Kind::Homo => "kind homopolymer",
            Kind::Period(_) => "kind periodic",
            Kind::Asc => "kind ascending runs",
            Kind::Desc => "kind descending runs",
            Kind::Fib => "kind Fibonacci",
            Kind::Thue => "kind Thue-Morse",
            Kind::Repeat2 => "kind XcX",
        }
    }

    // ------------------------------------------------------------------ suffix_array / lcp / SUS

    pub mod bytes {
        use super::*;

        #[derive(Serialize, Deserialize, Debug, Clone)]
        pub struct Case {
            pub text: TextSpec,
            /// how the suffix array is handed to lcp(): 0 = &Vec, 1 = Box<Vec>, 2 = Rc<Vec>, 3 = Arc<Vec>
            pub deref: u8,
        }

        pub fn check(c: &Case) -> R {
            let Some(text) = c.text.build() else { fail!("harness: {:?} does not describe a text", c.text) };
            ensure!(sa::in_domain(&text), "harness: text of {:?} is outside the domain", c.text);
            let n = text.len();
            let pos = suffix_array(&text);
            let (t, m) = match sc::int_view(&text, &pos) {
                Ok(x) => x,
                Err(e) => fail!("suffix_array: text {:?} = {}: {}; sa={}", c.text, show(&text), e, show_vec(&pos)),
            };
            let adj = match sc::verify_sorted(&t, &pos) {
                Ok(a) => a,
                Err(e) => fail!("suffix_array: text {:?} = {}: {}; sa={}", c.text, show(&text), e, show_vec(&pos)),
            };
            let single = m == 1;
            let max_lcp = adj.iter().copied().max().unwrap_or(0) as usize;

            if single && n >= 2 {
                let l = match c.deref {
                    0 => lcp(&text, &pos),
                    1 => lcp(&text, Box::new(pos.clone())),
                    2 => lcp(&text, Rc::new(pos.clone())),
                    _ => lcp(&text, Arc::new(pos.clone())),
                };
                let d = l.decompress();
                ensure!(d.len() == n + 1 && l.len() == n + 1 && !l.is_empty(), "lcp: text {:?}: LCP array has {} entries (len() says {}), expected {}", c.text, d.len(), l.len(), n + 1);
                ensure!(d[0] == -1 && d[n] == -1, "lcp: text {:?}: border entries are lcp[0]={} lcp[{}]={}, expected -1 and -1", c.text, d[0], n, d[n]);
                for r in 1..n {
                    ensure!(
                        d[r] == adj[r] as isize,
                        "lcp: text {:?} = {}: lcp[{}]={} but suffixes {} and {} share exactly {} leading symbols",
                        c.text, show(&text), r, d[r], pos[r - 1], pos[r], adj[r]
                    );
                }
                for r in 0..=n {
                    let g = l.get(r);
                    ensure!(g == Some(d[r]), "lcp: text {:?}: get({})={:?} differs from decompress()[{}]={}", c.text, r, g, r, d[r]);
                }
                ensure!(l.get(n + 1).is_none(), "lcp: text {:?}: get({}) beyond the end returned {:?}", c.text, n + 1, l.get(n + 1));
                let via_iter: Vec<isize> = l.iter().collect();
                ensure!(via_iter == d, "lcp: text {:?}: iter() and decompress() differ", c.text);

                let sus = shortest_unique_substrings(&pos, &l);
                ensure!(sus.len() == n, "shortest_unique_substrings: text {:?}: {} entries, expected {}", c.text, sus.len(), n);
                for r in 0..n {
                    let p = pos[r];
                    let nb = adj[r].max(if r + 1 < n { adj[r + 1] } else { 0 }) as usize;
                    // the suffix array is verified sorted, so the longest prefix shared with any other suffix is
                    // shared with a neighbour; the last symbol is unique, so nb + 1 <= n - p
                    ensure!(
                        sus[p] == Some(nb + 1),
                        "shortest_unique_substrings: text {:?} = {}: position {} got {:?}, expected {:?} (1 + longest prefix shared with another suffix)",
                        c.text, show(&text), p, sus[p], Some(nb + 1)
                    );
                }
            }

            // classes (measured on the text, not taken from the parameters)
            let mut distinct = [false; 256];
            for &ch in &text {
                distinct[ch as usize] = true;
            }
            let nsym = distinct.iter().filter(|&&x| x).count(); // alphabet.len() of the library, sentinel included
            let ranks = nsym + m; // the quantity suffix_array() switches the text type on
            let lms = lms_count(&sa::transformed(&text));
            let mut pass = Pass::new(n >= 4 && nsym < n);
            add_group(&mut pass, &N_LABELS, n);
            add_group(&mut pass, &SENT_LABELS, m);
            add_group(&mut pass, &LMS_LABELS, lms);
            if single && n >= 2 {
                add_group(&mut pass, &LCP_LABELS, max_lcp);
                pass.add_if(max_lcp == 126, "max LCP = 126 (last small int)");
                pass.add_if(max_lcp == 127, "max LCP = 127 (first big int)");
                pass.add_if(max_lcp == 128, "max LCP = 128");
                pass.add("single-sentinel (LCP and SUS checked)");
            }
            pass.add_if(ranks == 255, "alphabet+sentinels = 255 (last u8 text)");
            pass.add_if(ranks == 256, "alphabet+sentinels = 256 (first u16 text)");
            pass.add_if((254..=258).contains(&ranks), "alphabet+sentinels in 254..258");
            pass.add_if(ranks == 65535, "alphabet+sentinels = 65535 (last u16 text)");
            pass.add_if(ranks == 65536, "alphabet+sentinels = 65536 (first u32 text)");
            pass.add_if((65534..=65538).contains(&ranks), "alphabet+sentinels in 65534..65538");
            pass.add_if(lms == 255, "LMS positions = 255 (last u8 reduced text)");
            pass.add_if(lms == 256, "LMS positions = 256 (first u16 reduced text)");
            pass.add_if(lms == 65535, "LMS positions = 65535 (last u16 reduced text)");
            pass.add_if(lms == 65536, "LMS positions = 65536 (first u32 reduced text)");
            pass.add_if(m > 1, "multi-sentinel");
            pass.add_if(m == n, "text of sentinels only");
            pass.add(kind_label(c.text.kind));
            pass.add(["lcp(&Vec)", "lcp(Box<Vec>)", "lcp(Rc<Vec>)", "lcp(Arc<Vec>)"][(c.deref as usize).min(3)]);
            Ok(pass)
        }

        pub fn weight(c: &Case) -> u64 {
            c.text.n as u64 + 2000
        }

        fn spec(kind: Kind, n: usize, sigma: u16, sent: Sent, sentinel: u8, dna: bool, seed: u64) -> TextSpec {
            TextSpec { kind, n, sigma, sent, sentinel, dna, seed }
        }

        /// text length n such that the text has exactly `target` LMS positions (best effort; the class is measured)
        fn fit_lms(kind: Kind, sigma: u16, sentinel: u8, dna: bool, seed: u64, target: usize) -> usize {
            // LMS density of a long sample, then try lengths around the estimate
            let probe = 4096usize.max(target.min(20_000));
            let t = spec(kind, probe, sigma, Sent::Single, sentinel, dna, seed).build().unwrap();
            let dens = lms_count(&sa::transformed(&t)).max(1) as f64 / probe as f64;
            let mut n = ((target as f64 / dens) as usize).max(3);
            for _ in 0..60 {
                let t = spec(kind, n, sigma, Sent::Single, sentinel, dna, seed).build().unwrap();
                let got = lms_count(&sa::transformed(&t));
                if got == target {
                    return n;
                }
                let diff = target as i64 - got as i64;
                let stepn = ((diff.abs() as f64 / dens) as i64).max(1) * diff.signum();
                n = ((n as i64 + stepn).max(3)) as usize;
            }
            n
        }

        pub fn cases(t: Tier, seed: u64) -> Vec<Case> {
            let mut v: Vec<TextSpec> = Vec::new();
            let reps = if t == Tier::Quick { 1 } else { 6 };
            for rep in 0..reps {
                let sd = |x: u64| mix(seed, x * 1000 + rep as u64);
                // --- (1) text length ladder, structured and random kinds
                let big = 131_073usize;
                for (vi, &n) in ladder(1 << 21).iter().enumerate() {
                    let s = sd(vi as u64);
                    let huge = n > big;
                    // single-sentinel kinds
                    v.push(spec(Kind::Random, n, 4, Sent::Single, b'$', true, s));
                    v.push(spec(Kind::Homo, n, 1, Sent::Single, b'$', true, s));
                    v.push(spec(Kind::Period(2), n, 4, Sent::Single, b'$', true, s));
                    v.push(spec(Kind::Random, n, 4, Sent::Random(n / 64), b'$', true, s));
                    if huge && t == Tier::Quick {
                        continue;
                    }
                    v.push(spec(Kind::Random, n, 2, Sent::Single, b'!', false, s));
                    v.push(spec(Kind::Random, n, 253, Sent::Single, 0, false, s));
                    v.push(spec(Kind::Random, n, 254, Sent::Single, 0, false, s));
                    v.push(spec(Kind::Period(3), n, 3, Sent::Single, b'#', false, s));
                    v.push(spec(Kind::Period(7), n, 4, Sent::Single, b'$', true, s));
                    v.push(spec(Kind::Asc, n, 4, Sent::Single, b'$', true, s));
                    v.push(spec(Kind::Desc, n, 4, Sent::Single, b'$', true, s));
                    v.push(spec(Kind::Fib, n, 2, Sent::Single, b'$', true, s));
                    v.push(spec(Kind::Thue, n, 2, Sent::Single, b'$', true, s));
                    v.push(spec(Kind::Repeat2, n, 4, Sent::Single, b'$', true, s));
                    // multi-sentinel kinds
                    v.push(spec(Kind::Random, n, 4, Sent::Even(n / 100 + 1), b'$', true, s));
                    v.push(spec(Kind::Homo, n, 1, Sent::Random(n / 50 + 1), 0, false, s));
                    v.push(spec(Kind::Random, n, 4, Sent::Tail(5), b'$', true, s));
                    v.push(spec(Kind::Random, n, 3, Sent::Head(5), b'#', false, s));
                    v.push(spec(Kind::Period(100), n, 4, Sent::Every(101), b'$', true, s));
                }
                // --- (2) number of sentinel occurrences m (interior = m-1)
                for (vi, &m) in ladder(131_073).iter().enumerate() {
                    let s = sd(100 + vi as u64);
                    v.push(spec(Kind::Random, 2 * m, 4, Sent::Random(m - 1), b'$', true, s));
                    v.push(spec(Kind::Random, m + 40, 4, Sent::Tail(m - 1), b'$', true, s));
                    v.push(spec(Kind::Homo, 2 * m, 1, Sent::Every(2), 0, false, s));
                    v.push(spec(Kind::Homo, m, 1, Sent::Head(m - 1), b'$', true, s)); // sentinels only
                }
                // --- (3) alphabet size + sentinel occurrences around the u8/u16 and u16/u32 switch
                for &sum in &[254usize, 255, 256, 257, 258, 65534, 65535, 65536, 65537, 65538] {
                    for &sigma in &[4u16, 200] {
                        let m = sum - (sigma as usize + 1);
                        if m >= 1 && (sigma == 4 || sum < 1000) {
                            let n = 2 * m + 40 * sigma as usize;
                            v.push(spec(Kind::Random, n, sigma, if m == 1 { Sent::Single } else { Sent::Random(m - 1) }, if sigma == 4 { b'$' } else { 0 }, sigma == 4, sd(200 + sum as u64)));
                        }
                    }
                }
                // --- (4) number of LMS positions (type of the reduced text)
                let mut lms_targets = ladder(131_073);
                lms_targets.extend([254usize, 258]);
                for (vi, &target) in lms_targets.iter().enumerate() {
                    let s = sd(300 + vi as u64);
                    for (kind, sigma, sentinel, dna) in [(Kind::Period(2), 4u16, b'$', true), (Kind::Random, 4, b'$', true), (Kind::Random, 254, 0u8, false)] {
                        if target > 70_000 && kind == Kind::Random && sigma == 254 && t == Tier::Quick {
                            continue;
                        }
                        let n = fit_lms(kind, sigma, sentinel, dna, s, target);
                        v.push(spec(kind, n, sigma, Sent::Single, sentinel, dna, s));
                    }
                }
                // --- (5) longest repeat (LCP values around the small-int limit and the ladder)
                let mut lcps = ladder(1 << 19);
                lcps.extend([125usize, 126, 127, 128, 129]);
                for (vi, &h) in lcps.iter().enumerate() {
                    v.push(spec(Kind::Repeat2, 2 * h + 2, 4, Sent::Single, b'$', true, sd(400 + vi as u64)));
                    if h <= 200 {
                        v.push(spec(Kind::Homo, h + 2, 1, Sent::Single, b'$', true, sd(400 + vi as u64)));
                    }
                }
            }
            v.into_iter().enumerate().map(|(i, text)| Case { text, deref: (i % 4) as u8 }).collect()
        }

        pub fn sub() -> LadderSub<Case> {
            LadderSub {
                name: "C03/large-sa",
                cases,
                weight,
                check,
                shards_quick: 16,
                shards_thorough: 16,
                must_reach: &[
                    N_LABELS[0], N_LABELS[1], N_LABELS[2], N_LABELS[3], N_LABELS[4], N_LABELS[5], N_LABELS[6], N_LABELS[7], N_LABELS[8], N_LABELS[9], N_LABELS[10], N_LABELS[11],
                    SENT_LABELS[0], SENT_LABELS[1], SENT_LABELS[2], SENT_LABELS[3], SENT_LABELS[4], SENT_LABELS[5], SENT_LABELS[6], SENT_LABELS[7], SENT_LABELS[8], SENT_LABELS[9],
                    LCP_LABELS[0], LCP_LABELS[1], LCP_LABELS[2], LCP_LABELS[3], LCP_LABELS[4], LCP_LABELS[5], LCP_LABELS[6], LCP_LABELS[7], LCP_LABELS[8], LCP_LABELS[9], LCP_LABELS[10], LCP_LABELS[11],
                    "max LCP = 126 (last small int)", "max LCP = 127 (first big int)", "max LCP = 128",
                    "alphabet+sentinels = 255 (last u8 text)", "alphabet+sentinels = 256 (first u16 text)",
                    "alphabet+sentinels = 65535 (last u16 text)", "alphabet+sentinels = 65536 (first u32 text)",
                    // the exact LMS counts are fitted by search on seed-dependent content (best effort): they are
                    // class labels in the evidence, not must-reach classes
                    "text of sentinels only", "multi-sentinel",
                    "lcp(&Vec)", "lcp(Box<Vec>)", "lcp(Rc<Vec>)", "lcp(Arc<Vec>)",
                ],
            }
        }
    }

    // ------------------------------------------------------------------ suffix_array_int

    pub mod ints {
        use super::*;

        #[derive(Serialize, Deserialize, Debug, Clone)]
        pub struct Case {
            /// element type: 0=u8 1=u16 2=u32 3=u64 4=usize
            pub width: u8,
            /// Random / Homo / Period / Asc / Desc
            pub kind: Kind,
            /// text length including the trailing 0
            pub n: usize,
            /// largest symbol; every value of 0..=max occurs, 0 only at the end
            pub max: u32,
            pub seed: u64,
        }

        pub fn build(c: &Case) -> Option<Vec<u32>> {
            let max = c.max as usize;
            if c.n < 1 || max + 1 > c.n || (max == 0 && c.n != 1) {
                return None;
            }
            let len = c.n - 1;
            let mut rng = Sm64::new(c.seed);
            let fill = len - max;
            let mut body: Vec<u32> = (1..=c.max).collect();
            match c.kind {
                Kind::Random => {
                    body.extend((0..fill).map(|_| 1 + rng.below(max) as u32));
                    for i in (1..body.len()).rev() {
                        let j = rng.below(i + 1);
                        body.swap(i, j);
                    }
                }
                Kind::Asc => {
                    body.extend((0..fill).map(|_| 1 + rng.below(max) as u32));
                    body.sort_unstable();
                }
                Kind::Desc => {
                    body.extend((0..fill).map(|_| 1 + rng.below(max) as u32));
                    body.sort_unstable_by(|a, b| b.cmp(a));
                }
                Kind::Period(p) => {
                    let p = (p as usize).max(1);
                    let unit: Vec<u32> = (0..p).map(|_| 1 + rng.below(max) as u32).collect();
                    body.extend((0..fill).map(|i| unit[i % p]));
                }
                _ => {
                    // homopolymer of the largest symbol after the ascending permutation
                    body.extend(std::iter::repeat(c.max).take(fill));
                }
            }
            body.push(0);
            Some(body)
        }

        fn run(width: u8, t: &[u32]) -> Vec<usize> {
            match width {
                0 => suffix_array_int(&t.iter().map(|&v| v as u8).collect::<Vec<u8>>()),
                1 => suffix_array_int(&t.iter().map(|&v| v as u16).collect::<Vec<u16>>()),
                2 => suffix_array_int(t),
                3 => suffix_array_int(&t.iter().map(|&v| v as u64).collect::<Vec<u64>>()),
                _ => suffix_array_int(&t.iter().map(|&v| v as usize).collect::<Vec<usize>>()),
            }
        }

        pub fn check(c: &Case) -> R {
            let Some(t) = build(c) else { fail!("harness: {:?} does not describe an integer text", c) };
            let n = t.len();
            let limit: u64 = match c.width {
                0 => 255,
                1 => 65_535,
                _ => u32::MAX as u64,
            };
            ensure!(c.width <= 4 && c.max as u64 <= limit, "harness: {:?}: max does not fit the element type", c);
            let w = super::super::ints::width_name(c.width);
            let pos = run(c.width, &t);
            ensure!(pos.len() == n, "suffix_array_int::<{}>: text {:?} = {}: result has length {}, expected {}", w, c, show_vec(&t), pos.len(), n);
            let mut seen = vec![false; n];
            for (r, &p) in pos.iter().enumerate() {
                ensure!(p < n && !seen[p], "suffix_array_int::<{}>: text {:?} = {}: sa[{}]={} is out of range or repeated, not a permutation; sa={}", w, c, show_vec(&t), r, p, show_vec(&pos));
                seen[p] = true;
            }
            if let Err(e) = sc::verify_sorted(&t, &pos) {
                fail!("suffix_array_int::<{}>: text {:?} = {}: {}; sa={}", w, c, show_vec(&t), e, show_vec(&pos));
            }
            let lms = lms_count(&t.iter().map(|&x| x as usize).collect::<Vec<_>>());
            let mut pass = Pass::new(n >= 4);
            add_group(&mut pass, &N_LABELS, n);
            add_group(&mut pass, &MAXSYM_LABELS, c.max as usize);
            add_group(&mut pass, &LMS_LABELS, lms);
            pass.add(["int u8", "int u16", "int u32", "int u64", "int usize"][c.width as usize]);
            pass.add_if(c.max == 254, "max symbol = 254");
            pass.add_if(c.max == 255 && c.width == 0, "max symbol = 255 as u8");
            pass.add_if(c.max == 65_535 && c.width == 1, "max symbol = 65535 as u16");
            pass.add_if(c.max == 65_536, "max symbol = 65536");
            pass.add_if(c.max as usize + 1 == n && n > 2, "permutation text (all symbols distinct)");
            pass.add(kind_label(c.kind));
            Ok(pass)
        }

        pub fn weight(c: &Case) -> u64 {
            c.n as u64 + 2000
        }

        pub fn cases(t: Tier, seed: u64) -> Vec<Case> {
            let mut v = Vec::new();
            let reps = if t == Tier::Quick { 1 } else { 6 };
            let need = |max: u32| if max <= 255 { 0u8 } else if max <= 65_535 { 1 } else { 2 };
            let mut i = 0u64;
            let mut push = |v: &mut Vec<Case>, kind: Kind, n: usize, max: u32, s: u64| {
                i += 1;
                let width = need(max).max((i % 5) as u8);
                v.push(Case { width, kind, n, max, seed: s });
            };
            for rep in 0..reps {
                let sd = |x: u64| mix(seed, 0xc03_1 + x * 1000 + rep as u64);
                // text length ladder with small alphabets and with all-distinct symbols
                for (vi, &n) in ladder(1 << 21).iter().enumerate() {
                    let s = sd(vi as u64);
                    let huge = n > 131_073;
                    push(&mut v, Kind::Random, n, 4, s);
                    push(&mut v, Kind::Homo, n, 1, s);
                    if huge && t == Tier::Quick {
                        continue;
                    }
                    push(&mut v, Kind::Period(2), n, 2, s);
                    push(&mut v, Kind::Period(5), n, 3, s);
                    push(&mut v, Kind::Asc, n, 4, s);
                    push(&mut v, Kind::Desc, n, 4, s);
                    push(&mut v, Kind::Random, n, 200, s);
                    // permutations: random, sorted ascending, sorted descending
                    push(&mut v, Kind::Random, n, (n - 1) as u32, s);
                    push(&mut v, Kind::Asc, n, (n - 1) as u32, s);
                    push(&mut v, Kind::Desc, n, (n - 1) as u32, s);
                }
                // largest symbol (= number of buckets - 1) ladder, texts twice as long as the alphabet
                let mut maxes = ladder(131_073);
                maxes.extend([253usize, 254, 65_534, 65_538]);
                for (vi, &mx) in maxes.iter().enumerate() {
                    let s = sd(500 + vi as u64);
                    push(&mut v, Kind::Random, 2 * mx + 1, mx as u32, s);
                    push(&mut v, Kind::Asc, 2 * mx + 1, mx as u32, s);
                    push(&mut v, Kind::Homo, mx + 300, mx as u32, s);
                }
                // narrowest type that holds the text, at its limit
                for (k, &(w, mx)) in [(0u8, 255u32), (0, 254), (1, 65_535), (1, 65_534), (1, 256), (2, 65_536), (4, 65_536), (3, 65_537)].iter().enumerate() {
                    for kind in [Kind::Random, Kind::Desc] {
                        v.push(Case { width: w, kind, n: mx as usize + 1 + (k % 2) * 1000, max: mx, seed: sd(900 + k as u64) });
                    }
                }
            }
            v
        }

        pub fn sub() -> LadderSub<Case> {
            LadderSub {
                name: "C03/large-int",
                cases,
                weight,
                check,
                shards_quick: 8,
                shards_thorough: 16,
                must_reach: &[
                    N_LABELS[0], N_LABELS[1], N_LABELS[2], N_LABELS[3], N_LABELS[4], N_LABELS[5], N_LABELS[6], N_LABELS[7], N_LABELS[8], N_LABELS[9], N_LABELS[10], N_LABELS[11],
                    MAXSYM_LABELS[0], MAXSYM_LABELS[1], MAXSYM_LABELS[2], MAXSYM_LABELS[3], MAXSYM_LABELS[4], MAXSYM_LABELS[5], MAXSYM_LABELS[6], MAXSYM_LABELS[7], MAXSYM_LABELS[8], MAXSYM_LABELS[9],
                    "int u8", "int u16", "int u32", "int u64", "int usize",
                    "max symbol = 254", "max symbol = 255 as u8", "max symbol = 65535 as u16", "max symbol = 65536",
                    "permutation text (all symbols distinct)",
                ],
            }
        }
    }

    // ------------------------------------------------------------------ sampled suffix array

    pub mod sampled {
        use super::*;

        #[derive(Serialize, Deserialize, Debug, Clone)]
        pub struct Case {
            pub text: TextSpec,
            /// suffix array sampling rate (>= 1, may exceed n)
            pub s: usize,
            /// Occ sampling rate (>= 1, may exceed n)
            pub k: u32,
            /// symbols added to the alphabet handed to less / Occ
            pub extra: B,
            /// keep a `$` sentinel in that alphabet
            pub with_sentinel: bool,
            /// components handed to sample(): 0 = borrowed, 1 = owned, 2 = Arc
            pub own: u8,
            /// at most this many get() queries (all rows when >= n)
            pub budget: usize,
            pub qseed: u64,
        }

        /// rows to query: first/last, around multiples of s, around ladder values, rows whose LF walk is
        /// longest (text positions just below the next sampled/extra row), random rows
        fn queries(c: &Case, n: usize, full: &[usize], walk: &[u32]) -> Vec<usize> {
            if c.budget >= n {
                return (0..n).collect();
            }
            let mut q: Vec<usize> = Vec::new();
            let mut add = |r: usize| {
                if r < n {
                    q.push(r);
                }
            };
            // rows with the longest walks first
            let mut best: Vec<usize> = (0..n).collect();
            let top = (c.budget / 4).max(4).min(n);
            best.select_nth_unstable_by(top - 1, |&a, &b| walk[b].cmp(&walk[a]));
            for &r in &best[..top] {
                add(r);
            }
            for r in [0usize, 1, 2, n - 1, n.saturating_sub(2)] {
                add(r);
            }
            for j in 1..=4usize {
                for d in [-1i64, 0, 1] {
                    let r = (j * c.s) as i64 + d;
                    if r >= 0 {
                        add(r as usize);
                    }
                }
            }
            for v in ladder(n) {
                add(v - 1);
                add(v);
                add(v + 1);
            }
            let _ = full;
            let mut rng = Sm64::new(c.qseed);
            for _ in 0..c.budget * 2 {
                add(rng.below(n));
            }
            // keep the order (long walks first), drop duplicates, cut to the budget
            let mut seen = std::collections::HashSet::new();
            q.retain(|r| seen.insert(*r));
            q.truncate(c.budget);
            q
        }

        pub fn check(c: &Case) -> R {
            let Some(text) = c.text.build() else { fail!("harness: {:?} does not describe a text", c.text) };
            ensure!(sa::in_domain(&text), "harness: text of {:?} is outside the domain", c.text);
            ensure!(c.s >= 1 && c.k >= 1 && c.budget >= 1, "harness: rates/budget of {:?}", c);
            let n = text.len();
            let sentinel = text[n - 1];
            let syms = sa::alphabet_for(&text, &c.extra, c.with_sentinel);
            let alphabet = Alphabet::new(&syms);
            let full = suffix_array(&text);
            // a wrong full array is C03/large-sa's finding; here it would make every answer meaningless
            let (t, m) = match sc::int_view(&text, &full) {
                Ok(x) => x,
                Err(e) => fail!("suffix_array: text {:?}: {}", c.text, e),
            };
            if let Err(e) = sc::verify_sorted(&t, &full) {
                fail!("suffix_array: text {:?}: {}", c.text, e);
            }
            let b = bwt(&text, &full);
            let ls = less(&b, &alphabet);
            let occ = Occ::new(&b, c.k, &alphabet);

            // length of the LF walk of every row, from the text (independent of the library):
            // the walk from row r (text position p) steps to p-1, p-2, .. and stops at the first row that is
            // sampled (row % s == 0) or whose BWT symbol is a sentinel (extra row)
            let mut walk = vec![0u32; n];
            {
                let mut isa = vec![0usize; n];
                for (r, &p) in full.iter().enumerate() {
                    isa[p] = r;
                }
                // process text positions in increasing order: stop(p) known => walk(p+1) = walk(p)+1 unless p+1 stops itself
                for p in 0..n {
                    let r = isa[p];
                    let stops = r % c.s == 0 || b[r] == sentinel;
                    walk[r] = if stops { 0 } else { walk[isa[p - 1]] + 1 };
                }
            }
            let longest = walk.iter().copied().max().unwrap_or(0) as usize;
            let q = queries(c, n, &full, &walk);

            macro_rules! probe {
                ($sampled:expr) => {{
                    let sampled = $sampled;
                    ensure!(SuffixArray::len(&sampled) == n && !SuffixArray::is_empty(&sampled), "sampled: {:?}: len()={} is_empty()={} expected {}", c, SuffixArray::len(&sampled), SuffixArray::is_empty(&sampled), n);
                    ensure!(sampled.sampling_rate() == c.s, "sampled: {:?}: sampling_rate()={} expected {}", c, sampled.sampling_rate(), c.s);
                    ensure!(sampled.bwt() == &b && sampled.less() == &ls && sampled.occ() == &occ, "sampled: {:?}: bwt()/less()/occ() do not return the components handed to sample()", c);
                    for &i in &q {
                        let got = sampled.get(i);
                        ensure!(
                            got == Some(full[i]),
                            "sampled: text {:?} = {} alphabet {} s={} k={}: get({})={:?} but the full array has {} (LF walk of {} steps)",
                            c.text, show(&text), show(&syms), c.s, c.k, i, got, full[i], walk[i]
                        );
                    }
                    ensure!(sampled.get(n).is_none() && sampled.get(n + c.s).is_none(), "sampled: {:?}: get beyond the end is not None", c);
                    // shortest unique substrings through the sampled array (generic SuffixArray argument)
                    if m == 1 && n >= 2 && (n as u64) * (longest as u64 + 1) <= 600_000 {
                        let l = lcp(&text, &full);
                        let a = shortest_unique_substrings(&sampled, &l);
                        let bfull = shortest_unique_substrings(&full, &l);
                        ensure!(a == bfull, "shortest_unique_substrings: {:?}: result through the sampled array differs from the result through the full array", c);
                        true
                    } else {
                        false
                    }
                }};
            }
            let sus_checked = match c.own {
                0 => probe!(full.sample(&text, &b, &ls, &occ, c.s)),
                1 => probe!(full.sample(&text, b.clone(), ls.clone(), occ.clone(), c.s)),
                _ => probe!(full.sample(&text, Arc::new(b.clone()), Arc::new(ls.clone()), Arc::new(occ.clone()), c.s)),
            };

            let k = c.k as usize;
            let mut pass = Pass::new(n >= 4 && c.s > 1);
            add_group(&mut pass, &N_LABELS, n);
            add_group(&mut pass, &S_LABELS, c.s);
            add_group(&mut pass, &K_LABELS, k);
            add_group(&mut pass, &SENT_LABELS, m);
            add_group(&mut pass, &WALK_LABELS, longest);
            pass.add_if(longest > 255, "LF walk > 255 steps");
            pass.add_if(longest > 65_535, "LF walk > 65535 steps");
            pass.add_if(c.s > n, "s>n");
            pass.add_if(k > n, "k>n");
            pass.add_if(k > 65_536 && k < n, "k>65536 with a second checkpoint");
            pass.add_if(c.s > 65_536 && c.s < n, "s>65536 with a second sample");
            pass.add_if(m > 1, "multi-sentinel (extra rows)");
            pass.add_if(q.len() == n, "every row queried");
            pass.add_if(q.len() < n, "rows sampled");
            pass.add_if(sus_checked, "SUS through the sampled array");
            pass.add_if(!syms.contains(&sentinel), "alphabet without the $ sentinel");
            pass.add(["borrowed", "owned", "Arc"][(c.own as usize).min(2)]);
            pass.add(kind_label(c.text.kind));
            Ok(pass)
        }

        /// rough cost of one get(): walk length times cost of one Occ::get
        fn per_query(n: usize, s: usize, k: u32, multi: bool) -> u64 {
            let walk = if multi { s.min(n) } else { s.min(n) } as u64;
            walk.max(1) * (k as u64 / 24 + 25)
        }

        pub fn weight(c: &Case) -> u64 {
            let q = c.budget.min(c.text.n) as u64;
            c.text.n as u64 * 3 + q * per_query(c.text.n, c.s, c.k, c.text.sent != Sent::Single) / 40 + 2000
        }

        fn mk(text: TextSpec, s: usize, k: u32, i: usize, seed: u64, effort: u64) -> Case {
            let n = text.n;
            let pq = per_query(n, s, k, text.sent != Sent::Single);
            let budget = ((effort / pq) as usize).clamp(6, 200_000);
            let extra: Vec<u8> = match i % 3 {
                0 => vec![],
                1 => b"N".to_vec(),
                _ => vec![0xff],
            };
            Case { text, s, k, extra: B(extra), with_sentinel: i % 2 == 0, own: (i % 3) as u8, budget, qseed: seed }
        }

        pub fn cases(t: Tier, seed: u64) -> Vec<Case> {
            let mut v = Vec::new();
            let reps = if t == Tier::Quick { 1 } else { 5 };
            let effort: u64 = if t == Tier::Quick { 12_000_000 } else { 60_000_000 };
            let sp = |kind: Kind, n: usize, sigma: u16, sent: Sent, s: u64| TextSpec { kind, n, sigma, sent, sentinel: b'$', dna: true, seed: s };
            for rep in 0..reps {
                let sd = |x: u64| mix(seed, 0xc03_2 + x * 1000 + rep as u64);
                let mut i = 0usize;
                // (A) sampling rate ladder, cheap Occ; text long enough for a second sample and for walks > s
                let mut rates = ladder(131_073);
                rates.extend([2usize, 64]);
                for (vi, &s) in rates.iter().enumerate() {
                    let sdv = sd(vi as u64);
                    let n = (2 * s + 11).max(3000);
                    for text in [sp(Kind::Random, n, 4, Sent::Single, sdv), sp(Kind::Homo, n, 1, Sent::Single, sdv), sp(Kind::Random, n, 4, Sent::Random(n / 2000 + 1), sdv)] {
                        i += 1;
                        v.push(mk(text, s, 32, i, sdv, effort));
                    }
                    // s > n: only row 0 is sampled, walks run to the start of the sequence
                    i += 1;
                    v.push(mk(sp(Kind::Random, s.saturating_sub(7).max(1), 4, Sent::Single, sdv), s, 16, i, sdv, effort));
                }
                // (B) Occ rate ladder, small s; dense BWT runs (homopolymer, dinucleotide) and random
                for (vi, &k) in ladder(131_073).iter().enumerate() {
                    let sdv = sd(200 + vi as u64);
                    let n = 2 * k + 11;
                    for text in [sp(Kind::Random, n, 4, Sent::Single, sdv), sp(Kind::Homo, n, 1, Sent::Single, sdv), sp(Kind::Period(2), n, 4, Sent::Single, sdv), sp(Kind::Period(50), n, 4, Sent::Every(51), sdv)] {
                        i += 1;
                        v.push(mk(text, 8, k as u32, i, sdv, effort));
                    }
                    // k > n and k = 2n
                    i += 1;
                    v.push(mk(sp(Kind::Random, k - 9, 4, Sent::Single, sdv), 5, k as u32, i, sdv, effort));
                    i += 1;
                    v.push(mk(sp(Kind::Period(2), k / 2, 4, Sent::Single, sdv), 3, (k / 2 * 2) as u32, i, sdv, effort));
                }
                // (C) text length ladder
                for (vi, &n) in ladder(1 << 21).iter().enumerate() {
                    let sdv = sd(400 + vi as u64);
                    let mut texts = vec![sp(Kind::Random, n, 4, Sent::Single, sdv), sp(Kind::Random, n, 4, Sent::Random(n / 300 + 1), sdv)];
                    if n <= 131_073 || t == Tier::Thorough {
                        texts.push(sp(Kind::Homo, n, 1, Sent::Single, sdv));
                        texts.push(sp(Kind::Fib, n, 2, Sent::Single, sdv));
                        texts.push(sp(Kind::Period(100), n, 4, Sent::Every(101), sdv));
                    }
                    for text in texts {
                        i += 1;
                        v.push(mk(text, [32usize, 7, 100][i % 3], [128u32, 3, 70][i % 3], i, sdv, effort));
                    }
                }
                // (D) number of sentinel occurrences (size of the extra-row table)
                for (vi, &m) in ladder(131_073).iter().enumerate() {
                    let sdv = sd(600 + vi as u64);
                    i += 1;
                    v.push(mk(sp(Kind::Random, 3 * m, 4, Sent::Random(m - 1), sdv), 16, 64, i, sdv, effort));
                    i += 1;
                    v.push(mk(sp(Kind::Period(2), 3 * m, 4, Sent::Every(3), sdv), 4, 16, i, sdv, effort));
                }
                // (E) both rates large
                for (j, &(s, k, n)) in [(65_537usize, 65_537u32, 200_003usize), (257, 70_000, 150_001), (70_000, 257, 150_001), (131_073, 4_097, 300_007), (4_097, 131_073, 300_007)].iter().enumerate() {
                    let sdv = sd(800 + j as u64);
                    for text in [sp(Kind::Random, n, 4, Sent::Single, sdv), sp(Kind::Homo, n, 1, Sent::Single, sdv)] {
                        i += 1;
                        v.push(mk(text, s, k, i, sdv, effort));
                    }
                }
            }
            v
        }

        pub fn sub() -> LadderSub<Case> {
            LadderSub {
                name: "C03/large-sampled",
                cases,
                weight,
                check,
                shards_quick: 16,
                shards_thorough: 16,
                must_reach: &[
                    N_LABELS[0], N_LABELS[1], N_LABELS[2], N_LABELS[3], N_LABELS[4], N_LABELS[5], N_LABELS[6], N_LABELS[7], N_LABELS[8], N_LABELS[9], N_LABELS[10], N_LABELS[11],
                    S_LABELS[0], S_LABELS[1], S_LABELS[2], S_LABELS[3], S_LABELS[4], S_LABELS[5], S_LABELS[6], S_LABELS[7], S_LABELS[8], S_LABELS[9],
                    K_LABELS[0], K_LABELS[1], K_LABELS[2], K_LABELS[3], K_LABELS[4], K_LABELS[5], K_LABELS[6], K_LABELS[7], K_LABELS[8], K_LABELS[9],
                    SENT_LABELS[0], SENT_LABELS[1], SENT_LABELS[2], SENT_LABELS[3], SENT_LABELS[4], SENT_LABELS[5], SENT_LABELS[6], SENT_LABELS[7], SENT_LABELS[8], SENT_LABELS[9],
                    "LF walk > 255 steps", "LF walk > 65535 steps", "s>n", "k>n", "k>65536 with a second checkpoint", "s>65536 with a second sample",
                    "multi-sentinel (extra rows)", "every row queried", "SUS through the sampled array", "borrowed", "owned", "Arc",
                ],
            }
        }
    }
}

pub fn property() -> Property {
    Property {
        id: "C03",
        rule: "random byte texts = body + trailing sentinel ($, !, #, 0x00; body symbols strictly larger; interior sentinel occurrences inserted with probability 0/2/10/40 %), bodies uniform over 1-4 letters, runs, Fibonacci/Thue-Morse factors, periodic, X..X repeats, full byte alphabet, all-symbols permutations; body lengths <=19 / <=299 / <=2999 (thorough: <=20000). Oracle for suffix_array: permutation, sa[0]=n-1, sentinel positions first, and strictly increasing under direct suffix comparison in which each sentinel occurrence is a distinct symbol ranked as in sa[0..#sentinels]. Single-sentinel texts with n>=2: every LCP entry against the directly counted common prefix, -1 borders, get()==decompress(); shortest_unique_substrings against 1+max neighbour prefix (all n), pairwise scan (n<=200) and the literal one-occurrence definition (n<=60). Integer texts (rank-compressed random/structured bodies + unique trailing 0, element types u8/u16/u32/u64/usize): permutation + adjacent slice comparison (+ full sort for n<=64). Sampled array: get(i)==full[i] for all i with s in 1..=n+2, k in 1..=2n, alphabets with extra symbols, full array = naive suffix sort (and the library array when it differs). Exhaustive: every text over {$,a,b} of body length <=8 (thorough 10) + final $, all of the above with every s and k in {1,2,3,n,2n}. Non-trivial = n>=4 and a repeated symbol (sampled: n>=4 and s>1; int: n>=4 and a repeated value); distinct = distinct serialised case. LARGE-SCALE (C03/large-sa, large-int, large-sampled; enumerated parameter cases {kind, n, sigma, sentinel layout, seed} expanded by a splitmix64 generator, so every ladder value is reached for every seed): text length, number of sentinel occurrences, alphabet+sentinel count (u8/u16/u32 text switch), number of LMS positions (u8/u16/u32 reduced text), longest repeat / LCP value (i8 small-int limit 127, 255, 65535), largest integer symbol and element type, SA sampling rate s, Occ rate k and LF-walk length on the ladder 255..257, 511..513, 1023..1025, 4095..4097, 8191..8193, 16383..16385, 32767..32769, 65535..65537, ~70000, 131071..131073, 2^19+-1, 2^20+-1 over random / homopolymer / periodic / ascending / descending / Fibonacci / Thue-Morse / XcX / identical-reads texts. Oracle there: permutation + sentinel block + strict order of adjacent suffixes via polynomial prefix hashes (common prefix in O(log) probes; every alarm is re-confirmed by direct comparison, so a hash collision can only cause a miss); LCP / SUS against those common prefixes; sampled get(i) against the full array for all rows or for a budgeted selection that always contains the rows with the longest LF walks, the rows around multiples of s and around every ladder value.",
        assumptions: &[
            "byte texts are non-empty and end in their smallest symbol; integer texts use every value of 0..=max and end in the only 0",
            "the alphabet handed to less/Occ for the sampled array contains every text symbol; a `$` sentinel may be left out when a larger symbol is present (Occ::new adds it)",
            "LCP and shortest unique substrings are only checked for single-sentinel texts of length >= 2, as stated",
        ],
        subs: vec![
            Box::new(PropSub {
                name: "C03/sa-bytes",
                quick: 400_000,
                thorough: 3_200_000,
                shards_quick: 16,
                shards_thorough: 16,
                strat: bytes::strat,
                check: bytes::check,
                must_reach: &["multi-sentinel", "recursion taken", "recursion depth>=2", ">255 ranks (u16 text path)", ">255 LMS substrings (u16 reduced text)", "LCP>=127", "adjacent sentinels"],
                watch: false,
            }),
            Box::new(PropSub {
                name: "C03/sa-int",
                quick: 250_000,
                thorough: 1_800_000,
                shards_quick: 16,
                shards_thorough: 8,
                strat: ints::strat,
                check: ints::check,
                must_reach: &["int u8", "int u16", "int u32", "int usize", "recursion taken", "max symbol > 255", ">255 LMS substrings (u16 reduced text)"],
                watch: false,
            }),
            Box::new(PropSub {
                name: "C03/sampled",
                quick: 200_000,
                thorough: 1_600_000,
                shards_quick: 16,
                shards_thorough: 12,
                strat: sampled::strat,
                check: sampled::check,
                must_reach: &["sampling s>1", "multi-sentinel with s>1 (extra rows)", "k>64 with a second checkpoint", "s>n", "alphabet without the $ sentinel"],
                watch: false,
            }),
            Box::new(ExhSub { name: "C03/exhaustive", enumerate: exh::enumerate, check: exh::check, must_reach: &["multi-sentinel", "recursion taken", "integer variants checked"] }),
            Box::new(large::bytes::sub()),
            Box::new(large::ints::sub()),
            Box::new(large::sampled::sub()),
        ],
    }
}
