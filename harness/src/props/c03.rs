//! C03 — suffix array is the sorted permutation of all suffixes; LCP, shortest unique
//! substrings and the sampled suffix array agree with it.

use crate::engine::*;
use crate::oracles::sa::{self, show, show_vec, textgen};
use crate::{ensure, fail};
use bio::alphabets::Alphabet;
use bio::data_structures::bwt::{bwt, less, Occ};
use bio::data_structures::suffix_array::{lcp, shortest_unique_substrings, suffix_array, suffix_array_int, SuffixArray};
use proptest::prelude::*;
use serde::{Deserialize, Serialize};

fn tiers(t: Tier) -> Vec<(u32, usize)> {
    match t {
        Tier::Quick => vec![(10, 19), (6, 299), (2, 2999)],
        Tier::Thorough => vec![(50, 19), (30, 299), (10, 2999), (1, 20_000)],
    }
}

// ---------------------------------------------------------------------------
// byte texts: suffix_array, lcp, shortest_unique_substrings

pub mod bytes {
    use super::*;

    #[derive(Serialize, Deserialize, Debug, Clone)]
    pub struct Case {
        /// body + trailing sentinel (the smallest symbol; may also occur inside)
        pub text: B,
    }

    pub fn check(c: &Case) -> R {
        let text: &[u8] = &c.text;
        ensure!(sa::in_domain(text), "harness: text {} is outside the domain (empty or last symbol not the smallest)", show(text));
        let n = text.len();
        let pos = suffix_array(text);
        let facts = match sa::verify_sa_bytes(text, &pos) {
            Ok(f) => f,
            Err(e) => fail!("suffix_array: {}", e),
        };
        let single = facts.sentinels == 1;
        let max_lcp = facts.adj_lcp.iter().copied().max().unwrap_or(0);

        if single && n >= 2 {
            // LCP array: n+1 entries, -1 at both ends, true common prefix lengths inside
            let l = lcp(text, &pos);
            let d = l.decompress();
            ensure!(d.len() == n + 1 && l.len() == n + 1, "lcp: text {}: LCP array has {} entries (len() says {}), expected {}", show(text), d.len(), l.len(), n + 1);
            ensure!(d[0] == -1 && d[n] == -1, "lcp: text {}: border entries are lcp[0]={} lcp[{}]={}, expected -1 and -1; lcp={}", show(text), d[0], n, d[n], show_vec(&d));
            for r in 1..n {
                let want = facts.adj_lcp[r] as isize;
                ensure!(
                    d[r] == want,
                    "lcp: text {}: lcp[{}]={} but suffixes {} and {} share exactly {} leading symbols; sa={} lcp={}",
                    show(text), r, d[r], pos[r - 1], pos[r], want, show_vec(&pos), show_vec(&d)
                );
            }
            for r in 0..=n {
                let g = l.get(r);
                ensure!(g == Some(d[r]), "lcp: text {}: get({})={:?} differs from decompress()[{}]={}", show(text), r, g, r, d[r]);
            }

            // shortest unique substrings
            let sus = shortest_unique_substrings(&pos, &l);
            ensure!(sus.len() == n, "shortest_unique_substrings: text {}: {} entries, expected {}", show(text), sus.len(), n);
            // (a) for every n: the suffix array is verified sorted, so the longest prefix shared with any
            //     other suffix is shared with a neighbour in the array
            for r in 0..n {
                let p = pos[r];
                let nb = facts.adj_lcp[r].max(if r + 1 < n { facts.adj_lcp[r + 1] } else { 0 });
                let want = Some(nb + 1);
                ensure!(
                    sus[p] == want,
                    "shortest_unique_substrings: text {}: position {} got {:?}, expected {:?} (1 + longest prefix shared with another suffix); sus={}",
                    show(text), p, sus[p], want, show_vec(&sus)
                );
            }
            // (b) pairwise scan, (c) literal definition on short texts
            if n <= 200 {
                let want = sa::sus_by_pairwise(text);
                ensure!(sus == want, "shortest_unique_substrings: text {}: got {}, pairwise brute force says {}", show(text), show_vec(&sus), show_vec(&want));
            }
            if n <= 60 {
                let want = sa::sus_by_definition(text);
                ensure!(sus == want, "shortest_unique_substrings: text {}: got {}, by definition (exactly one occurrence) {}", show(text), show_vec(&sus), show_vec(&want));
            }
        }

        // classes
        let mut distinct = [false; 256];
        for &ch in text {
            distinct[ch as usize] = true;
        }
        let nsym = distinct.iter().filter(|&&x| x).count();
        let repeated = nsym < n;
        let prof = sa::sais_profile(&sa::transformed(text));
        let mut pass = Pass::new(n >= 4 && repeated);
        pass.add_if(!single, "multi-sentinel");
        pass.add_if(single && n >= 2, "single-sentinel (LCP and SUS checked)");
        pass.add_if(facts.sentinels >= 10, "10+ sentinel occurrences");
        pass.add_if(text.windows(2).any(|w| w[0] == text[n - 1] && w[1] == text[n - 1]), "adjacent sentinels");
        pass.add_if(n >= 2 && text[0] == text[n - 1], "text starts with a sentinel");
        pass.add_if(prof.depth >= 1, "recursion taken");
        pass.add_if(prof.depth >= 2, "recursion depth>=2");
        pass.add_if(prof.max_lms > 255, ">255 LMS substrings (u16 reduced text)");
        pass.add_if(nsym + facts.sentinels > 255, ">255 ranks (u16 text path)");
        pass.add_if(single && n >= 2 && max_lcp >= 127, "LCP>=127");
        pass.add_if(single && n >= 2 && max_lcp >= 1 && max_lcp < 127, "0<LCP<127");
        pass.add_if(n == 1, "n=1");
        pass.add_if((2..=20).contains(&n), "n in 2..=20");
        pass.add_if((21..=300).contains(&n), "n in 21..=300");
        pass.add_if(n > 300, "n>300");
        pass.add_if(text[n - 1] == 0, "sentinel 0x00");
        pass.add_if(text[n - 1] != 0 && text[n - 1] != b'$', "sentinel ! or #");
        pass.add_if(distinct[255], "symbol 0xff present");
        Ok(pass)
    }

    pub fn strat(t: Tier) -> BoxedStrategy<Case> {
        textgen::text(&tiers(t)).prop_map(|v| Case { text: B(v) }).boxed()
    }
}

// ---------------------------------------------------------------------------
// integer texts: suffix_array_int over u8 / u16 / u32 / u64 / usize

pub mod ints {
    use super::*;

    #[derive(Serialize, Deserialize, Debug, Clone)]
    pub struct Case {
        /// element type handed to suffix_array_int: 0=u8 1=u16 2=u32 3=u64 4=usize
        pub width: u8,
        /// uses every value of 0..=max, ends in the only 0
        pub text: Vec<u64>,
    }

    pub fn width_name(w: u8) -> &'static str {
        ["u8", "u16", "u32", "u64", "usize"][w as usize]
    }

    fn run(width: u8, t: &[u64]) -> Vec<usize> {
        match width {
            0 => suffix_array_int(&t.iter().map(|&v| v as u8).collect::<Vec<u8>>()),
            1 => suffix_array_int(&t.iter().map(|&v| v as u16).collect::<Vec<u16>>()),
            2 => suffix_array_int(&t.iter().map(|&v| v as u32).collect::<Vec<u32>>()),
            3 => suffix_array_int(&t.iter().map(|&v| v).collect::<Vec<u64>>()),
            _ => suffix_array_int(&t.iter().map(|&v| v as usize).collect::<Vec<usize>>()),
        }
    }

    pub fn in_domain(width: u8, t: &[u64]) -> bool {
        let n = t.len();
        if n == 0 || width > 4 || t[n - 1] != 0 || t[..n - 1].iter().any(|&v| v == 0) {
            return false;
        }
        let max = *t.iter().max().unwrap();
        let limit = match width {
            0 => u8::MAX as u64,
            1 => u16::MAX as u64,
            2 => u32::MAX as u64,
            _ => u64::MAX,
        };
        if max > limit || max as usize >= n {
            return false;
        }
        let mut seen = vec![false; max as usize + 1];
        for &v in t {
            seen[v as usize] = true;
        }
        seen.iter().all(|&x| x)
    }

    pub fn check(c: &Case) -> R {
        let t: &[u64] = &c.text;
        ensure!(in_domain(c.width, t), "harness: integer text {} (width {}) is outside the domain", show_vec(t), c.width);
        let n = t.len();
        let w = width_name(c.width);
        let pos = run(c.width, t);
        ensure!(pos.len() == n, "suffix_array_int::<{}>: text {}: result has length {}, expected {}; sa={}", w, show_vec(t), pos.len(), n, show_vec(&pos));
        let mut seen = vec![false; n];
        for (r, &p) in pos.iter().enumerate() {
            ensure!(p < n && !seen[p], "suffix_array_int::<{}>: text {}: sa[{}]={} is out of range or repeated, not a permutation; sa={}", w, show_vec(t), r, p, show_vec(&pos));
            seen[p] = true;
        }
        // the final 0 is unique, so all suffixes differ and the sorted order is unique
        for r in 1..n {
            ensure!(
                t[pos[r - 1]..] < t[pos[r]..],
                "suffix_array_int::<{}>: text {}: suffix at sa[{}]={} is not smaller than suffix at sa[{}]={}; sa={}",
                w, show_vec(t), r - 1, pos[r - 1], r, pos[r], show_vec(&pos)
            );
        }
        if n <= 64 {
            let mut want: Vec<usize> = (0..n).collect();
            want.sort_by(|&a, &b| t[a..].cmp(&t[b..]));
            ensure!(pos == want, "suffix_array_int::<{}>: text {}: got {}, sorted suffixes are {}", w, show_vec(t), show_vec(&pos), show_vec(&want));
        }
        let max = *t.iter().max().unwrap() as usize;
        let prof = sa::sais_profile(&t.iter().map(|&v| v as usize).collect::<Vec<_>>());
        let mut pass = Pass::new(n >= 4 && max + 1 < n);
        pass.add(["int u8", "int u16", "int u32", "int u64", "int usize"][c.width as usize]);
        pass.add_if(prof.depth >= 1, "recursion taken");
        pass.add_if(prof.depth >= 2, "recursion depth>=2");
        pass.add_if(prof.max_lms > 255, ">255 LMS substrings (u16 reduced text)");
        pass.add_if(max > 255, "max symbol > 255");
        pass.add_if(max + 1 == n && n > 2, "permutation text (all symbols distinct)");
        pass.add_if(n == 1, "n=1");
        pass.add_if(n > 300, "n>300");
        Ok(pass)
    }

    /// rank-compress arbitrary positive values to 1..=max and append the unique 0
    pub fn densify(body: &[u32]) -> Vec<u64> {
        let mut vals: Vec<u32> = body.to_vec();
        vals.sort_unstable();
        vals.dedup();
        let mut t: Vec<u64> = body.iter().map(|v| vals.binary_search(v).unwrap() as u64 + 1).collect();
        t.push(0);
        t
    }

    fn body(l: usize) -> BoxedStrategy<Vec<u32>> {
        use proptest::collection::vec;
        prop_oneof![
            4 => (1u32..=5).prop_flat_map(move |sg| vec(1..=sg, 0..=l)),
            2 => vec((1u32..=4, 1usize..=l.clamp(1, 200)), 1..=5).prop_map(|r| r.into_iter().flat_map(|(c, k)| std::iter::repeat(c).take(k)).collect()),
            2 => (vec(1u32..=4, 1..=6), 0..=l).prop_map(|(unit, len)| unit.iter().cycle().take(len).cloned().collect()),
            2 => (0..=l, any::<bool>(), 0usize..=40).prop_map(|(len, tm, off)| textgen::Body::Morphic { a: 1, b: 2, thue_morse: tm, off: off as u16, len }.materialise().into_iter().map(|v| v as u32).collect()),
            2 => vec(1u32..=300, 0..=l),
            1 => vec(1u32..=100_000, 0..=l),
            1 => (0..=l).prop_flat_map(|len| Just((1..=len as u32).collect::<Vec<u32>>()).prop_shuffle()),
        ]
        .boxed()
    }

    pub fn strat(t: Tier) -> BoxedStrategy<Case> {
        let lens: Vec<(u32, usize)> = match t {
            Tier::Quick => vec![(10, 19), (6, 299), (2, 1500)],
            Tier::Thorough => vec![(10, 19), (6, 299), (3, 3000), (1, 12_000)],
        };
        let texts = proptest::strategy::Union::new_weighted(lens.into_iter().map(|(w, l)| (w, body(l))).collect::<Vec<_>>());
        (texts, 0u8..=4, proptest::collection::vec((any::<u16>(), 1u32..=3), 0..=2))
            .prop_map(|(mut b, width, edits)| {
                for (f, v) in edits {
                    if !b.is_empty() {
                        let i = gen::idx(f, b.len() - 1);
                        b[i] = v;
                    }
                }
                let text = densify(&b);
                let max = *text.iter().max().unwrap();
                // smallest element type that can hold the text, unless a wider one was drawn
                let need = if max <= 255 { 0 } else if max <= 65_535 { 1 } else { 2 };
                Case { width: width.max(need), text }
            })
            .boxed()
    }
}

// ---------------------------------------------------------------------------
// sampled suffix array

pub mod sampled {
    use super::*;

    #[derive(Serialize, Deserialize, Debug, Clone)]
    pub struct Case {
        pub text: B,
        /// symbols added to the alphabet handed to less / Occ
        pub extra: B,
        /// keep a `$` sentinel in that alphabet (other sentinels are always kept)
        pub with_sentinel: bool,
        /// suffix array sampling rate, 1..=n+2
        pub s: u32,
        /// Occ sampling rate, 1..=2n
        pub k: u32,
    }

    pub fn check(c: &Case) -> R {
        let text: &[u8] = &c.text;
        ensure!(sa::in_domain(text), "harness: text {} is outside the domain", show(text));
        let n = text.len();
        ensure!(c.s >= 1 && c.k >= 1 && c.s as usize <= n + 2 && c.k as usize <= 2 * n, "harness: rates s={} k={} outside 1..=n+2 / 1..=2n for n={}", c.s, c.k, n);
        let syms = sa::alphabet_for(text, &c.extra, c.with_sentinel);
        let alphabet = Alphabet::new(&syms);
        let mut arrays = vec![("naive suffix sort", sa::naive_sa(text))];
        // the library's own array is used as well when it is a different valid order; whether it is
        // valid at all is C03/sa-bytes' business, not this sub-check's
        if let Ok(lib) = catch(|| suffix_array(text)) {
            if lib != arrays[0].1 && sa::verify_sa_bytes(text, &lib).is_ok() {
                arrays.push(("suffix_array()", lib));
            }
        }
        for (what, full) in &arrays {
            let b = bwt(text, full);
            let ls = less(&b, &alphabet);
            let occ = Occ::new(&b, c.k, &alphabet);
            let sampled = full.sample(text, &b, &ls, &occ, c.s as usize);
            ensure!(SuffixArray::len(&sampled) == n, "sampled: text {} s={} k={}: len()={} expected {}", show(text), c.s, c.k, SuffixArray::len(&sampled), n);
            for i in 0..n {
                let got = sampled.get(i);
                ensure!(
                    got == Some(full[i]),
                    "sampled: text {} alphabet {} s={} k={} (full array from {}): get({})={:?} but the full array has {}; sa={}",
                    show(text), show(&syms), c.s, c.k, what, i, got, full[i], show_vec(full)
                );
            }
        }
        let sentinels = text.iter().filter(|&&x| x == text[n - 1]).count();
        let mut pass = Pass::new(n >= 4 && c.s > 1);
        pass.add_if(c.s > 1, "sampling s>1");
        pass.add_if(c.s == 1, "s=1");
        pass.add_if(c.s >= 3, "s>=3");
        pass.add_if(c.s as usize > n, "s>n");
        pass.add_if(sentinels > 1, "multi-sentinel");
        pass.add_if(sentinels > 1 && c.s > 1, "multi-sentinel with s>1 (extra rows)");
        pass.add_if(c.k > 64, "k>64");
        pass.add_if(c.k > 64 && (c.k as usize) < n, "k>64 with a second checkpoint");
        pass.add_if(c.k as usize > n, "k>n");
        pass.add_if(!syms.contains(&text[n - 1]), "alphabet without the $ sentinel");
        pass.add_if(arrays.len() > 1, "library array differs from naive order");
        Ok(pass)
    }

    pub fn strat(t: Tier) -> BoxedStrategy<Case> {
        let lens: Vec<(u32, usize)> = match t {
            Tier::Quick => vec![(6, 19), (6, 120), (3, 400)],
            Tier::Thorough => vec![(6, 19), (6, 120), (4, 400), (1, 2500)],
        };
        (textgen::text(&lens), textgen::extra(), any::<bool>(), textgen::sa_rate(), textgen::occ_rate())
            .prop_map(|(text, extra, with_sentinel, s, k)| {
                let n = text.len();
                // long texts: keep n*s*k (walk length times counting cost) bounded
                let (mut s, mut k) = (s.resolve(n, n + 2), k.resolve(n, 2 * n));
                if n > 800 {
                    s = s.min(64);
                    k = k.min(256);
                }
                Case { text: B(text), extra: B(extra), with_sentinel, s, k }
            })
            .boxed()
    }
}

// ---------------------------------------------------------------------------
// bounded exhaustive: every text over {$, a, b} up to a length, plus the final $

pub mod exh {
    use super::*;

    #[derive(Serialize, Deserialize, Debug, Clone)]
    pub struct Case {
        pub text: B,
    }

    pub fn check(c: &Case) -> R {
        let text: &[u8] = &c.text;
        let n = text.len();
        let mut pass = bytes::check(&bytes::Case { text: c.text.clone() })?;
        // sampled array: every s in 1..=n+2, k in {1,2,3,n,2n}, alphabet with and without `$`
        let mut ks = vec![1u32, 2, 3, n as u32, 2 * n as u32];
        ks.retain(|&k| k >= 1 && k as usize <= 2 * n);
        ks.sort_unstable();
        ks.dedup();
        for s in 1..=(n as u32 + 2) {
            for &k in &ks {
                for with_sentinel in [true, false] {
                    sampled::check(&sampled::Case { text: c.text.clone(), extra: B(vec![]), with_sentinel, s, k })?;
                }
            }
        }
        // integer construction on the rank-compressed text (single sentinel only: the integer
        // property is stated for a unique minimum)
        let single = text.iter().filter(|&&x| x == text[n - 1]).count() == 1;
        if single {
            let body: Vec<u32> = text[..n - 1].iter().map(|&x| x as u32).collect();
            let t = ints::densify(&body);
            for width in 0..=4u8 {
                ints::check(&ints::Case { width, text: t.clone() })?;
            }
            pass.add("integer variants checked");
        }
        pass.add("sampled: all s in 1..=n+2");
        Ok(pass)
    }

    pub fn enumerate(t: Tier) -> Box<dyn Iterator<Item = Case>> {
        let max_len = match t {
            Tier::Quick => 8,
            Tier::Thorough => 10,
        };
        let syms = [b'$', b'a', b'b'];
        // enumerate by (length, index in base 3)
        let mut bounds = Vec::new();
        let mut p = 1usize;
        for l in 0..=max_len {
            bounds.push((l, p));
            p *= 3;
        }
        Box::new(bounds.into_iter().flat_map(move |(l, count)| {
            (0..count).map(move |mut code| {
                let mut v = Vec::with_capacity(l + 1);
                for _ in 0..l {
                    v.push(syms[code % 3]);
                    code /= 3;
                }
                v.push(b'$');
                Case { text: B(v) }
            })
        }))
    }
}

pub fn property() -> Property {
    Property {
        id: "C03",
        rule: "random byte texts = body + trailing sentinel ($, !, #, 0x00; body symbols strictly larger; interior sentinel occurrences inserted with probability 0/2/10/40 %), bodies uniform over 1-4 letters, runs, Fibonacci/Thue-Morse factors, periodic, X..X repeats, full byte alphabet, all-symbols permutations; body lengths <=19 / <=299 / <=2999 (thorough: <=20000). Oracle for suffix_array: permutation, sa[0]=n-1, sentinel positions first, and strictly increasing under direct suffix comparison in which each sentinel occurrence is a distinct symbol ranked as in sa[0..#sentinels]. Single-sentinel texts with n>=2: every LCP entry against the directly counted common prefix, -1 borders, get()==decompress(); shortest_unique_substrings against 1+max neighbour prefix (all n), pairwise scan (n<=200) and the literal one-occurrence definition (n<=60). Integer texts (rank-compressed random/structured bodies + unique trailing 0, element types u8/u16/u32/u64/usize): permutation + adjacent slice comparison (+ full sort for n<=64). Sampled array: get(i)==full[i] for all i with s in 1..=n+2, k in 1..=2n, alphabets with extra symbols, full array = naive suffix sort (and the library array when it differs). Exhaustive: every text over {$,a,b} of body length <=8 (thorough 10) + final $, all of the above with every s and k in {1,2,3,n,2n}. Non-trivial = n>=4 and a repeated symbol (sampled: n>=4 and s>1; int: n>=4 and a repeated value); distinct = distinct serialised case.",
        assumptions: &[
            "byte texts are non-empty and end in their smallest symbol; integer texts use every value of 0..=max and end in the only 0",
            "the alphabet handed to less/Occ for the sampled array contains every text symbol; a `$` sentinel may be left out when a larger symbol is present (Occ::new adds it)",
            "LCP and shortest unique substrings are only checked for single-sentinel texts of length >= 2, as stated",
        ],
        subs: vec![
            Box::new(PropSub {
                name: "C03/sa-bytes",
                quick: 400_000,
                thorough: 3_200_000,
                shards_quick: 16,
                shards_thorough: 16,
                strat: bytes::strat,
                check: bytes::check,
                must_reach: &["multi-sentinel", "recursion taken", "recursion depth>=2", ">255 ranks (u16 text path)", ">255 LMS substrings (u16 reduced text)", "LCP>=127", "adjacent sentinels"],
                watch: false,
            }),
            Box::new(PropSub {
                name: "C03/sa-int",
                quick: 250_000,
                thorough: 1_800_000,
                shards_quick: 16,
                shards_thorough: 8,
                strat: ints::strat,
                check: ints::check,
                must_reach: &["int u8", "int u16", "int u32", "int usize", "recursion taken", "max symbol > 255", ">255 LMS substrings (u16 reduced text)"],
                watch: false,
            }),
            Box::new(PropSub {
                name: "C03/sampled",
                quick: 200_000,
                thorough: 1_600_000,
                shards_quick: 16,
                shards_thorough: 12,
                strat: sampled::strat,
                check: sampled::check,
                must_reach: &["sampling s>1", "multi-sentinel with s>1 (extra rows)", "k>64 with a second checkpoint", "s>n", "alphabet without the $ sentinel"],
                watch: false,
            }),
            Box::new(ExhSub { name: "C03/exhaustive", enumerate: exh::enumerate, check: exh::check, must_reach: &["multi-sentinel", "recursion taken", "integer variants checked"] }),
        ],
    }
}
