use crate::engine::Property;

pub mod c08;

pub fn all() -> Vec<Property> {
    vec![c08::property()]
}
