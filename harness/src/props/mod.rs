use crate::engine::Property;

pub mod c01;
pub mod c02;
pub mod c03;
pub mod c04;
pub mod c05;
pub mod c06;
pub mod c07;
pub mod c08;
pub mod c09;
pub mod c10;
pub mod c11;
pub mod c12;
pub mod c13;
pub mod c14;
pub mod c15;
pub mod c16;
pub mod c17;
pub mod c18;
pub mod c19;
pub mod c20;
pub mod extra;
pub mod extra2;
pub mod extra3;

pub fn all() -> Vec<Property> {
    let mut v = vec![
        c01::property(),
        c02::property(),
        c03::property(),
        c04::property(),
        c05::property(),
        c06::property(),
        c07::property(),
        c08::property(),
        c09::property(),
        c10::property(),
        c11::property(),
        c12::property(),
        c13::property(),
        c14::property(),
        c15::property(),
        c16::property(),
        c17::property(),
        c18::property(),
        c19::property(),
        c20::property(),
    ];
    extra::extend(&mut v);
    extra2::extend(&mut v);
    extra3::extend(&mut v);
    v
}
