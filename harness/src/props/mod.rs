use crate::engine::Property;

pub mod c01;
pub mod c02;
pub mod c08;
pub mod c09;
pub mod c10;
pub mod c14;
pub mod c15;
pub mod c16;
pub mod c20;

pub fn all() -> Vec<Property> {
    vec![c01::property(), c02::property(), c08::property(), c09::property(), c10::property(), c14::property(), c15::property(), c16::property(), c20::property()]
}
