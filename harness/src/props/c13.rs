//! C13 — BED and GFF/GTF records survive write-read without loss; comment lines are
//! skipped; malformed lines are errors for that record (no panic, no silent coercion).
//!
//! Sub-checks (DESIGN.md section 4, C13):
//!   bed-roundtrip / gff-roundtrip   writer -> (comment lines interleaved) -> reader, field for field
//!   bed-inject / gff-inject         one line of a written file replaced by a malformed one
//!   bed-corrupt / gff-corrupt       byte edits and truncation (optionally every prefix) of a written file
//!
//! The oracle of the last four is an independent strict line parser (`strict` module):
//! split on '\n', skip empty and '#' lines, split on tab, `str::parse::<u64>`.

use crate::engine::gen::idx;
use crate::engine::*;
use crate::{ensure, fail};
use proptest::collection::vec as pvec;
use proptest::prelude::*;
use proptest::sample::select;
use serde::{Deserialize, Serialize};

// ---------------------------------------------------------------------------
// shared pieces

/// A comment line `#<text>` inserted before line `idx(at, current number of lines)`.
#[derive(Serialize, Deserialize, Debug, Clone)]
pub struct Comment {
    pub at: u16,
    pub text: String,
}

#[derive(Serialize, Deserialize, Debug, Clone)]
pub enum Edit {
    Rep(u16, u8),
    Ins(u16, u8),
    Del(u16),
}

#[derive(Serialize, Deserialize, Debug, Clone, Copy, PartialEq, Eq)]
pub enum NumKind {
    NonNumeric,
    Negative,
    Decimal,
    Empty,
    Overflow,
    Padded,
}

/// One malformation applied to one written line (columns counted from 0).
#[derive(Serialize, Deserialize, Debug, Clone)]
pub enum Inj {
    /// the start (or end) coordinate column replaced by `text`, which is not a u64 literal
    Num { end: bool, kind: NumKind, text: String },
    /// column `idx(frac, ncols-1)` removed
    DropCol(u16),
    /// column `text` inserted before column `idx(at, ncols)`; on every data line if `every_line`
    AddCol { at: u16, text: String, every_line: bool },
    /// GFF only: the phase column replaced by `text`, which is none of ". 0 1 2"
    Phase(String),
}

/// Open known finding (root cause in csv-core): a '#' line that is the last line of the file and has
/// no line terminator is not skipped; the reader yields one spurious `Err` item for it.
pub const SIG_COMMENT_EOF: &str = "comment-last-line-unterminated";

/// input signature of `SIG_COMMENT_EOF`: the bytes after the last '\n' start with '#'
fn ends_in_unterminated_comment(file: &[u8]) -> bool {
    let tail = match file.iter().rposition(|&b| b == b'\n') {
        Some(p) => &file[p + 1..],
        None => file,
    };
    tail.first() == Some(&b'#')
}

/// item/line alignment of the strict oracle. On damaged files the property does not forbid an
/// extra `Err`, so the spurious item of `SIG_COMMENT_EOF` is tolerated there (never an `Ok`).
fn aligned<T>(file: &[u8], n_lines: usize, items: &[Result<T, String>]) -> bool {
    items.len() == n_lines || (ends_in_unterminated_comment(file) && items.len() == n_lines + 1 && items.last().map(|i| i.is_err()).unwrap_or(false))
}

fn split_lines(out: &[u8]) -> Vec<Vec<u8>> {
    let mut v: Vec<Vec<u8>> = out.split(|&b| b == b'\n').map(|l| l.to_vec()).collect();
    if v.last().map(|l| l.is_empty()).unwrap_or(false) {
        v.pop();
    }
    v
}

/// (line, is_comment) after inserting the comment lines
fn interleave(lines: Vec<Vec<u8>>, comments: &[Comment]) -> Vec<(Vec<u8>, bool)> {
    let mut v: Vec<(Vec<u8>, bool)> = lines.into_iter().map(|l| (l, false)).collect();
    for c in comments {
        let p = idx(c.at, v.len());
        let mut l = vec![b'#'];
        l.extend_from_slice(c.text.as_bytes());
        v.insert(p, (l, true));
    }
    v
}

fn join_lines(lines: &[(Vec<u8>, bool)], final_newline: bool) -> Vec<u8> {
    let mut out = Vec::new();
    for (i, (l, _)) in lines.iter().enumerate() {
        out.extend_from_slice(l);
        if i + 1 < lines.len() || final_newline {
            out.push(b'\n');
        }
    }
    out
}

fn apply_edits(bytes: &mut Vec<u8>, edits: &[Edit]) {
    for e in edits {
        match e {
            Edit::Rep(p, c) => {
                if !bytes.is_empty() {
                    let i = idx(*p, bytes.len() - 1);
                    bytes[i] = *c;
                }
            }
            Edit::Ins(p, c) => {
                let i = idx(*p, bytes.len());
                bytes.insert(i, *c);
            }
            Edit::Del(p) => {
                if !bytes.is_empty() {
                    let i = idx(*p, bytes.len() - 1);
                    bytes.remove(i);
                }
            }
        }
    }
}

fn cols_of(line: &[u8]) -> Vec<Vec<u8>> {
    line.split(|&b| b == b'\t').map(|c| c.to_vec()).collect()
}

fn join_cols(cols: &[Vec<u8>]) -> Vec<u8> {
    cols.join(&b'\t')
}

/// apply a malformation to one line; `start_col` = column index of the start coordinate
fn mutate_line(line: &[u8], inj: &Inj, start_col: usize, phase_col: Option<usize>) -> Result<Vec<u8>, Stop> {
    let mut cols = cols_of(line);
    match inj {
        Inj::Num { end, text, .. } => {
            ensure!(text.parse::<u64>().is_err() && !text.starts_with("0x"), "harness: bad-number literal {:?} is a number", text);
            let c = start_col + *end as usize;
            ensure!(c < cols.len(), "harness: line {:?} has no column {}", lossy(line), c);
            cols[c] = text.as_bytes().to_vec();
        }
        Inj::DropCol(f) => {
            let c = idx(*f, cols.len() - 1);
            cols.remove(c);
        }
        Inj::AddCol { at, text, .. } => {
            let c = idx(*at, cols.len());
            cols.insert(c, text.as_bytes().to_vec());
        }
        Inj::Phase(text) => {
            let Some(pc) = phase_col else { fail!("harness: phase injection into a format without phase") };
            ensure!(!matches!(text.as_str(), "." | "0" | "1" | "2"), "harness: phase literal {:?} is valid", text);
            ensure!(pc < cols.len(), "harness: line {:?} has no phase column", lossy(line));
            cols[pc] = text.as_bytes().to_vec();
        }
    }
    Ok(join_cols(&cols))
}

/// Independent strict model of a tab-separated, '#'-commented file.
pub mod strict {
    pub enum Num {
        Ok(u64),
        Bad,
        /// `0x…`: the csv layer reads hexadecimal integers; whether that is a "bad number" is not
        /// decided by the property, so the harness abstains on such a field
        Unmodelled,
    }

    pub fn num(s: &str) -> Num {
        if s.starts_with("0x") {
            return Num::Unmodelled;
        }
        match s.parse::<u64>() {
            Ok(v) => Num::Ok(v),
            Err(_) => Num::Bad,
        }
    }

    /// the data lines of a file: split on '\n', empty lines and lines starting with '#' skipped
    pub fn data_lines(bytes: &[u8]) -> Vec<&[u8]> {
        bytes.split(|&b| b == b'\n').filter(|l| !l.is_empty() && l[0] != b'#').collect()
    }

    pub fn width(line: &[u8]) -> usize {
        line.iter().filter(|&&b| b == b'\t').count() + 1
    }

    /// quoting and CR handling of the csv layer are not modelled
    pub fn modelled(bytes: &[u8]) -> bool {
        !bytes.iter().any(|&b| b == b'"' || b == b'\r')
    }

    pub enum Parsed<T> {
        Ok(T),
        Malformed(String),
        Unmodelled,
    }

    #[derive(Debug, PartialEq, Eq, Clone)]
    pub struct Bed {
        pub chrom: String,
        pub start: u64,
        pub end: u64,
        pub aux: Vec<String>,
    }

    pub fn bed(line: &[u8]) -> Parsed<Bed> {
        let Ok(s) = std::str::from_utf8(line) else { return Parsed::Malformed("not UTF-8".into()) };
        let cols: Vec<&str> = s.split('\t').collect();
        if cols.len() < 3 {
            return Parsed::Malformed(format!("{} columns, need at least 3", cols.len()));
        }
        let mut unmodelled = false;
        let mut nums = [0u64; 2];
        for i in 0..2 {
            match num(cols[1 + i]) {
                Num::Ok(v) => nums[i] = v,
                Num::Bad => return Parsed::Malformed(format!("column {} {:?} is not a u64", 2 + i, cols[1 + i])),
                Num::Unmodelled => unmodelled = true,
            }
        }
        if unmodelled {
            return Parsed::Unmodelled;
        }
        Parsed::Ok(Bed { chrom: cols[0].to_string(), start: nums[0], end: nums[1], aux: cols[3..].iter().map(|c| c.to_string()).collect() })
    }

    #[derive(Debug, PartialEq, Eq, Clone)]
    pub struct Gff {
        pub seqname: String,
        pub source: String,
        pub feature_type: String,
        pub start: u64,
        pub end: u64,
        pub score: String,
        pub strand: String,
        pub phase: Option<u8>,
        pub raw_attributes: String,
    }

    pub fn gff(line: &[u8]) -> Parsed<Gff> {
        let Ok(s) = std::str::from_utf8(line) else { return Parsed::Malformed("not UTF-8".into()) };
        let cols: Vec<&str> = s.split('\t').collect();
        if cols.len() != 9 {
            return Parsed::Malformed(format!("{} columns, need exactly 9", cols.len()));
        }
        let mut unmodelled = false;
        let mut nums = [0u64; 2];
        for i in 0..2 {
            match num(cols[3 + i]) {
                Num::Ok(v) => nums[i] = v,
                Num::Bad => return Parsed::Malformed(format!("column {} {:?} is not a u64", 4 + i, cols[3 + i])),
                Num::Unmodelled => unmodelled = true,
            }
        }
        let phase = if cols[7] == "." {
            None
        } else {
            match cols[7].parse::<u8>() {
                Ok(p) if p < 3 => Some(p),
                _ => return Parsed::Malformed(format!("phase {:?} is none of . 0 1 2", cols[7])),
            }
        };
        if unmodelled {
            return Parsed::Unmodelled;
        }
        Parsed::Ok(Gff {
            seqname: cols[0].to_string(),
            source: cols[1].to_string(),
            feature_type: cols[2].to_string(),
            start: nums[0],
            end: nums[1],
            score: cols[5].to_string(),
            strand: cols[6].to_string(),
            phase,
            raw_attributes: cols[8].to_string(),
        })
    }
}

/// what the reader did with a file, as seen by the strict oracle
#[derive(Default, Debug)]
struct Outcome {
    /// per data line: did the reader return Ok
    ok: Vec<bool>,
    /// per data line: is the line malformed by itself (strict parser)
    malformed: Vec<bool>,
    widths_differ: bool,
    /// only no-panic/termination was checked (file contains '"' or CR)
    unmodelled_file: bool,
    attrs_compared: usize,
}

// ---------------------------------------------------------------------------
// strategies shared by BED and GFF

fn sel(pool: &'static [&'static str]) -> BS<String> {
    select(pool).prop_map(|s| s.to_string()).boxed()
}

fn chars_of(set: &'static str, lo: usize, hi: usize) -> BS<String> {
    let cs: Vec<char> = set.chars().collect();
    pvec(select(cs), lo..=hi).prop_map(|v| v.into_iter().collect::<String>()).boxed()
}

/// log-uniform over the full u64 range, with the boundary values
fn coord() -> BS<u64> {
    prop_oneof![
        8 => (0u32..=64, any::<u64>()).prop_map(|(bits, r)| if bits == 0 { 0 } else { r >> (64 - bits) }),
        1 => select(vec![0u64, 1, u64::MAX, u64::MAX - 1, u32::MAX as u64, u32::MAX as u64 + 1, i64::MAX as u64, i64::MAX as u64 + 1]),
    ]
    .boxed()
}

const REAL_TEXT: &[&str] = &[
    "chr1", "chrX", "1", "2", "scaffold_12", "name1", "up", "0", "960", "+", "-", ".", "0.5", "255,0,0", "808,52,109,", "0,864,984,", "YLR316C", "P0A7B8", "UniProtKB", "Chain", "gene", "exon", "CDS", "HAVANA", "Initiator methionine",
];
const TRICKY_TEXT: &[&str] = &[
    "", "", " ", "a b", "a,b", "a;b=c", "'q'", "\"", "a\"b", "\"x\"", "\"\"", "#", "#c", "a#b", " lead", "trail ", "\u{e9}", "\u{4e2d}\u{6587}", "0x10", "-1", "1e5", "NaN", "\\", "\\t", "%09", "a=b", "k v;", "x,y,z",
    // words that tabular-format tools treat specially (header / directive / placeholder keywords): a reader
    // must treat them as ordinary column text
    "track", "track_07", "tracker1", "browser", "browserScaffold12", "track name=x", "chrom", "chr", "##gff-version", "##FASTA", "gff-version", ">", ">seq", "@", "NA", "N/A", "null", "None", "nan", "inf", "-inf", "true", "FALSE", "0", "00", "+1", "1.0", "1e3", ".", "..", "*", "?",
];

/// free text of a column; `clean` = no '"' (files handed to the strict oracle)
fn text(clean: bool) -> BS<String> {
    let s = prop_oneof![
        4 => sel(REAL_TEXT),
        3 => sel(TRICKY_TEXT),
        3 => chars_of("abAZ09 _.,;=:'\"#|/\\-+()", 0, 8),
    ];
    if clean {
        s.prop_map(|t| t.replace('"', "q")).boxed()
    } else {
        s.boxed()
    }
}

/// first column: must not start with the comment character
fn first_col(clean: bool) -> BS<String> {
    text(clean).prop_map(|s| if s.starts_with('#') { format!("c{}", s) } else { s }).boxed()
}

fn comment_text(clean: bool) -> BS<String> {
    let s = prop_oneof![
        3 => sel(&["", "#gff-version 3", " this line should be ignored", "#sequence-region chr1 1 1000", "track name=x description=\"y\"", "chr1\t5\t10", "\tcol\t", "1\t2\t3\t4\t5\t6\t7\t8\t9"]),
        2 => chars_of("ab09 \t#;=,.'\"", 0, 10),
    ];
    if clean {
        s.prop_map(|t| t.replace('"', "q")).boxed()
    } else {
        s.boxed()
    }
}

fn comments(clean: bool, max: usize) -> BS<Vec<Comment>> {
    prop_oneof![
        1 => Just(Vec::new()),
        2 => pvec((any::<u16>(), comment_text(clean)).prop_map(|(at, text)| Comment { at, text }), 1..=max),
    ]
    .boxed()
}

fn bad_num() -> BS<(NumKind, String)> {
    prop_oneof![
        3 => sel(&["abc", "x", "12a", "a12", "1 2", "1_000", "1,000", "NaN", "inf", "\u{661}\u{662}", "1;", "++1"]).prop_map(|s| (NumKind::NonNumeric, s)),
        2 => prop_oneof![sel(&["-1", "-0", "-18446744073709551615"]), (1u64..100000).prop_map(|v| format!("-{}", v))].prop_map(|s| (NumKind::Negative, s)),
        2 => prop_oneof![sel(&["1.0", "5.", ".5", "3.14", "1e3", "0.0"]), (0u32..1000, 0u32..100).prop_map(|(a, b)| format!("{}.{}", a, b))].prop_map(|s| (NumKind::Decimal, s)),
        2 => Just((NumKind::Empty, String::new())),
        2 => sel(&["18446744073709551616", "99999999999999999999", "340282366920938463463374607431768211456", "184467440737095516150"]).prop_map(|s| (NumKind::Overflow, s)),
        1 => sel(&[" 5", "5 ", " ", "5\u{a0}"]).prop_map(|s| (NumKind::Padded, s)),
    ]
    .boxed()
}

fn num_kind_label(k: NumKind) -> &'static str {
    match k {
        NumKind::NonNumeric => "injected: non-numeric coordinate",
        NumKind::Negative => "injected: negative coordinate",
        NumKind::Decimal => "injected: decimal coordinate",
        NumKind::Empty => "injected: empty coordinate",
        NumKind::Overflow => "injected: coordinate > u64::MAX",
        NumKind::Padded => "injected: space-padded coordinate",
    }
}

fn inj_common() -> BS<Inj> {
    prop_oneof![
        5 => (any::<bool>(), bad_num()).prop_map(|(end, (kind, text))| Inj::Num { end, kind, text }),
        2 => any::<u16>().prop_map(Inj::DropCol),
        3 => (prop_oneof![2 => Just(u16::MAX), 1 => any::<u16>()], text(true), prop_oneof![3 => Just(false), 1 => Just(true)]).prop_map(|(at, text, every_line)| Inj::AddCol { at, text, every_line }),
    ]
    .boxed()
}

/// replacement bytes for corruption; '"' and CR are rare (for them only no-panic is checked)
fn corrupt_byte() -> BS<u8> {
    prop_oneof![
        6 => select(b"\t\t\t\n\n#0123456789.+-x;=, ".to_vec()),
        2 => select(b"abzAZ_:/?'\\%".to_vec()),
        1 => select(vec![0u8, 1, 0x7f, 0x80, 0xc3, 0xa9, 0xe4, 0xff, 0xef, 0xbb, 0xbf]),
        1 => any::<u8>().prop_map(|b| if b == b'"' || b == b'\r' { b'?' } else { b }),
    ]
    .boxed()
}

fn edit(with_quote_cr: bool) -> BS<Edit> {
    let byte = if with_quote_cr { select(vec![b'"', b'\r']).boxed() } else { corrupt_byte() };
    prop_oneof![
        4 => (any::<u16>(), byte.clone()).prop_map(|(p, c)| Edit::Rep(p, c)),
        2 => (any::<u16>(), byte).prop_map(|(p, c)| Edit::Ins(p, c)),
        2 => any::<u16>().prop_map(Edit::Del),
    ]
    .boxed()
}

fn edits() -> BS<Vec<Edit>> {
    prop_oneof![
        12 => pvec(edit(false), 1..=3),
        3 => Just(Vec::new()),
        1 => (pvec(edit(false), 0..=2), edit(true)).prop_map(|(mut v, q)| { v.push(q); v }),
    ]
    .boxed()
}

#[derive(Serialize, Deserialize, Debug, Clone)]
pub enum Cut {
    /// file kept whole
    None,
    /// truncated to `idx(frac, len)` bytes
    At(u16),
    /// every prefix of the file is checked
    EveryPrefix,
}

/// `w` : 1 = relative weight of single-file cases against every-prefix cases
fn cut(w: u32) -> BS<Cut> {
    prop_oneof![w => Just(Cut::None), w => any::<u16>().prop_map(Cut::At), 1 => Just(Cut::EveryPrefix)].boxed()
}

// ---------------------------------------------------------------------------
// BED

pub mod bed {
    use super::*;
    use bio::io::bed as lib;
    use bio_types::strand::Strand;

    #[derive(Serialize, Deserialize, Debug, Clone)]
    pub struct Rec {
        pub chrom: String,
        pub start: u64,
        pub end: u64,
        pub aux: Vec<String>,
    }

    #[derive(Serialize, Deserialize, Debug, Clone)]
    pub struct RtCase {
        pub recs: Vec<Rec>,
        /// build the records with set_name/set_score for the first two aux columns instead of push_aux
        pub setters: bool,
        pub comments: Vec<Comment>,
        pub final_newline: bool,
    }

    #[derive(Serialize, Deserialize, Debug, Clone)]
    pub struct InjCase {
        pub recs: Vec<Rec>,
        pub comments: Vec<Comment>,
        /// which written line is replaced: `idx(line, n-1)`
        pub line: u16,
        pub inj: Inj,
    }

    #[derive(Serialize, Deserialize, Debug, Clone)]
    pub struct CorruptCase {
        pub recs: Vec<Rec>,
        pub comments: Vec<Comment>,
        pub edits: Vec<Edit>,
        pub cut: Cut,
    }

    fn build(r: &Rec, setters: bool) -> lib::Record {
        // the setters are independent of each other: for every other record they are called in another order
        // (score before name, coordinates last) on a record whose fields already hold other values
        if setters && r.aux.len() >= 2 && r.start % 2 == 1 {
            let mut b = lib::Record::new();
            b.set_name("overwritten");
            b.set_end(7);
            b.set_score("junk");
            b.set_score(&r.aux[1]);
            b.set_name(&r.aux[0]);
            for a in &r.aux[2..] {
                b.push_aux(a);
            }
            b.set_end(r.end);
            b.set_start(r.start);
            b.set_chrom(&r.chrom);
            return b;
        }
        // a record with an empty name and a score can be built by setting the score alone (set_score fills the name
        // column with "")
        if setters && r.aux.len() >= 2 && r.aux[0].is_empty() && r.start % 2 == 0 {
            let mut b = lib::Record::new();
            b.set_chrom(&r.chrom);
            b.set_start(r.start);
            b.set_end(r.end);
            b.set_score(&r.aux[1]);
            for a in &r.aux[2..] {
                b.push_aux(a);
            }
            return b;
        }
        let mut b = lib::Record::new();
        b.set_chrom(&r.chrom);
        b.set_start(r.start);
        b.set_end(r.end);
        for (i, a) in r.aux.iter().enumerate() {
            if setters && i == 0 {
                b.set_name(a);
            } else if setters && i == 1 {
                b.set_score(a);
            } else {
                b.push_aux(a);
            }
        }
        b
    }

    fn write(recs: &[Rec], setters: bool) -> Result<Vec<u8>, Stop> {
        let mut buf = Vec::new();
        {
            let mut w = lib::Writer::new(&mut buf);
            for r in recs {
                if let Err(e) = w.write(&build(r, setters)) {
                    fail!("BED writer refused record {:?}: {}", r, e);
                }
            }
        }
        Ok(buf)
    }

    fn aux_of(r: &lib::Record) -> Vec<String> {
        let mut v = Vec::new();
        let mut i = 3;
        while let Some(a) = r.aux(i) {
            v.push(a.to_string());
            i += 1;
            if i > 100_000 {
                break;
            }
        }
        v
    }

    fn read(bytes: &[u8]) -> Result<Vec<Result<lib::Record, String>>, Stop> {
        let cap = bytes.len() + 8;
        let mut rdr = lib::Reader::new(bytes);
        let mut out = Vec::new();
        for r in rdr.records() {
            if out.len() >= cap {
                fail!("BED reader does not terminate: more than {} items for a file of {} bytes: {:?}", cap, bytes.len(), lossy(bytes));
            }
            out.push(r.map_err(|e| e.to_string()));
        }
        // the same reader driven with a NEW records() iterator for every item (`while let Some(r) =
        // reader.records().next()`) reads the same items: what a line is judged against belongs to the reader
        let mut rdr = lib::Reader::new(bytes);
        let mut k = 0usize;
        loop {
            let item = rdr.records().next();
            let Some(item) = item else {
                ensure!(k == out.len(), "BED reader over {:?}: one records() iterator yields {} items, a new records() iterator per item ends after {}", lossy(bytes), out.len(), k);
                break;
            };
            ensure!(k < out.len(), "BED reader over {:?}: one records() iterator yields {} items, a new records() iterator per item yields more", lossy(bytes), out.len());
            match (&out[k], &item) {
                (Ok(a), Ok(b)) => ensure!(a == b, "BED reader over {:?}: item {} is {:?} with one records() iterator but {:?} with a new iterator per item", lossy(bytes), k, a, b),
                (Err(_), Err(_)) => {}
                (a, b) => fail!("BED reader over {:?}: item {} is {} with one records() iterator but {} with a new records() iterator per item", lossy(bytes), k, if a.is_ok() { "Ok" } else { "an error" }, if b.is_ok() { "Ok" } else { "an error" }),
            }
            k += 1;
        }
        Ok(out)
    }

    pub fn check_rt(c: &RtCase) -> R {
        ensure!(!c.recs.is_empty(), "harness: no records");
        let k = c.recs[0].aux.len();
        ensure!(c.recs.iter().all(|r| r.aux.len() == k), "harness: records with different numbers of aux columns");
        let written = write(&c.recs, c.setters)?;
        let lines = split_lines(&written);
        ensure!(lines.len() == c.recs.len(), "BED writer produced {} lines for {} records without newlines in any field: {:?}", lines.len(), c.recs.len(), lossy(&written));
        let file = join_lines(&interleave(lines, &c.comments), c.final_newline);
        if ends_in_unterminated_comment(&file) && known::is_open(SIG_COMMENT_EOF) {
            return Err(Stop::Skip(SIG_COMMENT_EOF));
        }
        let items = read(&file)?;
        ensure!(items.len() == c.recs.len(), "BED file {:?} written from {} records (plus {} comment lines) reads back as {} items", lossy(&file), c.recs.len(), c.comments.len(), items.len());
        for (i, (it, exp)) in items.iter().zip(&c.recs).enumerate() {
            let got = match it {
                Ok(r) => r,
                Err(e) => fail!("BED file {:?}: record {} ({:?}) reads back as error: {}", lossy(&file), i, exp, e),
            };
            let gaux = aux_of(got);
            ensure!(
                got.chrom() == exp.chrom && got.start() == exp.start && got.end() == exp.end && gaux == exp.aux,
                "BED file {:?}: record {} written as {:?} reads back as chrom={:?} start={} end={} aux={:?}",
                lossy(&file),
                i,
                exp,
                got.chrom(),
                got.start(),
                got.end(),
                gaux
            );
            ensure!(*got == build(exp, c.setters), "BED file {:?}: record {} differs from the written record object: got {:?}, written {:?}", lossy(&file), i, got, build(exp, false));
            // accessors are views of the aux columns
            ensure!(got.name() == exp.aux.first().map(|s| s.as_str()), "BED record {:?}: name() = {:?}", exp, got.name());
            ensure!(got.score() == exp.aux.get(1).map(|s| s.as_str()), "BED record {:?}: score() = {:?}", exp, got.score());
            let st = match exp.aux.get(2).map(|s| s.as_str()) {
                Some("+") => Some(Strand::Forward),
                Some("-") => Some(Strand::Reverse),
                _ => None,
            };
            ensure!(got.strand() == st, "BED record {:?}: strand() = {:?}, expected {:?}", exp, got.strand(), st);
        }
        // a record that came out of the reader, edited through its setters and written again
        if let Some(Ok(first)) = items.first() {
            let mut m = first.clone();
            m.set_start(first.start().wrapping_add(1));
            m.set_chrom("edited");
            if k >= 1 {
                m.set_name("renamed");
            }
            let mut buf = Vec::new();
            {
                let mut w = lib::Writer::new(&mut buf);
                if let Err(e) = w.write(&m) {
                    fail!("BED writer refused a record obtained from the reader and edited through its setters: {}", e);
                }
            }
            let again = read(&buf)?;
            ensure!(again.len() == 1 && again[0].is_ok(), "a BED record read from {:?}, edited and written again as {:?} reads back as {} items", lossy(&file), lossy(&buf), again.len());
            let back = again[0].as_ref().unwrap();
            let mut want_aux = aux_of(first);
            if k >= 1 {
                want_aux[0] = "renamed".to_string();
            }
            ensure!(back.chrom() == "edited" && back.start() == m.start() && back.end() == first.end() && aux_of(back) == want_aux, "a BED record read from {:?}, then given chrom \"edited\", start+1{}, was written as {:?} and reads back as chrom={:?} start={} end={} aux={:?}", lossy(&file), if k >= 1 { " and the name \"renamed\"" } else { "" }, lossy(&buf), back.chrom(), back.start(), back.end(), aux_of(back));
        }
        let any = |f: &dyn Fn(&str) -> bool| c.recs.iter().any(|r| f(&r.chrom) || r.aux.iter().any(|a| f(a)));
        let mut p = Pass::new(k >= 2);
        p.add_if(k == 0, "k=0");
        p.add_if(k == 1, "k=1");
        p.add_if(k >= 2, "k>=2");
        p.add_if(k == 9, "k=9");
        p.add_if(c.recs.len() >= 2, ">=2 records");
        p.add_if(!c.comments.is_empty(), "comment lines");
        p.add_if(any(&|s| s.is_empty()), "empty column");
        p.add_if(any(&|s| s.contains('"')), "column with double quote (csv-quoted)");
        p.add_if(any(&|s| s.contains(' ')), "column with space");
        p.add_if(any(&|s| !s.is_ascii()), "non-ASCII column");
        p.add_if(c.recs.iter().any(|r| r.start > i64::MAX as u64 || r.end > i64::MAX as u64), "coordinate > i64::MAX");
        p.add_if(c.recs.iter().any(|r| r.start > r.end), "start > end");
        p.add_if(c.recs.iter().any(|r| matches!(r.aux.get(2).map(|s| s.as_str()), Some("+") | Some("-"))), "strand column +/-");
        p.add_if(!c.final_newline, "no final newline");
        p.add_if(c.setters, "built with set_name/set_score");
        Ok(p)
    }

    /// strict oracle on an arbitrary byte file (DESIGN (i), (ii), (iv))
    pub fn oracle(file: &[u8]) -> Result<Outcome, Stop> {
        let items = read(file)?;
        let mut o = Outcome::default();
        if !strict::modelled(file) {
            o.unmodelled_file = true;
            return Ok(o);
        }
        let lines = strict::data_lines(file);
        ensure!(aligned(file, lines.len(), &items), "BED file {:?} has {} data lines but the reader yields {} items: {:?}", lossy(file), lines.len(), items.len(), items);
        for (i, (line, it)) in lines.iter().zip(&items).enumerate() {
            let sp = strict::bed(line);
            o.malformed.push(matches!(sp, strict::Parsed::Malformed(_)));
            o.ok.push(it.is_ok());
            if let Ok(got) = it {
                match sp {
                    strict::Parsed::Unmodelled => {}
                    strict::Parsed::Malformed(why) => fail!(
                        "BED file {:?}: data line {} {:?} is malformed ({}) but is read as Ok: chrom={:?} start={} end={} aux={:?}",
                        lossy(file),
                        i,
                        lossy(line),
                        why,
                        got.chrom(),
                        got.start(),
                        got.end(),
                        aux_of(got)
                    ),
                    strict::Parsed::Ok(exp) => {
                        let g = strict::Bed { chrom: got.chrom().to_string(), start: got.start(), end: got.end(), aux: aux_of(got) };
                        ensure!(g == exp, "BED file {:?}: data line {} {:?} is read as {:?}, its own strict parse is {:?}", lossy(file), i, lossy(line), g, exp);
                    }
                }
            }
        }
        o.widths_differ = lines.windows(2).any(|w| strict::width(w[0]) != strict::width(w[1]));
        if o.widths_differ {
            ensure!(o.ok.iter().any(|ok| !ok), "BED file {:?} has data lines of different widths but every record is read as Ok", lossy(file));
        }
        Ok(o)
    }

    pub fn check_inj(c: &InjCase) -> R {
        ensure!(!c.recs.is_empty(), "harness: no records");
        let written = write(&c.recs, false)?;
        let mut lines = split_lines(&written);
        ensure!(lines.len() == c.recs.len(), "BED writer produced {} lines for {} records: {:?}", lines.len(), c.recs.len(), lossy(&written));
        let li = idx(c.line, lines.len() - 1);
        let every = matches!(c.inj, Inj::AddCol { every_line: true, .. });
        for (i, l) in lines.iter_mut().enumerate() {
            if i == li || every {
                *l = mutate_line(l, &c.inj, 1, None)?;
            }
        }
        let injected = lines[li].clone();
        let all = interleave(lines, &c.comments);
        // data-line index of the injected line (comment lines and an emptied line do not count)
        let file = join_lines(&all, true);
        let o = oracle(&file)?;
        let self_malformed = matches!(strict::bed(&injected), strict::Parsed::Malformed(_));
        let mut p = Pass::new(!o.ok.is_empty());
        match &c.inj {
            Inj::Num { kind, .. } => p.add(num_kind_label(*kind)),
            Inj::DropCol(_) => p.add("injected: dropped column"),
            Inj::AddCol { every_line, .. } => p.add(if *every_line { "injected: added column on every line" } else { "injected: added column" }),
            Inj::Phase(_) => fail!("harness: phase injection into BED"),
        }
        p.add_if(self_malformed, "injected line malformed by itself (must be Err)");
        p.add_if(!injected.is_empty() && injected[0] != b'#' && strict::width(&injected) < 3, "injected line has < 3 columns");
        p.add_if(!self_malformed && o.widths_differ, "injected line well-formed, widths differ (some Err demanded)");
        p.add_if(!self_malformed && !o.widths_differ, "injected line well-formed, uniform widths");
        p.add_if(li == 0, "injection on first line");
        p.add_if(li > 0, "injection on a later line");
        p.add_if(o.ok.iter().any(|&k| k), "some record still Ok");
        p.add_if(!c.comments.is_empty(), "comment lines");
        p.add_if(c.recs[0].aux.is_empty(), "k=0");
        p.add_if(c.recs[0].aux.len() >= 2, "k>=2");
        Ok(p)
    }

    pub fn check_corrupt(c: &CorruptCase) -> R {
        ensure!(!c.recs.is_empty(), "harness: no records");
        let written = write(&c.recs, false)?;
        let lines = split_lines(&written);
        let base = join_lines(&interleave(lines, &c.comments), true);
        let mut file = base.clone();
        apply_edits(&mut file, &c.edits);
        let mut p = Pass::new(false);
        let mut note = |p: &mut Pass, o: &Outcome| {
            p.add_if(o.unmodelled_file, "quote/CR byte: only no-panic and termination checked");
            p.add_if(o.malformed.iter().any(|&m| m), "a malformed data line (read as Err)");
            p.add_if(o.ok.iter().any(|&k| k) && o.ok.iter().any(|&k| !k), "Ok and Err records in one file");
            p.add_if(o.widths_differ, "data lines of different widths");
            p.add_if(!o.ok.is_empty() && o.ok.iter().all(|&k| k), "all records Ok");
        };
        match c.cut {
            Cut::None => {
                let o = oracle(&file)?;
                note(&mut p, &o);
                p.nontrivial = file != base && !o.ok.is_empty();
            }
            Cut::At(f) => {
                file.truncate(idx(f, file.len()));
                let o = oracle(&file)?;
                note(&mut p, &o);
                p.add("truncated");
                p.add_if(!file.is_empty() && *file.last().unwrap() != b'\n', "truncated inside a line");
                p.nontrivial = !o.ok.is_empty();
            }
            Cut::EveryPrefix => {
                for n in 0..=file.len() {
                    let o = oracle(&file[..n])?;
                    note(&mut p, &o);
                }
                p.add("every prefix of the file");
                p.nontrivial = !file.is_empty();
            }
        }
        p.add_if(c.edits.is_empty(), "no byte edit");
        p.add_if(!c.edits.is_empty(), "byte edits");
        p.add_if(file.iter().any(|&b| b >= 0x80) && std::str::from_utf8(&file).is_err(), "invalid UTF-8");
        p.add_if(!c.comments.is_empty(), "comment lines");
        Ok(p)
    }

    // ---- strategies

    fn rec(k: usize, clean: bool) -> BS<Rec> {
        (first_col(clean), coord(), coord(), any::<bool>(), pvec(text(clean), k))
            .prop_map(|(chrom, a, b, ordered, aux)| {
                let (start, end) = if ordered && a > b { (b, a) } else { (a, b) };
                Rec { chrom, start, end, aux }
            })
            .boxed()
    }

    fn recs(clean: bool, max: usize) -> BS<Vec<Rec>> {
        prop_oneof![2 => Just(0usize), 2 => Just(1usize), 2 => Just(2usize), 1 => Just(3usize), 5 => 3usize..=9, 1 => Just(9usize)]
            .prop_flat_map(move |k| pvec(rec(k, clean), 1..=max))
            .boxed()
    }

    pub fn strat_rt(_t: Tier) -> BS<RtCase> {
        (recs(false, 8), any::<bool>(), comments(false, 3), prop_oneof![4 => Just(true), 1 => Just(false)])
            .prop_map(|(recs, setters, comments, final_newline)| RtCase { recs, setters, comments, final_newline })
            .boxed()
    }

    pub fn strat_inj(_t: Tier) -> BS<InjCase> {
        (recs(true, 5), comments(true, 2), prop_oneof![1 => Just(0u16), 2 => any::<u16>()], inj_common())
            .prop_map(|(recs, comments, line, inj)| InjCase { recs, comments, line, inj })
            .boxed()
    }

    pub fn strat_corrupt(_t: Tier) -> BS<CorruptCase> {
        (recs(true, 4), comments(true, 2), edits(), cut(4)).prop_map(|(recs, comments, edits, cut)| CorruptCase { recs, comments, edits, cut }).boxed()
    }
}

// ---------------------------------------------------------------------------
// GFF3 / GFF2 / GTF2

pub mod gff {
    use super::*;
    use bio::io::gff as lib;
    use bio_types::strand::Strand;
    use std::convert::TryInto;

    #[derive(Serialize, Deserialize, Debug, Clone, Copy, PartialEq, Eq)]
    pub enum Dialect {
        GFF3,
        GFF2,
        GTF2,
    }

    impl Dialect {
        fn lib(self) -> lib::GffType {
            match self {
                Dialect::GFF3 => lib::GffType::GFF3,
                Dialect::GFF2 => lib::GffType::GFF2,
                Dialect::GTF2 => lib::GffType::GTF2,
            }
        }
        /// (key/value delimiter, pair terminator, value delimiter) as documented on `GffType`
        fn delims(self) -> (char, char, char) {
            match self {
                Dialect::GFF3 => ('=', ';', ','),
                _ => (' ', ';', '\0'),
            }
        }
    }

    #[derive(Serialize, Deserialize, Debug, Clone)]
    pub struct Rec {
        pub seqname: String,
        pub source: String,
        pub feature_type: String,
        pub start: u64,
        pub end: u64,
        pub score: String,
        pub strand: String,
        pub phase: Option<u8>,
        /// distinct keys, each with its ordered, non-empty value list
        pub attrs: Vec<(String, Vec<String>)>,
    }

    #[derive(Serialize, Deserialize, Debug, Clone)]
    pub struct RtCase {
        pub dialect: Dialect,
        pub recs: Vec<Rec>,
        pub comments: Vec<Comment>,
        pub final_newline: bool,
    }

    #[derive(Serialize, Deserialize, Debug, Clone)]
    pub struct InjCase {
        pub dialect: Dialect,
        pub recs: Vec<Rec>,
        pub comments: Vec<Comment>,
        pub line: u16,
        pub inj: Inj,
    }

    #[derive(Serialize, Deserialize, Debug, Clone)]
    pub struct CorruptCase {
        pub dialect: Dialect,
        pub recs: Vec<Rec>,
        pub comments: Vec<Comment>,
        pub edits: Vec<Edit>,
        pub cut: Cut,
    }

    /// the generator's domain, re-checked on every case (replays may be hand-written)
    fn in_domain(d: Dialect, r: &Rec) -> Result<(), Stop> {
        let (kv, term, vd) = d.delims();
        ensure!(!r.seqname.starts_with('#'), "harness: seqname {:?} starts with the comment character", r.seqname);
        for s in [&r.seqname, &r.source, &r.feature_type, &r.score, &r.strand] {
            ensure!(!s.contains(['\t', '\n', '\r']), "harness: column {:?} contains tab/newline", s);
        }
        ensure!(r.phase.map(|p| p < 3).unwrap_or(true), "harness: phase {:?}", r.phase);
        let mut keys = std::collections::BTreeSet::new();
        for (k, vs) in &r.attrs {
            ensure!(keys.insert(k), "harness: duplicate key {:?}", k);
            ensure!(!k.is_empty() && k.chars().all(|c| c.is_ascii_alphanumeric() || c == '_'), "harness: key {:?} outside [A-Za-z0-9_]+", k);
            ensure!(!vs.is_empty(), "harness: key {:?} without value", k);
            for v in vs {
                // an empty string is a legal member of a list of two or more values; alone it is no value at all
                ensure!(!v.is_empty() || (vs.len() >= 2 && d == Dialect::GFF3), "harness: empty value for key {:?} outside a GFF3 value list", k);
                ensure!(!v.contains([kv, term, vd, '\t', '\n', '\r', '\0']), "harness: value {:?} contains a delimiter of {:?}", v, d);
                if v.is_empty() {
                    continue;
                }
                let (f, l) = (v.chars().next().unwrap(), v.chars().last().unwrap());
                ensure!(!matches!(f, '\'' | '"' | ' ') && !matches!(l, '\'' | '"' | ' '), "harness: value {:?} starts/ends with a quote or space", v);
            }
        }
        Ok(())
    }

    fn build(r: &Rec, with_attrs: bool) -> lib::Record {
        let mut g = lib::Record::new();
        *g.seqname_mut() = r.seqname.clone();
        *g.source_mut() = r.source.clone();
        *g.feature_type_mut() = r.feature_type.clone();
        *g.start_mut() = r.start;
        *g.end_mut() = r.end;
        *g.score_mut() = r.score.clone();
        *g.strand_mut() = r.strand.clone();
        *g.phase_mut() = lib::Phase::from(r.phase);
        if with_attrs {
            for (k, vs) in &r.attrs {
                for v in vs {
                    g.attributes_mut().insert(k.clone(), v.clone());
                }
            }
        }
        g
    }

    fn write(d: Dialect, recs: &[Rec], with_attrs: bool) -> Result<Vec<u8>, Stop> {
        let mut buf = Vec::new();
        {
            let mut w = lib::Writer::new(&mut buf, d.lib());
            for r in recs {
                if let Err(e) = w.write(&build(r, with_attrs)) {
                    fail!("GFF writer refused record {:?}: {}", r, e);
                }
            }
        }
        Ok(buf)
    }

    fn read(d: Dialect, bytes: &[u8]) -> Result<Vec<Result<lib::Record, String>>, Stop> {
        let cap = bytes.len() + 8;
        let mut rdr = lib::Reader::new(bytes, d.lib());
        let mut out = Vec::new();
        for r in rdr.records() {
            if out.len() >= cap {
                fail!("GFF reader does not terminate: more than {} items for a file of {} bytes: {:?}", cap, bytes.len(), lossy(bytes));
            }
            out.push(r.map_err(|e| e.to_string()));
        }
        // the same reader driven with a NEW records() iterator for every item (`while let Some(r) =
        // reader.records().next()`) reads the same items: what a line is judged against belongs to the reader
        let mut rdr = lib::Reader::new(bytes, d.lib());
        let mut k = 0usize;
        loop {
            let item = rdr.records().next();
            let Some(item) = item else {
                ensure!(k == out.len(), "GFF reader over {:?}: one records() iterator yields {} items, a new records() iterator per item ends after {}", lossy(bytes), out.len(), k);
                break;
            };
            ensure!(k < out.len(), "GFF reader over {:?}: one records() iterator yields {} items, a new records() iterator per item yields more", lossy(bytes), out.len());
            match (&out[k], &item) {
                (Ok(a), Ok(b)) => ensure!(a == b, "GFF reader over {:?}: item {} is {:?} with one records() iterator but {:?} with a new iterator per item", lossy(bytes), k, a, b),
                (Err(_), Err(_)) => {}
                (a, b) => fail!("GFF reader over {:?}: item {} is {} with one records() iterator but {} with a new records() iterator per item", lossy(bytes), k, if a.is_ok() { "Ok" } else { "an error" }, if b.is_ok() { "Ok" } else { "an error" }),
            }
            k += 1;
        }
        Ok(out)
    }

    fn phase_of(r: &lib::Record) -> Option<u8> {
        let p: Result<Option<u8>, ()> = r.phase().clone().try_into();
        p.unwrap()
    }

    /// the attribute multimap as sorted (key, ordered values)
    fn attrs_of(r: &lib::Record) -> Vec<(String, Vec<String>)> {
        let mut v: Vec<(String, Vec<String>)> = r.attributes().iter_all().map(|(k, vs)| (k.clone(), vs.clone())).collect();
        v.sort();
        v
    }

    fn sorted(a: &[(String, Vec<String>)]) -> Vec<(String, Vec<String>)> {
        let mut v = a.to_vec();
        v.sort();
        v
    }

    fn fixed_of(r: &lib::Record) -> strict::Gff {
        let mut m = r.clone();
        strict::Gff {
            seqname: r.seqname().to_string(),
            source: r.source().to_string(),
            feature_type: r.feature_type().to_string(),
            start: *r.start(),
            end: *r.end(),
            score: m.score_mut().clone(),
            strand: m.strand_mut().clone(),
            phase: phase_of(r),
            raw_attributes: String::new(),
        }
    }

    fn fixed_exp(r: &Rec) -> strict::Gff {
        strict::Gff {
            seqname: r.seqname.clone(),
            source: r.source.clone(),
            feature_type: r.feature_type.clone(),
            start: r.start,
            end: r.end,
            score: r.score.clone(),
            strand: r.strand.clone(),
            phase: r.phase,
            raw_attributes: String::new(),
        }
    }

    pub fn check_rt(c: &RtCase) -> R {
        ensure!(!c.recs.is_empty(), "harness: no records");
        for r in &c.recs {
            in_domain(c.dialect, r)?;
        }
        let written = write(c.dialect, &c.recs, true)?;
        let lines = split_lines(&written);
        ensure!(lines.len() == c.recs.len(), "{:?} writer produced {} lines for {} records without newlines in any field: {:?}", c.dialect, lines.len(), c.recs.len(), lossy(&written));
        let file = join_lines(&interleave(lines, &c.comments), c.final_newline);
        if ends_in_unterminated_comment(&file) && known::is_open(SIG_COMMENT_EOF) {
            return Err(Stop::Skip(SIG_COMMENT_EOF));
        }
        let items = read(c.dialect, &file)?;
        ensure!(items.len() == c.recs.len(), "{:?} file {:?} written from {} records (plus {} comment lines) reads back as {} items", c.dialect, lossy(&file), c.recs.len(), c.comments.len(), items.len());
        for (i, (it, exp)) in items.iter().zip(&c.recs).enumerate() {
            let got = match it {
                Ok(r) => r,
                Err(e) => fail!("{:?} file {:?}: record {} ({:?}) reads back as error: {}", c.dialect, lossy(&file), i, exp, e),
            };
            let (gf, ef) = (fixed_of(got), fixed_exp(exp));
            ensure!(gf == ef, "{:?} file {:?}: record {} written as {:?} reads back as {:?}", c.dialect, lossy(&file), i, ef, gf);
            let (ga, ea) = (attrs_of(got), sorted(&exp.attrs));
            ensure!(ga == ea, "{:?} file {:?}: record {}: attributes written {:?}, read back {:?}", c.dialect, lossy(&file), i, ea, ga);
            ensure!(*got == build(exp, true), "{:?} file {:?}: record {} differs from the written record object: got {:?}", c.dialect, lossy(&file), i, got);
            // accessors
            let sc = if exp.score == "." { None } else { exp.score.parse::<u64>().ok() };
            ensure!(got.score() == sc, "GFF record {:?}: score() = {:?}, expected {:?}", exp, got.score(), sc);
            let st = match exp.strand.as_str() {
                "+" => Some(Strand::Forward),
                "-" => Some(Strand::Reverse),
                _ => None,
            };
            ensure!(got.strand() == st, "GFF record {:?}: strand() = {:?}, expected {:?}", exp, got.strand(), st);
            for (k, vs) in &exp.attrs {
                ensure!(got.attributes().get(k.as_str()) == vs.first(), "GFF record {:?}: attributes().get({:?}) = {:?}", exp, k, got.attributes().get(k.as_str()));
            }
        }
        // a record that came out of the reader is an ordinary record: changed through its setters and written
        // again (same dialect), it reads back with the changes
        if let Some(Ok(first)) = items.first() {
            let mut m = first.clone();
            m.attributes_mut().insert("zz_added".to_string(), "v1".to_string());
            m.attributes_mut().insert("zz_added".to_string(), "v2".to_string());
            *m.start_mut() = first.start().wrapping_add(1);
            *m.source_mut() = "edited".to_string();
            let mut buf = Vec::new();
            {
                let mut w = lib::Writer::new(&mut buf, c.dialect.lib());
                if let Err(e) = w.write(&m) {
                    fail!("{:?} writer refused a record obtained from the reader and edited through its setters: {}", c.dialect, e);
                }
            }
            let again = read(c.dialect, &buf)?;
            ensure!(again.len() == 1 && again[0].is_ok(), "{:?}: a record read from {:?}, edited and written again as {:?} reads back as {} items", c.dialect, lossy(&file), lossy(&buf), again.len());
            let back = again[0].as_ref().unwrap();
            let mut want = attrs_of(first);
            want.push(("zz_added".to_string(), vec!["v1".to_string(), "v2".to_string()]));
            want.sort();
            ensure!(attrs_of(back) == want && *back.start() == *m.start() && back.source() == "edited", "{:?}: a record read from {:?}, then given the attribute zz_added=[v1,v2], start+1 and source \"edited\", was written as {:?} and reads back with attributes {:?} start {} source {:?}; expected attributes {:?}", c.dialect, lossy(&file), lossy(&buf), attrs_of(back), back.start(), back.source(), want);
        }
        let multi = c.recs.iter().any(|r| r.attrs.iter().any(|(_, v)| v.len() >= 2));
        let mut p = Pass::new(multi);
        p.add(match c.dialect {
            Dialect::GFF3 => "dialect GFF3",
            Dialect::GFF2 => "dialect GFF2",
            Dialect::GTF2 => "dialect GTF2",
        });
        p.add_if(multi, "multi-valued attribute");
        p.add_if(c.recs.iter().any(|r| r.attrs.iter().any(|(_, v)| v.len() >= 3)), "attribute with 3 values");
        p.add_if(c.recs.iter().any(|r| r.attrs.iter().any(|(_, v)| v.len() >= 2 && v.last().map_or(false, |x| x.is_empty()))), "multi-valued attribute whose last value is empty");
        p.add_if(c.recs.iter().any(|r| r.attrs.iter().any(|(_, v)| v.len() >= 2 && v[..v.len() - 1].iter().any(|x| x.is_empty()))), "multi-valued attribute with an empty value before the last");
        p.add_if(c.recs.iter().any(|r| r.attrs.iter().any(|(_, v)| v.len() >= 2 && v.iter().all(|x| x.is_empty()))), "multi-valued attribute, all values empty");
        p.add_if(c.recs.iter().any(|r| r.attrs.is_empty()), "record without attributes");
        p.add_if(c.recs.iter().any(|r| r.attrs.len() >= 2), ">=2 keys");
        p.add_if(c.recs.iter().any(|r| r.attrs.iter().filter(|(_, v)| v.len() >= 2).count() >= 2), ">=2 multi-valued keys");
        p.add_if(c.recs.iter().any(|r| r.attrs.iter().any(|(_, v)| v.iter().any(|s| s.contains(' ')))), "value with inner space");
        p.add_if(c.recs.iter().any(|r| r.attrs.iter().any(|(_, v)| v.iter().any(|s| s.contains(['\'', '"'])))), "value with inner quote");
        p.add_if(c.recs.iter().any(|r| r.attrs.iter().any(|(_, v)| v.iter().any(|s| !s.is_ascii()))), "non-ASCII value");
        for r in &c.recs {
            p.add(if r.score == "." {
                "score ."
            } else if r.score.parse::<u64>().is_ok() {
                "score integer"
            } else {
                "score decimal/other"
            });
            p.add(match r.strand.as_str() {
                "+" => "strand +",
                "-" => "strand -",
                "." => "strand .",
                "?" => "strand ?",
                _ => "strand other",
            });
            p.add(match r.phase {
                None => "phase .",
                Some(0) => "phase 0",
                Some(1) => "phase 1",
                _ => "phase 2",
            });
        }
        p.add_if(!c.comments.is_empty(), "comment lines");
        p.add_if(c.recs.len() >= 2, ">=2 records");
        p.add_if(c.recs.iter().any(|r| r.seqname.is_empty() || r.source.is_empty() || r.feature_type.is_empty()), "empty text column");
        p.add_if(c.recs.iter().any(|r| [&r.seqname, &r.source, &r.feature_type].iter().any(|s| s.contains('"'))), "column with double quote (csv-quoted)");
        p.add_if(!c.final_newline, "no final newline");
        Ok(p)
    }

    /// the ninth column as the format defines it (GFF3: `k=v1,v2;k2=v`; GFF2/GTF2: `k v1;k v2;k2 v`),
    /// rendered by the harness in the order of the case so that the file is a pure function of the case
    fn render_attrs(d: Dialect, attrs: &[(String, Vec<String>)]) -> String {
        let mut parts = Vec::new();
        for (k, vs) in attrs {
            match d {
                Dialect::GFF3 => parts.push(format!("{}={}", k, vs.join(","))),
                _ => {
                    for v in vs {
                        parts.push(format!("{} {}", k, v));
                    }
                }
            }
        }
        parts.join(";")
    }

    /// base file for injection/corruption: eight fixed columns from the real writer, ninth rendered by the harness
    fn base_lines(d: Dialect, recs: &[Rec]) -> Result<Vec<Vec<u8>>, Stop> {
        for r in recs {
            in_domain(d, r)?;
        }
        let written = write(d, recs, false)?;
        let mut lines = split_lines(&written);
        ensure!(lines.len() == recs.len(), "{:?} writer produced {} lines for {} records: {:?}", d, lines.len(), recs.len(), lossy(&written));
        for (l, r) in lines.iter_mut().zip(recs) {
            ensure!(l.last() == Some(&b'\t') && strict::width(l) == 9, "{:?} writer: record without attributes {:?} is not written as nine columns with an empty ninth: {:?}", d, r, lossy(l));
            l.extend_from_slice(render_attrs(d, &r.attrs).as_bytes());
        }
        Ok(lines)
    }

    pub fn oracle(d: Dialect, file: &[u8], recs: &[Rec]) -> Result<Outcome, Stop> {
        let items = read(d, file)?;
        let mut o = Outcome::default();
        if !strict::modelled(file) {
            o.unmodelled_file = true;
            return Ok(o);
        }
        let lines = strict::data_lines(file);
        ensure!(aligned(file, lines.len(), &items), "{:?} file {:?} has {} data lines but the reader yields {} items: {:?}", d, lossy(file), lines.len(), items.len(), items);
        // ninth-column texts whose attribute multimap is known: the untouched ones
        let known: Vec<(String, Vec<(String, Vec<String>)>)> = recs.iter().map(|r| (render_attrs(d, &r.attrs), sorted(&r.attrs))).collect();
        for (i, (line, it)) in lines.iter().zip(&items).enumerate() {
            let sp = strict::gff(line);
            o.malformed.push(matches!(sp, strict::Parsed::Malformed(_)));
            o.ok.push(it.is_ok());
            if let Ok(got) = it {
                match sp {
                    strict::Parsed::Unmodelled => {}
                    strict::Parsed::Malformed(why) => fail!("{:?} file {:?}: data line {} {:?} is malformed ({}) but is read as Ok: {:?}", d, lossy(file), i, lossy(line), why, got),
                    strict::Parsed::Ok(mut exp) => {
                        let raw = std::mem::take(&mut exp.raw_attributes);
                        let g = fixed_of(got);
                        ensure!(g == exp, "{:?} file {:?}: data line {} {:?} is read as {:?}, its own strict parse is {:?}", d, lossy(file), i, lossy(line), g, exp);
                        if let Some((_, ea)) = known.iter().find(|(t, _)| *t == raw) {
                            let ga = attrs_of(got);
                            ensure!(ga == *ea, "{:?} file {:?}: data line {} {:?}: ninth column {:?} is read as {:?}, expected {:?}", d, lossy(file), i, lossy(line), raw, ga, ea);
                            o.attrs_compared += 1;
                        }
                    }
                }
            }
        }
        o.widths_differ = lines.windows(2).any(|w| strict::width(w[0]) != strict::width(w[1]));
        if o.widths_differ {
            ensure!(o.ok.iter().any(|ok| !ok), "{:?} file {:?} has data lines of different widths but every record is read as Ok", d, lossy(file));
        }
        Ok(o)
    }

    fn dialect_label(d: Dialect) -> &'static str {
        match d {
            Dialect::GFF3 => "dialect GFF3",
            Dialect::GFF2 => "dialect GFF2",
            Dialect::GTF2 => "dialect GTF2",
        }
    }

    pub fn check_inj(c: &InjCase) -> R {
        ensure!(!c.recs.is_empty(), "harness: no records");
        let mut lines = base_lines(c.dialect, &c.recs)?;
        let li = idx(c.line, lines.len() - 1);
        let every = matches!(c.inj, Inj::AddCol { every_line: true, .. });
        for (i, l) in lines.iter_mut().enumerate() {
            if i == li || every {
                *l = mutate_line(l, &c.inj, 3, Some(7))?;
            }
        }
        let injected = lines[li].clone();
        let file = join_lines(&interleave(lines, &c.comments), true);
        let o = oracle(c.dialect, &file, &c.recs)?;
        ensure!(matches!(strict::gff(&injected), strict::Parsed::Malformed(_)), "harness: injected GFF line {:?} is well-formed", lossy(&injected));
        let mut p = Pass::new(!o.ok.is_empty());
        p.add(dialect_label(c.dialect));
        match &c.inj {
            Inj::Num { kind, .. } => p.add(num_kind_label(*kind)),
            Inj::DropCol(_) => p.add("injected: dropped column"),
            Inj::AddCol { every_line: true, .. } => p.add("injected: added column on every line"),
            Inj::AddCol { .. } => p.add(if li == 0 { "injected: added column on the first data line" } else { "injected: added column on a later line" }),
            Inj::Phase(t) => p.add(match t.parse::<u8>() {
                Ok(_) => "injected: phase 3..=255",
                Err(_) => "injected: phase not a small number",
            }),
        }
        p.add_if(li == 0, "injection on first line");
        p.add_if(li > 0, "injection on a later line");
        p.add_if(o.ok.iter().any(|&k| k), "some record still Ok");
        p.add_if(o.attrs_compared > 0, "attributes of an untouched line compared");
        p.add_if(c.recs.iter().any(|r| r.attrs.iter().any(|(_, v)| v.len() >= 2)) && o.attrs_compared > 0, "multi-valued attribute read");
        p.add_if(!c.comments.is_empty(), "comment lines");
        Ok(p)
    }

    pub fn check_corrupt(c: &CorruptCase) -> R {
        ensure!(!c.recs.is_empty(), "harness: no records");
        let lines = base_lines(c.dialect, &c.recs)?;
        let base = join_lines(&interleave(lines, &c.comments), true);
        let mut file = base.clone();
        apply_edits(&mut file, &c.edits);
        let mut p = Pass::new(false);
        p.add(dialect_label(c.dialect));
        let note = |p: &mut Pass, o: &Outcome| {
            p.add_if(o.unmodelled_file, "quote/CR byte: only no-panic and termination checked");
            p.add_if(o.malformed.iter().any(|&m| m), "a malformed data line (read as Err)");
            p.add_if(o.ok.iter().any(|&k| k) && o.ok.iter().any(|&k| !k), "Ok and Err records in one file");
            p.add_if(o.widths_differ, "data lines of different widths");
            p.add_if(!o.ok.is_empty() && o.ok.iter().all(|&k| k), "all records Ok");
            p.add_if(o.attrs_compared > 0, "attributes of an untouched ninth column compared");
            p.add_if(o.ok.iter().filter(|&&k| k).count() > o.attrs_compared, "Ok record with a touched ninth column (fixed columns compared)");
        };
        match c.cut {
            Cut::None => {
                let o = oracle(c.dialect, &file, &c.recs)?;
                note(&mut p, &o);
                p.nontrivial = file != base && !o.ok.is_empty();
            }
            Cut::At(f) => {
                file.truncate(idx(f, file.len()));
                let o = oracle(c.dialect, &file, &c.recs)?;
                note(&mut p, &o);
                p.add("truncated");
                p.add_if(!file.is_empty() && *file.last().unwrap() != b'\n', "truncated inside a line");
                p.nontrivial = !o.ok.is_empty();
            }
            Cut::EveryPrefix => {
                for n in 0..=file.len() {
                    let o = oracle(c.dialect, &file[..n], &c.recs)?;
                    note(&mut p, &o);
                }
                p.add("every prefix of the file");
                p.nontrivial = !file.is_empty();
            }
        }
        p.add_if(c.edits.is_empty(), "no byte edit");
        p.add_if(!c.edits.is_empty(), "byte edits");
        p.add_if(std::str::from_utf8(&file).is_err(), "invalid UTF-8");
        p.add_if(!c.comments.is_empty(), "comment lines");
        Ok(p)
    }

    // ---- strategies

    const KEYS: &[&str] = &["ID", "Name", "Parent", "Note", "gene_id", "transcript_id", "tag", "Dbxref", "a", "k_1", "X9"];
    const VALUES_ANY: &[&str] = &["test", "Removed", "Obsolete", "ENSG00000223972.5", "basic", "appris_principal_1", "GO:0046703", "PRO_0000148105", "1", "0", ".", "-", "a", "b", "5'UTR", "x\"y", "\u{e9}t\u{e9}", "a|b", "100%"];
    const VALUES_GFF3: &[&str] = &["ATP-dependent protease subunit HslV", "a b", "transcribed unprocessed pseudogene", "x  y"];
    const VALUES_GFF2: &[&str] = &["a=b", "x,y", "k=v,w", "EC:1.1.1.1,EC:2"];

    fn key() -> BS<String> {
        prop_oneof![3 => sel(KEYS), 1 => chars_of("abXY09_", 1, 6)].boxed()
    }

    fn value(d: Dialect, clean: bool) -> BS<String> {
        // inner characters; the first and last character come from a set without quotes and spaces
        let (edge, inner): (&'static str, &'static str) = match d {
            Dialect::GFF3 => ("abXY09_.:-+%/()|@", "abXY09_.:-+%/()|@  '\""),
            _ => ("abXY09_.:-+%/()|@,=", "abXY09_.:-+%/()|@,='\""),
        };
        let random = (chars_of(edge, 1, 1), proptest::option::of((chars_of(inner, 0, 6), chars_of(edge, 1, 1)))).prop_map(|(a, rest)| match rest {
            None => a,
            Some((m, z)) => format!("{}{}{}", a, m, z),
        });
        let s = match d {
            Dialect::GFF3 => prop_oneof![4 => sel(VALUES_ANY), 2 => sel(VALUES_GFF3), 4 => random].boxed(),
            _ => prop_oneof![4 => sel(VALUES_ANY), 2 => sel(VALUES_GFF2), 4 => random].boxed(),
        };
        if clean {
            s.prop_map(|t| t.replace('"', "q")).boxed()
        } else {
            s
        }
    }

    fn attrs(d: Dialect, clean: bool) -> BS<Vec<(String, Vec<String>)>> {
        let nvals = prop_oneof![3 => Just(1usize), 2 => Just(2usize), 1 => Just(3usize)];
        let one = (key(), nvals.prop_flat_map(move |n| pvec(value(d, clean), n)));
        pvec(one, 0..=4)
            .prop_map(|v| {
                let mut seen = std::collections::BTreeSet::new();
                v.into_iter().filter(|(k, _)| seen.insert(k.clone())).collect()
            })
            .boxed()
    }

    fn score() -> BS<String> {
        prop_oneof![
            3 => Just(".".to_string()),
            3 => prop_oneof![sel(&["0", "50", "1000", "18446744073709551615"]), (0u64..100000).prop_map(|v| v.to_string())],
            3 => prop_oneof![sel(&["0.5", "1e-5", "-3.2", "99.99", "1.0"]), (0u32..1000, 0u32..100).prop_map(|(a, b)| format!("{}.{}", a, b))],
        ]
        .boxed()
    }

    fn rec(d: Dialect, clean: bool) -> BS<Rec> {
        (
            (first_col(clean), text(clean), text(clean)),
            (coord(), coord(), any::<bool>()),
            score(),
            sel(&["+", "-", ".", "?"]),
            select(vec![None, Some(0u8), Some(1), Some(2)]),
            attrs(d, clean),
        )
            .prop_map(|((seqname, source, feature_type), (a, b, ordered), score, strand, phase, attrs)| {
                let (start, end) = if ordered && a > b { (b, a) } else { (a, b) };
                Rec { seqname, source, feature_type, start, end, score, strand, phase, attrs }
            })
            .boxed()
    }

    fn dialect() -> BS<Dialect> {
        select(vec![Dialect::GFF3, Dialect::GFF2, Dialect::GTF2]).boxed()
    }

    pub fn strat_rt(_t: Tier) -> BS<RtCase> {
        dialect()
            .prop_flat_map(|d| (Just(d), pvec(rec(d, false), 1..=5), comments(false, 3), prop_oneof![4 => Just(true), 1 => Just(false)], prop_oneof![3 => Just(Vec::new()), 2 => pvec(any::<[u16; 3]>(), 1..=3)]))
            .prop_map(|(dialect, mut recs, comments, final_newline, empties)| {
                // empty strings as members of multi-valued lists (first, middle, last; several): a value
                // list of two or more entries may hold empty ones (a single empty value is outside the
                // domain: `key=` carries no value at all)
                // (GFF3 only: GFF2/GTF2 write every value as its own `key value` pair, where an empty value is
                // again no value at all)
                for [a, b, c] in empties {
                    if dialect != Dialect::GFF3 {
                        break;
                    }
                    let r = idx(a, recs.len() - 1);
                    let multi: Vec<usize> = recs[r].attrs.iter().enumerate().filter(|(_, (_, v))| v.len() >= 2).map(|(i, _)| i).collect();
                    if !multi.is_empty() {
                        let k = multi[idx(b, multi.len() - 1)];
                        let vals = &mut recs[r].attrs[k].1;
                        let i = idx(c, vals.len() - 1);
                        vals[i] = String::new();
                    }
                }
                RtCase { dialect, recs, comments, final_newline }
            })
            .boxed()
    }

    fn inj() -> BS<Inj> {
        let phase = prop_oneof![
            4 => (3u16..=255).prop_map(|p| p.to_string()),
            2 => sel(&["3", "255", "9", "10"]),
            3 => sel(&["x", "-1", "", "256", "1.0", "..", " 1", "1 ", "+", "one", "-0", "1000"]),
        ];
        prop_oneof![3 => inj_common(), 2 => phase.prop_map(Inj::Phase)].boxed()
    }

    pub fn strat_inj(_t: Tier) -> BS<InjCase> {
        dialect()
            .prop_flat_map(|d| (Just(d), pvec(rec(d, true), 1..=4), comments(true, 2), prop_oneof![1 => Just(0u16), 2 => any::<u16>()], inj()))
            .prop_map(|(dialect, recs, comments, line, inj)| InjCase { dialect, recs, comments, line, inj })
            .boxed()
    }

    pub fn strat_corrupt(_t: Tier) -> BS<CorruptCase> {
        dialect()
            .prop_flat_map(|d| (Just(d), pvec(rec(d, true), 1..=3), comments(true, 2), edits(), cut(20)))
            .prop_map(|(dialect, recs, comments, edits, cut)| CorruptCase { dialect, recs, comments, edits, cut })
            .boxed()
    }
}


// ---------------------------------------------------------------------------
// raw bytes: any byte string through the BED reader and the GFF reader of each dialect, judged by the strict
// line parser (no panic, terminates, one item per data line, a malformed line is never Ok, an Ok record equals
// the strict parse of its own line). Shared with the libFuzzer target `tabular`.
pub mod rawbytes {
    use super::*;

    #[derive(Serialize, Deserialize, Debug, Clone)]
    pub struct BytesCase {
        /// 0: BED; 1: GFF3; 2: GFF2; 3: GTF2
        pub kind: u8,
        pub data: B,
    }

    pub fn check(c: &BytesCase) -> R {
        let data: &[u8] = &c.data;
        let (ok, malformed, unmodelled) = match c.kind % 4 {
            0 => {
                let o = bed::oracle(data)?;
                (o.ok.iter().filter(|&&k| k).count(), o.malformed.iter().filter(|&&m| m).count(), o.unmodelled_file)
            }
            k => {
                let d = [gff::Dialect::GFF3, gff::Dialect::GFF2, gff::Dialect::GTF2][(k - 1) as usize];
                let o = gff::oracle(d, data, &[])?;
                (o.ok.iter().filter(|&&k| k).count(), o.malformed.iter().filter(|&&m| m).count(), o.unmodelled_file)
            }
        };
        let mut p = Pass::new(ok + malformed >= 2);
        p.add(["BED", "GFF3", "GFF2", "GTF2"][(c.kind % 4) as usize]);
        p.add_if(ok >= 1, "a record read as Ok");
        p.add_if(malformed >= 1, "a malformed data line");
        p.add_if(ok >= 1 && malformed >= 1, "Ok and malformed lines in one file");
        p.add_if(unmodelled, "quote/CR byte: only no-panic and termination checked");
        p.add_if(data.is_empty(), "empty input");
        Ok(p)
    }

    pub fn strat(_t: Tier) -> BoxedStrategy<BytesCase> {
        const TOK: &[&str] = &["chr1", "chrX", "1", "0", "10", "100", "18446744073709551615", "18446744073709551616", "-1", "1e3", "0x10", "+", "-", ".", "?", "", " ", "name", "gene", "exon", "src", "ID=a", "ID=a;Note=b,c", "gene_id \"g\"; transcript_id \"t\";", "k v", "0.5", "3", "2", "track", "track name=x", "browser", "browser position chr1:1-2", "#", "##gff-version 3", "#chr1", "255,0,0", "\u{e9}"];
        let tok = prop_oneof![8 => sel(TOK), 1 => chars_of("abc019.;=, -+", 0, 5)];
        let sep = prop_oneof![10 => Just("\t"), 3 => Just("\n"), 1 => Just(" "), 1 => Just("\t\t"), 1 => Just("\n\n")];
        let grammar = pvec((tok, sep), 0..=40).prop_map(|v| v.into_iter().flat_map(|(t, s)| [t.into_bytes(), s.as_bytes().to_vec()].concat()).collect::<Vec<u8>>());
        // well-formed lines of either format with one column damaged
        let line = (0u8..2, 0u64..2000, 0u64..2000, 0usize..9, proptest::option::of((0usize..10, sel(&["", "x", "-1", "1.5", " 3", "99999999999999999999", "."])))).prop_map(|(fmt, a, b, naux, dmg)| {
            let mut cols: Vec<String> = if fmt == 0 {
                let mut c = vec!["chr1".to_string(), a.to_string(), b.to_string()];
                for i in 0..naux {
                    c.push(format!("x{}", i));
                }
                c
            } else {
                vec!["chr1".into(), "src".into(), "gene".into(), a.to_string(), b.to_string(), ".".into(), "+".into(), "0".into(), "ID=g1;Note=a,b".into()]
            };
            if let Some((i, v)) = dmg {
                if i < cols.len() {
                    cols[i] = v;
                } else {
                    cols.push(v);
                }
            }
            let mut l = cols.join("\t").into_bytes();
            l.push(b'\n');
            l
        });
        let lines = pvec(line, 0..=6).prop_map(|v| v.concat());
        (0u8..4, prop_oneof![3 => grammar, 3 => lines, 1 => pvec(any::<u8>(), 0..=60)]).prop_map(|(kind, data)| BytesCase { kind, data: B(data) }).boxed()
    }
}

// ---------------------------------------------------------------------------
// large-scale sub-checks (C13/large-*): every size parameter of the BED / GFF writers and readers is pushed
// across the threshold ladder 255..257, 511..513, ... 2^20+1 (oracles::scale::c111213).
//
// A case holds parameters only; records are a fixed function of (seed, index).  The scaled parameter is `what`:
//   BedRecords  number of BED records          BedCols     number of auxiliary BED columns
//   BedValue    length of one BED column value  Comments    number of comment lines / length of one comment line
//   GffRecords  number of GFF records           GffKeys     number of attribute keys of one record
//   GffValues   number of values of one key     GffValueLen length of one attribute value (or key)
//   GffColLen   length of a text column         FileHist    histories on ONE path (Writer::to_file / Reader::from_file)
//   BadLine     index of the one malformed line in a long file (bad number, invalid phase, wrong column count)
pub mod large {
    use super::gff::Dialect;
    use super::*;
    use crate::oracles::io::ChunkedReader;
    use crate::oracles::scale::c111213::{band_label, intern, ladder, mix, publish, Sm, TmpFiles, CENTRES};
    use bio::io::{bed as lbed, gff as lgff};
    use std::convert::TryInto;
    use std::io::{Cursor, Read};
    use std::rc::Rc;

    #[derive(Serialize, Deserialize, Debug, Clone, Copy, PartialEq, Eq)]
    pub enum What {
        BedRecords,
        BedCols,
        BedValue,
        Comments,
        GffRecords,
        GffKeys,
        GffValues,
        GffValueLen,
        GffColLen,
        FileHist,
        BadLine,
    }

    #[derive(Serialize, Deserialize, Debug, Clone, Copy, PartialEq, Eq)]
    pub enum Pat {
        Random,
        /// every value / record the same
        Equal,
        /// decimal numbers in ascending order (a reordering or a lost value is visible)
        Ascending,
        Descending,
    }

    #[derive(Serialize, Deserialize, Debug, Clone, Copy, PartialEq, Eq)]
    pub enum Src {
        /// `Reader::new(&bytes[..])`
        Slice,
        /// `Reader::new(Cursor<Vec<u8>>)`
        Cursor,
        /// `Reader::new(chunked double)` with read() pieces of at most n bytes
        Chunked,
        /// written with `Writer::to_file`, read with `Reader::from_file`
        File,
    }

    #[derive(Serialize, Deserialize, Debug, Clone)]
    pub struct LCase {
        pub what: What,
        pub n: usize,
        pub aux: usize,
        pub pat: Pat,
        pub seed: u64,
        pub dialect: Dialect,
        pub src: Src,
    }

    fn gff_type(d: Dialect) -> lgff::GffType {
        match d {
            Dialect::GFF3 => lgff::GffType::GFF3,
            Dialect::GFF2 => lgff::GffType::GFF2,
            Dialect::GTF2 => lgff::GffType::GTF2,
        }
    }

    const SAFE: &[u8] = b"abcdefghijklmnopqrstuvwxyzABCDEFGHIJKLMNOPQRSTUVWXYZ0123456789_.:-";
    const ALNUM: &[u8] = b"abcxyzABCXYZ0189";

    /// `n` characters: first and last alphanumeric; the inner ones from SAFE, optionally mixed with `extra`
    /// (every fifth position on average) or with multi-byte characters (`utf8`: the length is then in bytes)
    fn text(n: usize, seed: u64, extra: &[u8], utf8: bool) -> String {
        if n == 0 {
            return String::new();
        }
        let mut g = Sm::new(seed, 0x7e87);
        let mut v: Vec<u8> = Vec::with_capacity(n);
        v.push(ALNUM[g.below(ALNUM.len() as u64) as usize]);
        while v.len() + 1 < n {
            let room = n - 1 - v.len();
            let x = g.next();
            if utf8 && x % 16 == 0 && room >= 2 {
                v.extend_from_slice("é".as_bytes());
            } else if utf8 && x % 16 == 1 && room >= 3 {
                v.extend_from_slice("中".as_bytes());
            } else if !extra.is_empty() && x % 5 == 2 {
                v.push(extra[((x >> 8) % extra.len() as u64) as usize]);
            } else {
                v.push(SAFE[((x >> 8) % SAFE.len() as u64) as usize]);
            }
        }
        if v.len() < n {
            v.push(ALNUM[g.below(ALNUM.len() as u64) as usize]);
        }
        String::from_utf8(v).expect("valid UTF-8")
    }

    /// the i-th of n short values under a pattern
    fn val(pat: Pat, seed: u64, i: usize, n: usize) -> String {
        match pat {
            Pat::Equal => "v".to_string(),
            Pat::Ascending => format!("{}", i),
            Pat::Descending => format!("{}", n - i),
            Pat::Random => {
                let x = mix(seed ^ (i as u64).wrapping_mul(0x9e37));
                text(1 + (x % 8) as usize, x, b"", false)
            }
        }
    }

    fn exc(s: &str) -> String {
        if s.len() <= 80 {
            format!("{:?}", s)
        } else {
            let mut a = 40;
            while !s.is_char_boundary(a) {
                a -= 1;
            }
            let mut b = s.len() - 40;
            while !s.is_char_boundary(b) {
                b += 1;
            }
            format!("{:?}..{:?} ({} bytes)", &s[..a], &s[b..], s.len())
        }
    }

    fn what_name(w: What) -> &'static str {
        match w {
            What::BedRecords => "number of BED records",
            What::BedCols => "number of auxiliary BED columns",
            What::BedValue => "length of a BED column value",
            What::Comments => "comment lines (count / length)",
            What::GffRecords => "number of GFF records",
            What::GffKeys => "number of attribute keys",
            What::GffValues => "number of values of one key",
            What::GffValueLen => "length of an attribute value / key",
            What::GffColLen => "length of a GFF text column",
            What::FileHist => "file history: records of the long file",
            What::BadLine => "index of the malformed line",
        }
    }

    // ---- record lists as functions of the case

    /// provider of the expected records (materialised when small enough)
    pub struct Many<T> {
        n: usize,
        list: Option<Vec<T>>,
        make: Box<dyn Fn(usize) -> T>,
    }

    impl<T: Clone> Many<T> {
        fn new(n: usize, make: Box<dyn Fn(usize) -> T>) -> Many<T> {
            let list = if n <= 200_000 { Some((0..n).map(|i| make(i)).collect()) } else { None };
            Many { n, list, make }
        }
        fn get(&self, i: usize) -> T {
            match &self.list {
                Some(l) => l[i].clone(),
                None => (self.make)(i),
            }
        }
    }

    fn bed_small(seed: u64, i: usize, k: usize, pat: Pat, n: usize) -> bed::Rec {
        if pat == Pat::Equal {
            return bed::Rec { chrom: "chr1".into(), start: 5, end: 5000, aux: vec!["v".to_string(); k] };
        }
        let x = mix(seed ^ (i as u64) << 3);
        let start = x >> (x % 60);
        bed::Rec { chrom: format!("chr{}", x % 23), start, end: start.saturating_add(x % 1000), aux: (0..k).map(|j| if j == 2 { ["+", "-", "."][(x % 3) as usize].to_string() } else { val(pat, x, i * k + j, n * k) }).collect() }
    }

    fn gff_small(seed: u64, i: usize, pat: Pat, n: usize, d: Dialect) -> gff::Rec {
        let x = mix(seed ^ (i as u64) << 5);
        let nk = if pat == Pat::Equal { 1 } else { (x % 4) as usize };
        let attrs = (0..nk).map(|j| (format!("k{}", j), (0..1 + ((x >> 8) as usize + j) % 2).map(|l| if d == Dialect::GFF3 && l == 1 && pat == Pat::Random { "two words".to_string() } else { val(pat, x ^ j as u64, i + l, n + 2) }).collect())).collect();
        let start = if pat == Pat::Equal { 7 } else { x >> (x % 60) };
        gff::Rec {
            seqname: if pat == Pat::Equal { "chr1".into() } else { format!("chr{}", x % 23) },
            source: "src".into(),
            feature_type: ["gene", "exon", "CDS"][(x % 3) as usize].into(),
            start,
            end: start.saturating_add(x % 5000),
            score: [".", "50", "0.5"][((x >> 4) % 3) as usize].into(),
            strand: ["+", "-", ".", "?"][((x >> 6) % 4) as usize].into(),
            phase: [None, Some(0), Some(1), Some(2)][((x >> 9) % 4) as usize],
            attrs,
        }
    }

    // ---- BED through the library

    fn bed_build(r: &bed::Rec, setters: bool) -> lbed::Record {
        let mut b = lbed::Record::new();
        b.set_chrom(&r.chrom);
        b.set_start(r.start);
        b.set_end(r.end);
        for (i, a) in r.aux.iter().enumerate() {
            if setters && i == 0 {
                b.set_name(a);
            } else if setters && i == 1 {
                b.set_score(a);
            } else {
                b.push_aux(a);
            }
        }
        b
    }

    fn bed_write(recs: &Many<bed::Rec>, setters: bool, path: Option<&str>) -> Result<Vec<u8>, Stop> {
        let mut buf = Vec::new();
        macro_rules! emit {
            ($w:expr) => {{
                let mut w = $w;
                for i in 0..recs.n {
                    let r = recs.get(i);
                    if let Err(e) = w.write(&bed_build(&r, setters)) {
                        fail!("BED writer refused record #{} (chrom {}, {} aux columns): {}", i, exc(&r.chrom), r.aux.len(), e);
                    }
                }
            }};
        }
        match path {
            None => emit!(lbed::Writer::new(&mut buf)),
            Some(p) => {
                match lbed::Writer::to_file(p) {
                    Ok(w) => emit!(w),
                    Err(e) => fail!("bed::Writer::to_file({:?}) failed: {:?}", p, e),
                }
                buf = std::fs::read(p).map_err(|e| Stop::Fail(format!("the file {:?} written by bed::Writer::to_file cannot be read: {:?}", p, e)))?;
            }
        }
        Ok(buf)
    }

    fn bed_same(got: &lbed::Record, exp: &bed::Rec) -> bool {
        got.chrom() == exp.chrom && got.start() == exp.start && got.end() == exp.end && (0..exp.aux.len()).all(|j| got.aux(3 + j) == Some(exp.aux[j].as_str())) && got.aux(3 + exp.aux.len()).is_none()
    }

    fn bed_show(got: &lbed::Record) -> String {
        let mut k = 0;
        while got.aux(3 + k).is_some() {
            k += 1;
        }
        format!("chrom={} start={} end={} {} aux columns [{}]", exc(got.chrom()), got.start(), got.end(), k, (0..k.min(4)).map(|j| exc(got.aux(3 + j).unwrap_or(""))).collect::<Vec<_>>().join(", "))
    }

    /// first difference between what was read and what was written
    fn bed_diff(got: &lbed::Record, exp: &bed::Rec) -> String {
        if got.chrom() != exp.chrom {
            return format!("chrom read {} written {}", exc(got.chrom()), exc(&exp.chrom));
        }
        if got.start() != exp.start || got.end() != exp.end {
            return format!("coordinates read {}..{} written {}..{}", got.start(), got.end(), exp.start, exp.end);
        }
        for (j, a) in exp.aux.iter().enumerate() {
            if got.aux(3 + j) != Some(a.as_str()) {
                return format!("aux column #{} (column {} of the line) read {:?} written {}", j, 3 + j, got.aux(3 + j).map(exc), exc(a));
            }
        }
        format!("{} aux columns written, but aux({}) reads {:?}", exp.aux.len(), 3 + exp.aux.len(), got.aux(3 + exp.aux.len()).map(exc))
    }

    fn bed_show_exp(exp: &bed::Rec) -> String {
        format!("chrom={} start={} end={} {} aux columns [{}]", exc(&exp.chrom), exp.start, exp.end, exp.aux.len(), exp.aux.iter().take(4).map(|a| exc(a)).collect::<Vec<_>>().join(", "))
    }

    /// reads `file` through `src` and demands exactly the expected records; `bad`: index of a line that must be Err
    /// (then the other lines may be Err as well, but every Ok item must equal the record of its own line)
    fn bed_expect(c: &LCase, file: &Rc<Vec<u8>>, path: Option<&str>, recs: &Many<bed::Rec>, bad: Option<usize>, case: &str) -> Result<usize, Stop> {
        let mut oks = 0usize;
        macro_rules! go {
            ($rdr:expr) => {{
                let mut rdr = $rdr;
                let mut it = rdr.records();
                for i in 0..recs.n {
                    let exp = recs.get(i);
                    match it.next() {
                        None => fail!("{}: the BED reader ends after {} of {} records", case, i, recs.n),
                        Some(Err(e)) => ensure!(bad.is_some(), "{}: record #{} ({}) reads back as error: {}", case, i, bed_show_exp(&exp), e),
                        Some(Ok(got)) => {
                            ensure!(bad != Some(i), "{}: the malformed line #{} is read as Ok: {}", case, i, bed_show(&got));
                            ensure!(bed_same(&got, &exp), "{}: record #{} written as {} reads back as {}: {}", case, i, bed_show_exp(&exp), bed_show(&got), bed_diff(&got, &exp));
                            oks += 1;
                        }
                    }
                }
                match it.next() {
                    None => {}
                    Some(x) => fail!("{}: an extra item follows the {} records: {:?}", case, recs.n, x.map(|r| bed_show(&r)).map_err(|e| e.to_string())),
                }
            }};
        }
        match c.src {
            Src::Slice => go!(lbed::Reader::new(&file[..])),
            Src::Cursor => go!(lbed::Reader::new(Cursor::new(file.to_vec()))),
            Src::Chunked => go!(lbed::Reader::new(ChunkedReader::whole(file.clone(), &[c.n.clamp(1, u32::MAX as usize) as u32, 1, 7], None))),
            Src::File => match lbed::Reader::from_file(path.unwrap_or("")) {
                Ok(r) => go!(r),
                Err(e) => fail!("{}: bed::Reader::from_file({:?}) failed on an existing file: {:?}", case, path, e),
            },
        }
        Ok(oks)
    }

    // ---- GFF through the library

    fn gff_build(r: &gff::Rec) -> lgff::Record {
        let mut g = lgff::Record::new();
        *g.seqname_mut() = r.seqname.clone();
        *g.source_mut() = r.source.clone();
        *g.feature_type_mut() = r.feature_type.clone();
        *g.start_mut() = r.start;
        *g.end_mut() = r.end;
        *g.score_mut() = r.score.clone();
        *g.strand_mut() = r.strand.clone();
        *g.phase_mut() = lgff::Phase::from(r.phase);
        for (k, vs) in &r.attrs {
            for v in vs {
                g.attributes_mut().insert(k.clone(), v.clone());
            }
        }
        g
    }

    fn gff_write(d: Dialect, recs: &Many<gff::Rec>, path: Option<&str>) -> Result<Vec<u8>, Stop> {
        let mut buf = Vec::new();
        macro_rules! emit {
            ($w:expr) => {{
                let mut w = $w;
                for i in 0..recs.n {
                    let r = recs.get(i);
                    if let Err(e) = w.write(&gff_build(&r)) {
                        fail!("{:?} writer refused record #{} ({} keys): {}", d, i, r.attrs.len(), e);
                    }
                }
            }};
        }
        match path {
            None => emit!(lgff::Writer::new(&mut buf, gff_type(d))),
            Some(p) => {
                match lgff::Writer::to_file(p, gff_type(d)) {
                    Ok(w) => emit!(w),
                    Err(e) => fail!("gff::Writer::to_file({:?}) failed: {:?}", p, e),
                }
                buf = std::fs::read(p).map_err(|e| Stop::Fail(format!("the file {:?} written by gff::Writer::to_file cannot be read: {:?}", p, e)))?;
            }
        }
        Ok(buf)
    }

    /// field-for-field comparison; attributes as key -> ordered value list; Err(text) names the first difference
    fn gff_diff(got: &lgff::Record, exp: &gff::Rec) -> Option<String> {
        let mut m = got.clone();
        let phase: Option<u8> = {
            let p: Result<Option<u8>, ()> = got.phase().clone().try_into();
            p.unwrap_or(None)
        };
        let fixed = [("seqname", got.seqname() == exp.seqname), ("source", got.source() == exp.source), ("feature_type", got.feature_type() == exp.feature_type), ("start", *got.start() == exp.start), ("end", *got.end() == exp.end), ("score", *m.score_mut() == exp.score), ("strand", *m.strand_mut() == exp.strand), ("phase", phase == exp.phase)];
        for (name, ok) in fixed {
            if !ok {
                return Some(format!("column {} differs (seqname read {}, written {}; start {} / {}; end {} / {}; phase {:?} / {:?})", name, exc(got.seqname()), exc(&exp.seqname), got.start(), exp.start, got.end(), exp.end, phase, exp.phase));
            }
        }
        let nkeys = got.attributes().iter_all().count();
        if nkeys != exp.attrs.len() {
            return Some(format!("{} attribute keys read, {} written", nkeys, exp.attrs.len()));
        }
        for (k, vs) in &exp.attrs {
            match got.attributes().get_vec(k) {
                None => return Some(format!("key {} is missing", exc(k))),
                Some(gv) => {
                    if gv != vs {
                        let p = gv.iter().zip(vs.iter()).position(|(a, b)| a != b).unwrap_or(gv.len().min(vs.len()));
                        return Some(format!("key {}: {} values read, {} written; first difference at value #{}: read {:?}, written {:?}", exc(k), gv.len(), vs.len(), p, gv.get(p).map(|s| exc(s)), vs.get(p).map(|s| exc(s))));
                    }
                }
            }
        }
        if *got != gff_build(exp) {
            return Some("the record differs from the written record object (PartialEq)".into());
        }
        None
    }

    fn gff_expect(c: &LCase, file: &Rc<Vec<u8>>, path: Option<&str>, recs: &Many<gff::Rec>, bad: Option<usize>, case: &str) -> Result<usize, Stop> {
        let mut oks = 0usize;
        let t = gff_type(c.dialect);
        macro_rules! go {
            ($rdr:expr) => {{
                let mut rdr = $rdr;
                let mut it = rdr.records();
                for i in 0..recs.n {
                    let exp = recs.get(i);
                    match it.next() {
                        None => fail!("{}: the {:?} reader ends after {} of {} records", case, c.dialect, i, recs.n),
                        Some(Err(e)) => ensure!(bad.is_some(), "{}: record #{} (seqname {}, {} keys) reads back as error: {}", case, i, exc(&exp.seqname), exp.attrs.len(), e),
                        Some(Ok(got)) => {
                            ensure!(bad != Some(i), "{}: the malformed line #{} is read as Ok (seqname {}, start {}, phase {:?})", case, i, exc(got.seqname()), got.start(), got.phase());
                            if let Some(d) = gff_diff(&got, &exp) {
                                fail!("{}: record #{} of {}: {}", case, i, recs.n, d);
                            }
                            oks += 1;
                        }
                    }
                }
                match it.next() {
                    None => {}
                    Some(x) => fail!("{}: an extra item follows the {} records: {:?}", case, recs.n, x.map(|r| r.seqname().to_string()).map_err(|e| e.to_string())),
                }
            }};
        }
        match c.src {
            Src::Slice => go!(lgff::Reader::new(&file[..], t)),
            Src::Cursor => go!(lgff::Reader::new(Cursor::new(file.to_vec()), t)),
            Src::Chunked => go!(lgff::Reader::new(ChunkedReader::whole(file.clone(), &[c.n.clamp(1, u32::MAX as usize) as u32, 1, 7], None), t)),
            Src::File => match lgff::Reader::from_file(path.unwrap_or(""), t) {
                Ok(r) => go!(r),
                Err(e) => fail!("{}: gff::Reader::from_file({:?}) failed on an existing file: {:?}", case, path, e),
            },
        }
        Ok(oks)
    }

    /// lines of a written file (no field contains a line break, so '\n' separates records)
    fn lines_of(bytes: &[u8]) -> Vec<&[u8]> {
        let mut v: Vec<&[u8]> = bytes.split(|&b| b == b'\n').collect();
        if v.last().map_or(false, |l| l.is_empty()) {
            v.pop();
        }
        v
    }

    /// hand the written bytes to the reader: as they are, or stored at `path` for `Src::File`
    fn stage(c: &LCase, bytes: Vec<u8>, path: &str, already_on_disk: bool) -> Result<Rc<Vec<u8>>, Stop> {
        if c.src == Src::File && !already_on_disk {
            std::fs::write(path, &bytes).map_err(|e| Stop::Fail(format!("harness: cannot write {:?}: {:?}", path, e)))?;
        }
        Ok(Rc::new(bytes))
    }

    pub fn check_large(c: &LCase) -> R {
        let _published = publish(c);
        ensure!(c.n >= 1, "harness: n = 0");
        let mut tmp = TmpFiles::new("C13").map_err(|e| Stop::Fail(format!("harness: cannot create the temporary directory: {:?}", e)))?;
        let case = format!("{:?}", c);
        let n = c.n;
        let (seed, pat, d) = (c.seed, c.pat, c.dialect);
        let mut g = Sm::new(seed, 0xc13);
        let mut pass = Pass::new(n >= 255);
        pass.add(band_label(what_name(c.what), n as u64));
        pass.add(intern(format!("scaled: {}", what_name(c.what))));
        let path = tmp.path("rt");
        let to_file = c.src == Src::File;
        let wpath = if to_file { Some(path.as_str()) } else { None };
        let is_gff = matches!(c.what, What::GffRecords | What::GffKeys | What::GffValues | What::GffValueLen | What::GffColLen) || (matches!(c.what, What::FileHist | What::BadLine | What::Comments) && c.aux % 2 == 1);
        match c.what {
            What::BedRecords | What::BedCols | What::BedValue => {
                let recs: Many<bed::Rec> = match c.what {
                    What::BedRecords => {
                        let k = [0usize, 1, 3, 9][c.aux % 4];
                        Many::new(n, Box::new(move |i| bed_small(seed, i, k, pat, n)))
                    }
                    What::BedCols => Many::new(3, Box::new(move |i| bed_small(seed ^ 0x55, i, n, pat, 3))),
                    _ => {
                        let (extra, utf8): (&'static [u8], bool) = [(&b" ,;='"[..], false), (&b"\""[..], false), (&b""[..], true), (&b"\"\"\" #"[..], false)][c.aux / 3 % 4];
                        let long = text(n, seed, extra, utf8);
                        let col = c.aux % 3;
                        Many::new(
                            3,
                            Box::new(move |i| {
                                let mut r = bed_small(seed, i, 3, Pat::Random, 3);
                                if i == 1 {
                                    match col {
                                        0 => r.chrom = long.clone(),
                                        1 => r.aux[0] = long.clone(),
                                        _ => r.aux[2] = long.clone(),
                                    }
                                }
                                r
                            }),
                        )
                    }
                };
                let written = bed_write(&recs, c.aux % 2 == 1 && c.what != What::BedCols, wpath)?;
                let file = stage(c, written, &path, to_file)?;
                bed_expect(c, &file, Some(&path), &recs, None, &case)?;
                pass.add("BED");
            }
            What::GffRecords | What::GffKeys | What::GffValues | What::GffValueLen | What::GffColLen => {
                let recs: Many<gff::Rec> = match c.what {
                    What::GffRecords => Many::new(n, Box::new(move |i| gff_small(seed, i, pat, n, d))),
                    What::GffKeys => Many::new(
                        2,
                        Box::new(move |i| {
                            let mut r = gff_small(seed, i, Pat::Random, 2, d);
                            if i == 0 {
                                r.attrs = (0..n).map(|j| (format!("k{}", j), (0..1 + (j % 7 == 3) as usize).map(|l| val(pat, seed, j + l, n + 1)).collect())).collect();
                            }
                            r
                        }),
                    ),
                    What::GffValues => Many::new(
                        2,
                        Box::new(move |i| {
                            let mut r = gff_small(seed, i, Pat::Random, 2, d);
                            if i == 0 {
                                r.attrs = vec![("first".to_string(), vec!["a".to_string(), "b".to_string()]), ("many".to_string(), (0..n).map(|j| val(pat, seed, j, n)).collect()), ("last".to_string(), vec!["z".to_string()])];
                            }
                            r
                        }),
                    ),
                    What::GffValueLen => {
                        let inner: &'static [u8] = if d == Dialect::GFF3 { b"  '\"" } else { b",='\"" };
                        let long = text(n, seed, if c.aux / 3 % 2 == 0 { b"" } else { inner }, c.aux / 6 % 2 == 1);
                        let sel = c.aux % 3;
                        Many::new(
                            2,
                            Box::new(move |i| {
                                let mut r = gff_small(seed, i, Pat::Random, 2, d);
                                if i == 0 {
                                    r.attrs = match sel {
                                        0 => vec![("Note".to_string(), vec![long.clone()]), ("ID".to_string(), vec!["x".to_string()])],
                                        1 => vec![("Note".to_string(), vec!["short".to_string(), long.clone(), "after".to_string()])],
                                        _ => vec![(text(n, seed, b"", false).replace(['.', ':', '-'], "_"), vec!["value_of_a_long_key".to_string()])],
                                    };
                                }
                                r
                            }),
                        )
                    }
                    _ => {
                        let long = text(n, seed, if c.aux / 3 % 2 == 0 { b"" } else { b" ,;=' \"" }, c.aux / 6 % 2 == 1);
                        let sel = c.aux % 3;
                        Many::new(
                            3,
                            Box::new(move |i| {
                                let mut r = gff_small(seed, i, Pat::Random, 3, d);
                                if i == 1 {
                                    match sel {
                                        0 => r.seqname = long.clone(),
                                        1 => r.source = long.clone(),
                                        _ => r.feature_type = long.clone(),
                                    }
                                }
                                r
                            }),
                        )
                    }
                };
                let written = gff_write(d, &recs, wpath)?;
                let file = stage(c, written, &path, to_file)?;
                gff_expect(c, &file, Some(&path), &recs, None, &case)?;
            }
            What::Comments => {
                // n comment lines between a few records, or one comment line of n bytes; never as the last line
                let nrec = 6usize;
                let (written, brecs, grecs) = if is_gff {
                    let r: Many<gff::Rec> = Many::new(nrec, Box::new(move |i| gff_small(seed, i, Pat::Random, nrec, d)));
                    (gff_write(d, &r, None)?, None, Some(r))
                } else {
                    let r: Many<bed::Rec> = Many::new(nrec, Box::new(move |i| bed_small(seed, i, 3, Pat::Random, nrec)));
                    (bed_write(&r, false, None)?, Some(r), None)
                };
                let lines = lines_of(&written);
                ensure!(lines.len() == nrec, "harness: {} lines for {} records", lines.len(), nrec);
                let mut file = Vec::new();
                let count_mode = c.aux / 2 % 2 == 0;
                for (i, l) in lines.iter().enumerate() {
                    let ncom = if count_mode {
                        // all n comment lines in front of one record, or spread
                        if c.aux / 4 % 2 == 0 {
                            if i == 2 {
                                n
                            } else {
                                0
                            }
                        } else {
                            n / nrec + (i < n % nrec) as usize
                        }
                    } else {
                        (i == 3) as usize
                    };
                    for j in 0..ncom {
                        file.push(b'#');
                        if count_mode {
                            file.extend_from_slice(["", "#gff-version 3", "chr1\t5\t10", " \"quoted", "x"][(j + g.below(2) as usize) % 5].as_bytes());
                        } else {
                            file.extend_from_slice(text(n.saturating_sub(1), seed, b"\t \"#", c.aux / 4 % 2 == 1).as_bytes());
                        }
                        file.push(b'\n');
                    }
                    file.extend_from_slice(l);
                    file.push(b'\n');
                }
                let file = stage(c, file, &path, false)?;
                match (&brecs, &grecs) {
                    (Some(r), _) => bed_expect(c, &file, Some(&path), r, None, &case)?,
                    (_, Some(r)) => gff_expect(c, &file, Some(&path), r, None, &case)?,
                    _ => 0,
                };
                pass.add(if count_mode { "many comment lines" } else { "one long comment line" });
            }
            What::FileHist => {
                // ONE path: n records, then 2, then n/5, then 1; each generation written by Writer::to_file and read by Reader::from_file
                let cc = LCase { src: Src::File, ..c.clone() };
                for (step, m) in [n, 2, n / 5 + 3, 1].into_iter().enumerate() {
                    let scase = format!("{} step {} of the history on one path ({} records)", case, step, m);
                    let sseed = seed ^ (step as u64) << 20;
                    if is_gff {
                        let r: Many<gff::Rec> = Many::new(m, Box::new(move |i| gff_small(sseed, i, pat, m, d)));
                        let written = gff_write(d, &r, Some(&path))?;
                        gff_expect(&cc, &Rc::new(written.clone()), Some(&path), &r, None, &scase)?;
                        // and the bytes on disk are exactly one generation (in-memory reader over what the file holds)
                        gff_expect(&LCase { src: Src::Slice, ..c.clone() }, &Rc::new(written), None, &r, None, &scase)?;
                    } else {
                        let k = [3usize, 0, 9, 1][step];
                        let r: Many<bed::Rec> = Many::new(m, Box::new(move |i| bed_small(sseed, i, k, pat, m)));
                        let written = bed_write(&r, step % 2 == 1, Some(&path))?;
                        bed_expect(&cc, &Rc::new(written.clone()), Some(&path), &r, None, &scase)?;
                        bed_expect(&LCase { src: Src::Slice, ..c.clone() }, &Rc::new(written), None, &r, None, &scase)?;
                    }
                }
                pass.add("file history: long, short, medium, single record on one path");
            }
            What::BadLine => {
                // line #n (0-based) of a file of n + 20 records is malformed
                let m = n + 20;
                let kind = c.aux / 2 % 6;
                let bad_num = ["abc", "-1", "1.5", "", "18446744073709551616", " 5"][kind];
                if is_gff {
                    let r: Many<gff::Rec> = Many::new(m, Box::new(move |i| gff_small(seed, i, Pat::Random, m, d)));
                    let written = gff_write(d, &r, None)?;
                    let mut lines: Vec<Vec<u8>> = lines_of(&written).into_iter().map(|l| l.to_vec()).collect();
                    ensure!(lines.len() == m, "harness: {} lines for {} records", lines.len(), m);
                    let mut cols = cols_of(&lines[n]);
                    ensure!(cols.len() == 9, "harness: GFF line with {} columns", cols.len());
                    match c.aux / 12 % 4 {
                        0 => cols[3] = bad_num.as_bytes().to_vec(),
                        1 => cols[4] = bad_num.as_bytes().to_vec(),
                        2 => cols[7] = ["3", "255", "x", "-1", "256", "9"][kind].as_bytes().to_vec(),
                        _ => {
                            cols.remove(5);
                        }
                    }
                    lines[n] = join_cols(&cols);
                    let file = stage(c, lines.join(&b'\n'), &path, false)?;
                    let oks = gff_expect(c, &file, Some(&path), &r, Some(n), &case)?;
                    pass.add_if(oks + 1 == m, "all other records Ok");
                } else {
                    let r: Many<bed::Rec> = Many::new(m, Box::new(move |i| bed_small(seed, i, 3, Pat::Random, m)));
                    let written = bed_write(&r, false, None)?;
                    let mut lines: Vec<Vec<u8>> = lines_of(&written).into_iter().map(|l| l.to_vec()).collect();
                    ensure!(lines.len() == m, "harness: {} lines for {} records", lines.len(), m);
                    let mut cols = cols_of(&lines[n]);
                    match c.aux / 12 % 3 {
                        0 => cols[1] = bad_num.as_bytes().to_vec(),
                        1 => cols[2] = bad_num.as_bytes().to_vec(),
                        _ => {
                            // fewer than three columns
                            cols.truncate(2);
                        }
                    }
                    lines[n] = join_cols(&cols);
                    let file = stage(c, lines.join(&b'\n'), &path, false)?;
                    let oks = bed_expect(c, &file, Some(&path), &r, Some(n), &case)?;
                    pass.add_if(oks + 1 == m, "all other records Ok");
                }
                pass.add("malformed line reported as Err");
            }
        }
        pass.add(if is_gff {
            match d {
                Dialect::GFF3 => "dialect GFF3",
                Dialect::GFF2 => "dialect GFF2",
                Dialect::GTF2 => "dialect GTF2",
            }
        } else {
            "BED"
        });
        pass.add(match c.src {
            Src::Slice => "source: slice",
            Src::Cursor => "source: Cursor",
            Src::Chunked => "source: chunked double",
            Src::File => "source: Writer::to_file + Reader::from_file",
        });
        pass.add(match c.pat {
            Pat::Random => "random values",
            Pat::Equal => "all values equal",
            Pat::Ascending => "ascending values",
            Pat::Descending => "descending values",
        });
        Ok(pass)
    }

    // ---- enumeration and random strategy

    fn top(what: What, t: Tier) -> u64 {
        match (what, t) {
            (What::BedValue, _) | (What::GffValueLen, _) | (What::GffColLen, _) | (What::Comments, _) => 1 << 20,
            (_, Tier::Quick) => 131_072,
            (What::FileHist, Tier::Thorough) => 1 << 19,
            _ => 1 << 20,
        }
    }

    fn grid(whats: &[What], t: Tier) -> Vec<LCase> {
        let mut out = Vec::new();
        let mut k = 0usize;
        for seed in 1..=6u64 {
            for &what in whats {
                // quick: one seed; thorough: two seeds for the counts (microseconds per unit), six for the lengths
                let nseeds = match (t, what) {
                    (Tier::Quick, _) => 1,
                    (_, What::BedValue) | (_, What::GffValueLen) | (_, What::GffColLen) | (_, What::Comments) => 6,
                    _ => 2,
                };
                if seed > nseeds {
                    continue;
                }
                let mut values = ladder(top(what, t));
                if seed == 1 {
                    values.splice(0..0, [1u64, 2, 63, 64, 65]);
                }
                for &n in &values {
                    let heavy = matches!(what, What::BedRecords | What::GffRecords | What::FileHist | What::BadLine | What::GffValues | What::GffKeys | What::BedCols) && n > 60_000;
                    let reps = match t {
                        Tier::Thorough if n <= 70_001 => 6,
                        Tier::Thorough if heavy => 1,
                        Tier::Thorough => 2,
                        Tier::Quick if heavy => 1,
                        Tier::Quick => 2,
                    };
                    for _ in 0..reps {
                        k += 1;
                        out.push(LCase {
                            what,
                            n: n as usize,
                            aux: k,
                            pat: [Pat::Random, Pat::Equal, Pat::Ascending, Pat::Descending][(k / 2) % 4],
                            seed: seed.wrapping_mul(0x9e37_79b9) ^ (k as u64) << 11,
                            dialect: [Dialect::GFF3, Dialect::GFF2, Dialect::GTF2][k % 3],
                            src: if what == What::FileHist { Src::File } else { [Src::Slice, Src::Chunked, Src::File, Src::Cursor][(k / 3) % 4] },
                        });
                    }
                }
            }
        }
        out.sort_by_key(|c| c.n);
        out
    }

    pub fn enum_bed(t: Tier) -> Box<dyn Iterator<Item = LCase>> {
        Box::new(grid(&[What::BedRecords, What::BedCols, What::BedValue], t).into_iter())
    }
    pub fn enum_gff_records(t: Tier) -> Box<dyn Iterator<Item = LCase>> {
        Box::new(grid(&[What::GffRecords], t).into_iter())
    }
    pub fn enum_gff_attrs(t: Tier) -> Box<dyn Iterator<Item = LCase>> {
        Box::new(grid(&[What::GffKeys, What::GffValues], t).into_iter())
    }
    pub fn enum_gff_len(t: Tier) -> Box<dyn Iterator<Item = LCase>> {
        Box::new(grid(&[What::GffValueLen, What::GffColLen, What::Comments], t).into_iter())
    }
    pub fn enum_files(t: Tier) -> Box<dyn Iterator<Item = LCase>> {
        Box::new(grid(&[What::FileHist], t).into_iter())
    }
    pub fn enum_badline(t: Tier) -> Box<dyn Iterator<Item = LCase>> {
        Box::new(grid(&[What::BadLine], t).into_iter())
    }

    pub fn reach(whats: &[What], extra: &[&'static str]) -> &'static [&'static str] {
        let mut v: Vec<&'static str> = Vec::new();
        for &w in whats {
            for &c in CENTRES {
                if c <= top(w, Tier::Quick) {
                    v.push(band_label(what_name(w), c));
                }
            }
        }
        v.extend_from_slice(extra);
        Box::leak(v.into_boxed_slice())
    }

    pub fn strat_random(_t: Tier) -> BoxedStrategy<LCase> {
        let what = proptest::sample::select(vec![What::BedRecords, What::BedCols, What::BedValue, What::Comments, What::GffRecords, What::GffKeys, What::GffValues, What::GffValueLen, What::GffColLen, What::FileHist, What::BadLine]);
        let n = prop_oneof![
            3 => (proptest::sample::select(vec![256u64, 512, 1024, 4096, 8192, 16384, 32768, 65536, 70_000]), 0u64..=6).prop_map(|(c, d)| c + d - 3),
            2 => (8u32..=16, any::<u16>()).prop_map(|(bits, r)| (1u64 << bits) + (r as u64 * ((1u64 << bits) - 1) >> 16)),
            1 => 1u64..=300,
        ];
        (what, n, 0usize..10_000, proptest::sample::select(vec![Pat::Random, Pat::Equal, Pat::Ascending, Pat::Descending]), any::<u64>(), proptest::sample::select(vec![Dialect::GFF3, Dialect::GFF2, Dialect::GTF2]), proptest::sample::select(vec![Src::Slice, Src::Cursor, Src::Chunked, Src::File]))
            .prop_map(|(what, n, aux, pat, seed, dialect, src)| {
                // the parameters that cost microseconds per unit stay below ~20 000 in the random sub-check (the grid covers the rest)
                let n = if matches!(what, What::GffRecords | What::FileHist | What::BadLine | What::GffKeys | What::BedRecords) { n.min(20_003) } else { n };
                LCase { what, n: n as usize, aux, pat, seed, dialect, src: if what == What::FileHist { Src::File } else { src } }
            })
            .boxed()
    }
}

pub fn property() -> Property {
    Property {
        id: "C13",
        rule: "roundtrip: 1-8 BED records sharing k in 0..=9 auxiliary columns (text from a pool with spaces, commas, quotes, ';=', empty and non-ASCII strings; first column never starting with '#'; coordinates log-uniform over all of u64), resp. 1-5 GFF records per dialect {GFF3,GFF2,GTF2} with 0-4 distinct keys over [A-Za-z0-9_]+ and 1-3 values per key over text avoiding the dialect's three delimiters, tab, newline and not starting/ending with a quote or space, score in {'.', integer, decimal}, strand in {+,-,.,?}, phase in {.,0,1,2}; written with the library writer, '#' comment lines interleaved, read back and compared field for field (attributes as key -> ordered value list, plus record equality and accessors). inject: one line of a written file is replaced by a malformed one (bad coordinate of six kinds, dropped column, added column on one or every line, invalid phase). corrupt: 0-3 byte edits (replace/insert/delete) and truncation at one offset or at every offset. Oracle of inject/corrupt = independent strict line parser (split on newline, skip empty and '#' lines, split on tab, str::parse::<u64>, GFF exactly 9 columns, BED >= 3): no panic, one item per data line within the item cap, every Ok record equals the strict parse of its own line (a malformed line read as Ok is a violation), a file whose data lines differ in width yields at least one Err; the GFF attribute multimap is compared whenever the ninth column is an untouched one. GFF files for inject/corrupt take the eight fixed columns from the library writer and the ninth column from the harness (deterministic key order). Non-trivial: roundtrip BED k>=2 / GFF with a multi-valued attribute; inject: at least one data line; corrupt: the file differs from the written one and still has a data line (every-prefix cases: non-empty file). large-*: parameter-only cases push ONE size parameter across the ladder 255..257 ... 131071..131073 (lengths up to 2^20+-1; counts up to 2^20+-1 in the thorough tier): number of BED records, number of auxiliary BED columns, length of one BED column value (plain, with quotes, multi-byte), number of comment lines / length of one comment line, number of GFF records, number of attribute keys, number of values of one key (all-equal, ascending, descending, random), length of one attribute value or key, length of a GFF text column, histories on one path (Writer::to_file / Reader::from_file for BED and the three GFF dialects: long, 2 records, medium, 1 record), index of the one malformed line (bad number of six kinds, invalid phase, wrong column count) in a file of n+20 records (that item must be Err, every Ok item must equal the record of its own line). Readers over a slice, a Cursor, the chunked double (pieces of n bytes) and a file. Oracle = the generated records, compared streaming field for field (attributes: number of keys and the ordered value list of every key, plus record equality). Non-trivial (large) = scaled value >= 255. Distinct = distinct serialised case.",
        assumptions: &[
            "keys are [A-Za-z0-9_]+ and distinct per record; values are non-empty, avoid the dialect's key/value, pair and value delimiters (GFF3 '=' ';' ','; GFF2/GTF2 ' ' ';' NUL), tab, CR, LF and do not start or end with a quote or space (the reader trims quotes by design)",
            "no column contains tab, CR or LF; the first column does not start with '#' (comment syntax)",
            "csv quoting and CR handling are not modelled: files handed to the strict oracle contain no '\"' or CR; when a corruption introduces one only no-panic and termination are checked",
            "a coordinate starting with '0x' is read as hexadecimal by the csv layer; the strict oracle abstains on such a field",
            "an Err for a well-formed line is not a violation (the csv layer takes the expected width from the first data line)",
        ],
        subs: vec![
            Box::new(PropSub {
                name: "C13/bed-roundtrip",
                quick: 60_000,
                thorough: 1_200_000,
                shards_quick: 2,
                shards_thorough: 16,
                strat: bed::strat_rt,
                check: bed::check_rt,
                must_reach: &["k=0", "k=1", "k>=2", "k=9", "comment lines", "empty column", "column with double quote (csv-quoted)", "coordinate > i64::MAX", ">=2 records"],
                watch: true,
            }),
            Box::new(PropSub {
                name: "C13/gff-roundtrip",
                quick: 36_000,
                thorough: 720_000,
                shards_quick: 3,
                shards_thorough: 16,
                strat: gff::strat_rt,
                check: gff::check_rt,
                must_reach: &[
                    "dialect GFF3", "dialect GFF2", "dialect GTF2", "multi-valued attribute", "attribute with 3 values", ">=2 multi-valued keys", "record without attributes", "value with inner space", "score .", "score integer", "score decimal/other", "strand +", "strand -", "strand .", "strand ?", "phase .", "phase 0", "phase 1", "phase 2", "comment lines",
                ],
                watch: true,
            }),
            Box::new(PropSub {
                name: "C13/bed-inject",
                quick: 60_000,
                thorough: 1_200_000,
                shards_quick: 1,
                shards_thorough: 16,
                strat: bed::strat_inj,
                check: bed::check_inj,
                must_reach: &[
                    "injected: non-numeric coordinate", "injected: negative coordinate", "injected: decimal coordinate", "injected: empty coordinate", "injected: coordinate > u64::MAX", "injected: dropped column", "injected: added column", "injected line malformed by itself (must be Err)", "injected line has < 3 columns", "injected line well-formed, widths differ (some Err demanded)", "injection on first line", "injection on a later line", "some record still Ok", "k=0", "k>=2",
                ],
                watch: true,
            }),
            Box::new(PropSub {
                name: "C13/gff-inject",
                quick: 45_000,
                thorough: 900_000,
                shards_quick: 3,
                shards_thorough: 16,
                strat: gff::strat_inj,
                check: gff::check_inj,
                must_reach: &[
                    "dialect GFF3", "dialect GFF2", "dialect GTF2", "injected: non-numeric coordinate", "injected: negative coordinate", "injected: decimal coordinate", "injected: empty coordinate", "injected: coordinate > u64::MAX", "injected: dropped column", "injected: added column on the first data line", "injected: added column on a later line", "injected: added column on every line", "injected: phase 3..=255", "injected: phase not a small number", "some record still Ok", "multi-valued attribute read",
                ],
                watch: true,
            }),
            Box::new(PropSub {
                name: "C13/bed-corrupt",
                quick: 40_000,
                thorough: 800_000,
                shards_quick: 3,
                shards_thorough: 16,
                strat: bed::strat_corrupt,
                check: bed::check_corrupt,
                must_reach: &["truncated", "truncated inside a line", "every prefix of the file", "byte edits", "a malformed data line (read as Err)", "Ok and Err records in one file", "data lines of different widths", "invalid UTF-8", "quote/CR byte: only no-panic and termination checked"],
                watch: true,
            }),
            Box::new(PropSub {
                name: "C13/gff-corrupt",
                quick: 30_000,
                thorough: 600_000,
                shards_quick: 4,
                shards_thorough: 16,
                strat: gff::strat_corrupt,
                check: gff::check_corrupt,
                must_reach: &[
                    "dialect GFF3", "dialect GFF2", "dialect GTF2", "truncated", "truncated inside a line", "every prefix of the file", "byte edits", "a malformed data line (read as Err)", "Ok and Err records in one file", "attributes of an untouched ninth column compared", "Ok record with a touched ninth column (fixed columns compared)", "invalid UTF-8", "quote/CR byte: only no-panic and termination checked",
                ],
                watch: true,
            }),
            Box::new(ExhSub {
                name: "C13/large-bed",
                enumerate: large::enum_bed,
                check: large::check_large,
                must_reach: large::reach(&[large::What::BedRecords, large::What::BedCols, large::What::BedValue], &["source: slice", "source: Cursor", "source: chunked double", "source: Writer::to_file + Reader::from_file", "all values equal", "ascending values"]),
            }),
            Box::new(ExhSub {
                name: "C13/large-gff-records",
                enumerate: large::enum_gff_records,
                check: large::check_large,
                must_reach: large::reach(&[large::What::GffRecords], &["dialect GFF3", "dialect GFF2", "dialect GTF2", "source: Writer::to_file + Reader::from_file", "all values equal"]),
            }),
            Box::new(ExhSub {
                name: "C13/large-gff-attrs",
                enumerate: large::enum_gff_attrs,
                check: large::check_large,
                must_reach: large::reach(&[large::What::GffKeys, large::What::GffValues], &["dialect GFF3", "dialect GFF2", "dialect GTF2", "source: Writer::to_file + Reader::from_file", "all values equal", "ascending values", "descending values"]),
            }),
            Box::new(ExhSub {
                name: "C13/large-gff-len",
                enumerate: large::enum_gff_len,
                check: large::check_large,
                must_reach: large::reach(&[large::What::GffValueLen, large::What::GffColLen, large::What::Comments], &["dialect GFF3", "dialect GFF2", "dialect GTF2", "BED", "many comment lines", "one long comment line", "source: chunked double"]),
            }),
            Box::new(ExhSub {
                name: "C13/large-files",
                enumerate: large::enum_files,
                check: large::check_large,
                must_reach: large::reach(&[large::What::FileHist], &["file history: long, short, medium, single record on one path", "BED", "dialect GFF3", "dialect GFF2", "dialect GTF2"]),
            }),
            Box::new(ExhSub {
                name: "C13/large-badline",
                enumerate: large::enum_badline,
                check: large::check_large,
                must_reach: large::reach(&[large::What::BadLine], &["malformed line reported as Err", "all other records Ok", "BED", "dialect GFF3", "dialect GFF2", "dialect GTF2"]),
            }),
            Box::new(PropSub {
                name: "C13/large-random",
                quick: 1_200,
                thorough: 24_000,
                shards_quick: 8,
                shards_thorough: 16,
                strat: large::strat_random,
                check: large::check_large,
                must_reach: &[
                    "scaled: number of BED records", "scaled: number of auxiliary BED columns", "scaled: length of a BED column value", "scaled: comment lines (count / length)", "scaled: number of GFF records", "scaled: number of attribute keys", "scaled: number of values of one key", "scaled: length of an attribute value / key", "scaled: length of a GFF text column", "scaled: file history: records of the long file", "scaled: index of the malformed line",
                ],
                watch: true,
            }),
        ],
    }
}
