//! C01 — pairwise alignment is optimal, its path achieves the score, and the
//! result does not depend on the aligner's history.

use crate::engine::gen::{apply_edits, edit, seq};
use crate::engine::*;
use crate::oracles::align::*;
use crate::{ensure, fail};
use bio::alignment::pairwise::Aligner;
use bio::alignment::Alignment;
use proptest::prelude::*;
use serde::{Deserialize, Serialize};

#[derive(Serialize, Deserialize, Debug, Clone)]
pub struct Call {
    pub mode: Mode,
    pub x: B,
    pub y: B,
}

#[derive(Serialize, Deserialize, Debug, Clone)]
pub struct Case {
    pub spec: ScoreSpec,
    /// capacity hints given to the constructor (None = Aligner::with_scoring default)
    pub capacity: Option<(usize, usize)>,
    /// earlier calls on the same aligner object
    pub history: Vec<Call>,
    pub call: Call,
    /// value of the public `Scoring::match_scores` field (a (match, mismatch) summary the banded aligner
    /// uses as a hint for its k-mer backbone). The unbanded aligner's model is defined by `match_fn`
    /// alone, whatever summary accompanies it.
    #[serde(default)]
    pub match_scores: Option<(i32, i32)>,
}

pub fn run_call(al: &mut Aligner<TableFn>, c: &Call) -> Alignment {
    match c.mode {
        Mode::Custom => al.custom(&c.x, &c.y),
        Mode::Global => al.global(&c.x, &c.y),
        Mode::Semiglobal => al.semiglobal(&c.x, &c.y),
        Mode::Local => al.local(&c.x, &c.y),
    }
}

fn new_aligner(c: &Case) -> Aligner<TableFn> {
    let mut sc = c.spec.scoring(false);
    sc.match_scores = c.match_scores;
    // a scheme without clip penalties and without a summary is exactly what the plain constructors build:
    // every other such case goes through Aligner::new / Aligner::with_capacity instead of the *_scoring ones
    let plain = c.spec.clips.iter().all(|p| p.is_none()) && c.match_scores.is_none() && (c.call.x.len() + c.call.y.len()) % 2 == 1;
    match c.capacity {
        None if plain => Aligner::new(c.spec.gap_open, c.spec.gap_extend, c.spec.table_fn()),
        Some((m, n)) if plain => Aligner::with_capacity(m, n, c.spec.gap_open, c.spec.gap_extend, c.spec.table_fn()),
        None => Aligner::with_scoring(sc),
        Some((m, n)) => Aligner::with_capacity_and_scoring(m, n, sc),
    }
}

pub fn small(x: &[u8], y: &[u8]) -> bool {
    (x.len() + 1) * (y.len() + 1) <= 100
}

/// optimum under the documented model; exhaustive definition for small inputs (cross-checking
/// the O(mn) reference), reference otherwise
pub fn optimum(x: &[u8], y: &[u8], sp: &ScoreSpec, mode: Mode) -> Result<(i64, bool), Stop> {
    let clips = sp.mode_clips(mode);
    let r = opt_reference(x, y, sp, clips);
    if small(x, y) {
        let d = opt_by_definition(x, y, sp, clips);
        ensure!(d == r, "harness oracle self-check failed (definition {} vs reference {}) for x={:?} y={:?} {:?} {:?} — not a finding about rust-bio", d, r, lossy(x), lossy(y), sp, mode);
        Ok((d, true))
    } else {
        Ok((r, false))
    }
}

pub fn check_alignment(what: &str, a: &Alignment, call: &Call, sp: &ScoreSpec) -> Result<(Validated, bool), Stop> {
    let v = match validate(a, &call.x, &call.y, sp, call.mode) {
        Ok(v) => v,
        Err(e) => fail!("{}: invalid alignment for {} x={:?} y={:?} scoring={:?}: {} (alignment {:?})", what, call.mode.name(), lossy(&call.x), lossy(&call.y), sp, e, a),
    };
    ensure!(
        v.recomputed == a.score as i64,
        "{}: reported score {} but the operations/coordinates re-score to {} ({} x={:?} y={:?} scoring={:?} alignment {:?})",
        what,
        a.score,
        v.recomputed,
        call.mode.name(),
        lossy(&call.x),
        lossy(&call.y),
        sp,
        a
    );
    let (opt, exh) = optimum(&call.x, &call.y, sp, call.mode)?;
    ensure!(
        opt == a.score as i64,
        "{}: reported score {} but the optimum of the documented model is {} ({} x={:?} y={:?} scoring={:?} alignment {:?})",
        what,
        a.score,
        opt,
        call.mode.name(),
        lossy(&call.x),
        lossy(&call.y),
        sp,
        a
    );
    Ok((v, exh))
}

pub fn check(c: &Case) -> R {
    let sp = &c.spec;
    let mut fresh = new_aligner(c);
    let a_fresh = run_call(&mut fresh, &c.call);
    let (v, exh) = check_alignment("fresh aligner", &a_fresh, &c.call, sp)?;
    // a clone of the aligner (taken after the call above, i.e. with used scratch space) is the same aligner
    {
        let mut cl = fresh.clone();
        let a_cl = run_call(&mut cl, &c.call);
        ensure!(a_cl == a_fresh, "a clone() of the aligner (scoring {:?}) answers the call {:?} with {:?}, the aligner it was cloned from with {:?}", sp, c.call, a_cl, a_fresh);
        let mut cf = Aligner::with_scoring(ScoreSpec { sigma: 1, table: vec![1], gap_open: -5, gap_extend: -1, clips: [Some(0), None, Some(-1), None] }.scoring(false));
        cf.clone_from(&fresh);
        let a_cf = run_call(&mut cf, &c.call);
        ensure!(a_cf == a_fresh, "an aligner overwritten by clone_from() (scoring {:?}) answers the call {:?} with {:?}, the aligner it was cloned from with {:?}", sp, c.call, a_cf, a_fresh);
    }

    if !c.history.is_empty() {
        let mut used = new_aligner(c);
        for (k, h) in c.history.iter().enumerate() {
            let a = run_call(&mut used, h);
            check_alignment(if k == 0 { "history call #1" } else { "later history call (reused aligner)" }, &a, h, sp)?;
        }
        let a_used = run_call(&mut used, &c.call);
        ensure!(
            a_used == a_fresh,
            "result depends on the aligner's history: after {:?} the call {:?} returned {:?}, a fresh aligner returned {:?} (scoring {:?})",
            c.history,
            c.call,
            a_used,
            a_fresh,
            sp
        );
        // the same call twice on the same object
        let again = run_call(&mut used, &c.call);
        ensure!(again == a_fresh, "repeating the call on the same aligner changed the result: {:?} vs {:?}", again, a_fresh);
    }

    let (m, n) = (c.call.x.len(), c.call.y.len());
    let mut p = Pass::new((m >= 2 && n >= 2 && (v.has_gap || v.has_clip)) || !c.history.is_empty());
    p.add(c.call.mode.name());
    p.add_if(v.has_clip, "clipped end");
    p.add_if(v.has_gap, "gap in path");
    p.add_if(m == 0 || n == 0, "empty input");
    p.add_if(m == 0 && n == 0, "both empty");
    p.add_if(sp.clips.iter().any(|c| c.is_none()), "MIN_SCORE penalty present");
    p.add_if(sp.clips.iter().any(|c| matches!(c, Some(v) if *v < 0)), "negative finite clip penalty");
    p.add_if(sp.gap_extend == 0, "gap_extend=0");
    p.add_if(sp.gap_open == 0, "gap_open=0");
    p.add_if(!c.history.is_empty(), "reuse");
    p.add_if(exh, "definition oracle (all sub-range pairs)");
    p.add_if(!exh, "reference DP oracle");
    p.add_if(c.capacity.is_some(), "explicit capacity");
    p.add_if(c.match_scores.is_some(), "match_scores summary set independently of match_fn");
    Ok(p)
}

// ---------------------------------------------------------------------------
// generators (shared with C02)

pub fn table(sigma: u8) -> BoxedStrategy<Vec<i32>> {
    let s = sigma as usize;
    prop_oneof![
        // +1 / -1
        1 => Just((0..s * s).map(|k| if k / s == k % s { 1 } else { -1 }).collect::<Vec<i32>>()),
        // match >= 0, mismatch <= 0, constant
        3 => (0i32..=5, -6i32..=0).prop_map(move |(m, mm)| (0..s * s).map(|k| if k / s == k % s { m } else { mm }).collect::<Vec<i32>>()),
        // match > 0 / mismatch <= 0 per pair
        2 => proptest::collection::vec((1i32..=6, -6i32..=0), s * s).prop_map(move |v| v.iter().enumerate().map(|(k, (m, mm))| if k / s == k % s { *m } else { *mm }).collect::<Vec<i32>>()),
        // fully arbitrary, asymmetric, "matches" may be negative
        2 => proptest::collection::vec(-6i32..=6, s * s),
    ]
    .boxed()
}

pub fn clip() -> BoxedStrategy<Option<i32>> {
    prop_oneof![3 => Just(None), 2 => Just(Some(0)), 4 => (-8i32..=-1).prop_map(Some)].boxed()
}

pub fn spec(sigma: u8) -> BoxedStrategy<ScoreSpec> {
    (table(sigma), -6i32..=0, -4i32..=0, [clip(), clip(), clip(), clip()], 0u8..10)
        .prop_map(move |(table, gap_open, gap_extend, clips, same)| {
            // in a fifth of the cases all four clip penalties are equal (classic modes)
            let clips = if same < 2 { [clips[0]; 4] } else { clips };
            ScoreSpec { sigma, table, gap_open, gap_extend, clips }
        })
        .boxed()
}

pub fn seq_pair(sigma: u8, max: usize) -> BoxedStrategy<(Vec<u8>, Vec<u8>)> {
    prop_oneof![
        3 => (seq(sigma, b'a', 0..=max), seq(sigma, b'a', 0..=max)),
        3 => (seq(sigma, b'a', 0..=max), proptest::collection::vec(edit(sigma, b'a'), 0..=4)).prop_map(move |(x, ed)| {
            let mut y = apply_edits(&x, &ed);
            y.truncate(max);
            (x, y)
        }),
        // x (noisy) embedded in y, or the other way round
        2 => (seq(sigma, b'a', 0..=max / 2), proptest::collection::vec(edit(sigma, b'a'), 0..=2), seq(sigma, b'a', 0..=max / 4), seq(sigma, b'a', 0..=max / 4), any::<bool>()).prop_map(move |(x, ed, l, r, swap)| {
            let mut y = l;
            y.extend(apply_edits(&x, &ed));
            y.extend(r);
            y.truncate(max);
            if swap { (y, x) } else { (x, y) }
        }),
    ]
    .boxed()
}

pub fn mode() -> BoxedStrategy<Mode> {
    prop_oneof![5 => Just(Mode::Custom), 2 => Just(Mode::Global), 2 => Just(Mode::Semiglobal), 2 => Just(Mode::Local)].boxed()
}

pub fn call(sigma: u8, max: usize) -> BoxedStrategy<Call> {
    (mode(), seq_pair(sigma, max)).prop_map(|(mode, (x, y))| Call { mode, x: B(x), y: B(y) }).boxed()
}

fn strat_sized(max: usize, hist_max: usize) -> BoxedStrategy<Case> {
    (1u8..=4)
        .prop_flat_map(move |sigma| {
            (
                spec(sigma),
                prop_oneof![3 => Just(None), 1 => (0usize..=3, 0usize..=3).prop_map(Some)],
                prop_oneof![1 => Just(Vec::new()).boxed(), 1 => proptest::collection::vec(call(sigma, hist_max), 1..=3).boxed()],
                call(sigma, max),
            )
        })
        .prop_map(|(spec, capacity, history, call)| Case { spec, capacity, history, call, match_scores: None })
        .prop_flat_map(|c| (Just(c), proptest::option::weighted(0.25, (0i32..=6, -6i32..=0))))
        .prop_map(|(mut c, ms)| {
            c.match_scores = ms;
            c
        })
        .boxed()
}

pub fn strat_small(t: Tier) -> BoxedStrategy<Case> {
    match t {
        Tier::Quick => strat_sized(8, 10),
        Tier::Thorough => strat_sized(9, 12),
    }
}

pub fn strat_large(t: Tier) -> BoxedStrategy<Case> {
    match t {
        Tier::Quick => strat_sized(40, 40),
        Tier::Thorough => strat_sized(80, 60),
    }
}


// ---------------------------------------------------------------------------
// bounded-exhaustive: every pair over {a,b} up to length 3 under a grid of scoring schemes

pub fn small_strings(max: usize) -> Vec<Vec<u8>> {
    let mut out: Vec<Vec<u8>> = vec![vec![]];
    let mut cur: Vec<Vec<u8>> = vec![vec![]];
    for _ in 0..max {
        let mut next = Vec::new();
        for s in &cur {
            for c in [b'a', b'b'] {
                let mut t = s.clone();
                t.push(c);
                next.push(t);
            }
        }
        out.extend(next.iter().cloned());
        cur = next;
    }
    out
}

pub fn exhaustive_specs(t: Tier) -> Vec<ScoreSpec> {
    let tables: Vec<Vec<i32>> = vec![vec![1, -1, -1, 1], vec![2, -3, -3, 2], vec![1, -2, 0, 1], vec![0, 1, -1, -1]];
    let gaps: Vec<(i32, i32)> = match t {
        Tier::Quick => vec![(0, 0), (0, -1), (-1, 0), (-2, -1)],
        Tier::Thorough => vec![(0, 0), (0, -1), (-1, 0), (-2, -1), (-5, -1), (-1, -3)],
    };
    let clipvals: Vec<Option<i32>> = match t {
        Tier::Quick => vec![None, Some(0), Some(-2)],
        Tier::Thorough => vec![None, Some(0), Some(-1), Some(-4)],
    };
    let mut v = Vec::new();
    for tb in &tables {
        for (go, ge) in &gaps {
            for a in &clipvals {
                for b in &clipvals {
                    for c in &clipvals {
                        for d in &clipvals {
                            v.push(ScoreSpec { sigma: 2, table: tb.clone(), gap_open: *go, gap_extend: *ge, clips: [*a, *b, *c, *d] });
                        }
                    }
                }
            }
        }
    }
    v
}

fn enumerate(t: Tier) -> Box<dyn Iterator<Item = Case>> {
    let strings = std::sync::Arc::new(small_strings(3));
    let specs = exhaustive_specs(t);
    let n = strings.len();
    Box::new(specs.into_iter().flat_map(move |sp| {
        let strings = strings.clone();
        // the standard modes ignore the clip penalties: run them only for the first clip combination of a (table, gap) block
        let std_modes = sp.clips == [None; 4];
        (0..n * n).flat_map(move |k| {
            let (x, y) = (strings[k / n].clone(), strings[k % n].clone());
            let modes: Vec<Mode> = if std_modes { vec![Mode::Custom, Mode::Global, Mode::Semiglobal, Mode::Local] } else { vec![Mode::Custom] };
            let sp = sp.clone();
            modes.into_iter().map(move |mode| Case { spec: sp.clone(), capacity: None, history: Vec::new(), call: Call { mode, x: B(x.clone()), y: B(y.clone()) }, match_scores: None })
        })
    }))
}


// ---------------------------------------------------------------------------
// large scale: sequence lengths across 255..257, 511..513, 1023..1025 over the letters, over a few
// extreme byte values and over all 256 byte values (0x00 and 0xFF included), with an earlier call of
// the same shape on the same aligner

pub mod large {
    use super::*;
    use crate::oracles::prng::Sm;

    #[derive(Serialize, Deserialize, Debug, Clone)]
    pub struct Case {
        pub spec: ScoreSpec,
        pub mode: Mode,
        pub m: usize,
        pub n: usize,
        /// 0: letters of the score table, 1: the bytes 0x00 0x01 0x7f 0x80 0xfe 0xff, 2: all 256 byte values
        pub content: u8,
        pub seed: u64,
        /// y is x with this many random edits (then cut / padded to length n); 65535 = independent
        pub edits: u16,
        /// an earlier call on the same aligner with sequences of the same lengths in this mode
        pub earlier: Option<Mode>,
    }

    fn symbols(g: &mut Sm, len: usize, content: u8, sigma: u8) -> Vec<u8> {
        const EXTREME: [u8; 6] = [0x00, 0x01, 0x7f, 0x80, 0xfe, 0xff];
        (0..len)
            .map(|_| match content {
                0 => b'a' + g.below(sigma as u64) as u8,
                1 => EXTREME[g.below(6) as usize],
                _ => g.next() as u8,
            })
            .collect()
    }

    pub fn sequences(c: &Case, salt: u64) -> (Vec<u8>, Vec<u8>) {
        gen_pair(c.seed ^ salt, c.m, c.n, c.content, c.spec.sigma, c.edits)
    }

    /// x random over the chosen content, y = x with `edits` random edits (65535: independent), cut / padded to n
    pub fn gen_pair(seed: u64, m: usize, n: usize, content: u8, sigma: u8, edits: u16) -> (Vec<u8>, Vec<u8>) {
        gen_pair_junk(seed, m, n, content, sigma, edits, [0; 4])
    }

    /// as `gen_pair`, but x and y additionally get unrelated prefixes / suffixes of the given lengths
    /// (x-prefix, y-prefix, x-suffix, y-suffix; the core shrinks accordingly), over disjoint symbol sets,
    /// so that optimal alignments clip or gap whole ends
    pub fn gen_pair_junk(seed: u64, m: usize, n: usize, content: u8, sigma: u8, edits: u16, junk: [u8; 4]) -> (Vec<u8>, Vec<u8>) {
        struct C {
            m: usize,
            n: usize,
            content: u8,
            edits: u16,
            spec: Sg,
        }
        struct Sg {
            sigma: u8,
        }
        let c = C { m, n, content, edits, spec: Sg { sigma } };
        let mut g = Sm::new(seed);
        let x = symbols(&mut g, c.m, c.content, c.spec.sigma);
        let mut y = if c.edits == u16::MAX {
            symbols(&mut g, c.n, c.content, c.spec.sigma)
        } else {
            let mut y = x.clone();
            for _ in 0..c.edits {
                let s = symbols(&mut g, 1, c.content, c.spec.sigma)[0];
                match g.below(3) {
                    0 if !y.is_empty() => {
                        let i = g.below(y.len() as u64) as usize;
                        y[i] = s;
                    }
                    1 => {
                        let i = g.below(y.len() as u64 + 1) as usize;
                        y.insert(i, s);
                    }
                    _ if !y.is_empty() => {
                        let i = g.below(y.len() as u64) as usize;
                        y.remove(i);
                    }
                    _ => {}
                }
            }
            y
        };
        y.truncate(c.n);
        while y.len() < c.n {
            y.push(symbols(&mut g, 1, c.content, c.spec.sigma)[0]);
        }
        let mut x = x;
        // unrelated ends: x gets copies of one symbol, y of another one
        let (jx, jy) = match c.content {
            0 => (b'a', b'a' + (c.spec.sigma - 1)),
            _ => (0x00u8, 0xffu8),
        };
        let put = |v: &mut Vec<u8>, len: usize, sym: u8, front: bool| {
            let len = len.min(v.len());
            if front {
                for z in v.iter_mut().take(len) {
                    *z = sym;
                }
            } else {
                let l = v.len();
                for z in v.iter_mut().skip(l - len) {
                    *z = sym;
                }
            }
        };
        put(&mut x, junk[0] as usize, jx, true);
        put(&mut y, junk[1] as usize, jy, true);
        put(&mut x, junk[2] as usize, jx, false);
        put(&mut y, junk[3] as usize, jy, false);
        (x, y)
    }

    pub fn check(c: &Case) -> R {
        ensure!(c.m <= 1100 && c.n <= 1100, "harness: case outside the large-scale domain");
        let (x, y) = sequences(c, 0);
        let call = Call { mode: c.mode, x: B(x), y: B(y) };
        let mut fresh = Aligner::with_scoring(c.spec.scoring(false));
        let a_fresh = run_call(&mut fresh, &call);
        let (v, _) = check_alignment("fresh aligner (large)", &a_fresh, &call, &c.spec)?;
        if let Some(em) = c.earlier {
            let (x0, y0) = sequences(c, 0x5eed);
            let mut used = Aligner::with_scoring(c.spec.scoring(false));
            let first = Call { mode: em, x: B(x0), y: B(y0) };
            let a0 = run_call(&mut used, &first);
            check_alignment("earlier call of the same shape (large)", &a0, &first, &c.spec)?;
            let a_used = run_call(&mut used, &call);
            ensure!(a_used == a_fresh, "result depends on the aligner's history (same-shape earlier call in {} mode, lengths {}x{}): score {} vs {} on a fresh aligner, coordinates x {}..{} y {}..{} vs x {}..{} y {}..{}", em.name(), c.m, c.n, a_used.score, a_fresh.score, a_used.xstart, a_used.xend, a_used.ystart, a_used.yend, a_fresh.xstart, a_fresh.xend, a_fresh.ystart, a_fresh.yend);
        }
        let mut p = Pass::new(v.has_gap || v.has_clip);
        p.add(c.mode.name());
        for (len, what) in [(c.m, "x"), (c.n, "y")] {
            match len {
                255..=257 => p.add(if what == "x" { "|x| in 255..257" } else { "|y| in 255..257" }),
                511..=513 => p.add(if what == "x" { "|x| in 511..513" } else { "|y| in 511..513" }),
                1023..=1025 => p.add(if what == "x" { "|x| in 1023..1025" } else { "|y| in 1023..1025" }),
                _ => {}
            }
        }
        p.add_if((c.m + 1) * (c.n + 1) >= 65536, "matrix of 65536 or more cells");
        p.add_if(c.content == 1, "extreme byte values (0x00, 0xff, ..)");
        p.add_if(c.content == 2, "all byte values");
        p.add_if(c.earlier.is_some(), "reuse with an earlier call of the same shape");
        Ok(p)
    }

    pub fn strat(_t: Tier) -> BoxedStrategy<Case> {
        let len = || prop_oneof![4 => proptest::sample::select(vec![255usize, 256, 257]), 2 => proptest::sample::select(vec![511usize, 512, 513]), 1 => proptest::sample::select(vec![1023usize, 1024, 1025]), 2 => 258usize..=400, 1 => 100usize..=254];
        (1u8..=4)
            .prop_flat_map(move |sigma| (spec(sigma), mode(), len(), len(), 0u8..=2, any::<u64>(), prop_oneof![4 => 0u16..=12, 2 => 12u16..=100, 1 => Just(u16::MAX)], proptest::option::weighted(0.4, mode())))
            .prop_map(|(spec, mode, m, n, content, seed, edits, earlier)| Case { spec, mode, m, n, content, seed, edits, earlier })
            .boxed()
    }
}

pub fn property() -> Property {
    Property {
        id: "C01",
        rule: "sequences over 1-4 letters (independent, mutated copies, embedded copies; empty included), substitution tables in 4 styles incl. arbitrary asymmetric ones, gap_open in -6..=0, gap_extend in -4..=0, each clip penalty independently MIN_SCORE / 0 / -8..=-1, mode in {custom, global, semiglobal, local}, 0-3 earlier calls on the same aligner. Oracle: score == max over all sub-range pairs of plain Gotoh + clip penalties (enumerated for (m+1)(n+1)<=100, O(mn) reference DP cross-checked against it otherwise); path validator re-scores the operations; reused aligner == fresh aligner. Non-trivial = (m,n>=2 and the returned alignment has a gap or a clipped end) or a reuse history; distinct = distinct serialised case.",
        assumptions: &[
            "|substitution score| <= 6, |gap| <= 6, |finite clip| <= 8, lengths <= 80: i32 arithmetic with the MIN_SCORE sentinel cannot overflow ('reasonable scoring parameters')",
            "gap runs split by a clip operation in the operation list are charged two gap opens (convention of the repository's own fuzz target)",
        ],
        subs: vec![
            Box::new(PropSub { name: "C01/small-definition", quick: 480_000, thorough: 12_000_000, shards_quick: 16, shards_thorough: 16, strat: strat_small, check, must_reach: &["custom", "global", "semiglobal", "local", "clipped end", "gap in path", "empty input", "reuse", "definition oracle (all sub-range pairs)", "gap_extend=0"], watch: true }),
            Box::new(PropSub { name: "C01/large", quick: 1_600, thorough: 40_000, shards_quick: 16, shards_thorough: 16, strat: large::strat, check: large::check, must_reach: &["|x| in 255..257", "|y| in 255..257", "|x| in 511..513", "|x| in 1023..1025", "matrix of 65536 or more cells", "extreme byte values (0x00, 0xff, ..)", "all byte values", "reuse with an earlier call of the same shape", "custom", "global", "semiglobal", "local"], watch: true }),
            Box::new(ExhSub { name: "C01/exhaustive", enumerate, check, must_reach: &["custom", "global", "semiglobal", "local", "clipped end", "gap in path", "both empty"] }),
            Box::new(PropSub { name: "C01/large-reference", quick: 96_000, thorough: 2_000_000, shards_quick: 16, shards_thorough: 16, strat: strat_large, check, must_reach: &["reference DP oracle", "reuse"], watch: true }),
        ],
    }
}
