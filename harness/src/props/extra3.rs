//! `CNN/copies`: an object obtained by `clone()` or by a serde round trip (JSON) of an object is the same
//! kind of object and must answer every query like the original - also after the original has been changed
//! (the copy keeps the old state) and after the copy has been changed (the original keeps its state).
//! The original's answers are decided by the other sub-checks of the property; here they are only compared.

use crate::engine::*;
use crate::{ensure, fail};
use proptest::prelude::*;
use serde::de::DeserializeOwned;
use serde::{Deserialize, Serialize};

pub fn serde_copy<T: Serialize + DeserializeOwned>(what: &str, x: &T) -> Result<T, Stop> {
    let s = match serde_json::to_string(x) {
        Ok(s) => s,
        Err(e) => fail!("{}: serialisation (serde_json) failed: {}", what, e),
    };
    match serde_json::from_str(&s) {
        Ok(v) => Ok(v),
        Err(e) => fail!("{}: the serialised object does not deserialise: {} (document {})", what, e, &s[..s.len().min(300)]),
    }
}

// ---------------------------------------------------------------------------------------------
// C18: BitEnc, SmallInts, Fenwick trees
pub mod c18 {
    use super::*;
    use bio::data_structures::bit_tree::{MaxBitTree, SumBitTree};
    use bio::data_structures::bitenc::BitEnc;
    use bio::data_structures::smallints::SmallInts;

    #[derive(Serialize, Deserialize, Debug, Clone)]
    pub struct Case {
        pub width: u8,
        pub values: Vec<u8>,
        pub ints: Vec<u64>,
        /// applied to the original after the copies were taken: (position fraction, value)
        pub later: Vec<(u16, u8)>,
    }

    pub fn check(c: &Case) -> R {
        let w = c.width as usize;
        ensure!((1..=8).contains(&w), "harness: width {}", w);
        let mask = ((1u16 << w) - 1) as u8;
        // ---- BitEnc
        let mut be = BitEnc::new(w);
        for &v in &c.values {
            be.push(v);
        }
        let model: Vec<u8> = c.values.iter().map(|v| v & mask).collect();
        let cl = be.clone();
        let sd = serde_copy("BitEnc", &be)?;
        // a recycled target of another width holding other data
        let mut cf = BitEnc::new(1 + (w + 2) % 8);
        for i in 0..(c.later.len() * 7 + 3) {
            cf.push(i as u8);
        }
        cf.clone_from(&be);
        for (&(f, v), k) in c.later.iter().zip(0..) {
            if k % 2 == 0 || model.is_empty() {
                be.push(v);
            } else {
                be.set(gen::idx(f, model.len() - 1), v);
            }
        }
        for (name, copy) in [("clone()", &cl), ("serde round trip", &sd), ("clone_from() into an object built with another configuration", &cf)] {
            let got: Vec<u8> = copy.iter().take(model.len() + 2).collect();
            ensure!(got == model && copy.len() == model.len() && copy.nr_symbols() == model.len(), "BitEnc(width {}) holding {:?}: its {} taken before {} later push/set calls on the original iterates {:?} (len {})", w, model, name, c.later.len(), got, copy.len());
            for i in 0..model.len() {
                ensure!(copy.get(i) == Some(model[i]), "BitEnc(width {}) holding {:?}: {} get({}) = {:?}", w, model, name, i, copy.get(i));
            }
            ensure!(copy.get(model.len()).is_none(), "BitEnc(width {}) holding {:?}: {} get(len) = {:?}", w, model, name, copy.get(model.len()));
            // the copy is a full BitEnc: it can be extended
            let mut grown = copy.clone();
            grown.push(mask);
            grown.push_values(3, 0);
            let mut want = model.clone();
            want.push(mask);
            want.extend([0, 0, 0]);
            let got: Vec<u8> = grown.iter().take(want.len() + 2).collect();
            ensure!(got == want, "BitEnc(width {}) holding {:?}: {} extended by push({}) and push_values(3, 0) iterates {:?}, expected {:?}", w, model, name, mask, got, want);
        }
        // ---- SmallInts
        let mut si: SmallInts<u8, u64> = SmallInts::new();
        for &v in &c.ints {
            si.push(v);
        }
        let cl = si.clone();
        let sd = serde_copy("SmallInts<u8,u64>", &si)?;
        let mut cf: SmallInts<u8, u64> = SmallInts::from_elem(9, c.later.len() + 2);
        cf.push(100_000);
        cf.clone_from(&si);
        for &(f, v) in &c.later {
            if c.ints.is_empty() {
                si.push(v as u64 * 3);
            } else {
                si.set(gen::idx(f, c.ints.len() - 1), v as u64 * 300);
            }
        }
        for (name, copy) in [("clone()", &cl), ("serde round trip", &sd), ("clone_from() into an object built with another configuration", &cf)] {
            let got: Vec<u64> = copy.iter().take(c.ints.len() + 2).collect();
            ensure!(got == c.ints && copy.len() == c.ints.len() && copy.decompress() == c.ints, "SmallInts<u8,u64> holding {:?}: its {} taken before later changes of the original iterates {:?}, decompress() = {:?}", c.ints, name, got, copy.decompress());
            for i in 0..c.ints.len() {
                ensure!(copy.get(i) == Some(c.ints[i]), "SmallInts<u8,u64> holding {:?}: {} get({}) = {:?}", c.ints, name, i, copy.get(i));
            }
            let mut grown = copy.clone();
            grown.push(70_000);
            grown.push(7);
            if !c.ints.is_empty() {
                grown.set(0, 255);
            }
            let mut want = c.ints.clone();
            want.push(70_000);
            want.push(7);
            if !c.ints.is_empty() {
                want[0] = 255;
            }
            ensure!(grown.decompress() == want, "SmallInts<u8,u64> holding {:?}: {} after push(70000), push(7), set(0, 255) holds {:?}, expected {:?}", c.ints, name, grown.decompress(), want);
        }
        // ---- Fenwick trees
        let n = c.ints.len();
        let mut sum: SumBitTree<i64> = SumBitTree::new(n);
        let mut mx: MaxBitTree<(u32, u32)> = MaxBitTree::new(n);
        for (i, &v) in c.ints.iter().enumerate() {
            sum.set(i, (v % 1000) as i64);
            mx.set(i, ((v % 1000) as u32, i as u32));
        }
        let (s0, m0): (Vec<i64>, Vec<(u32, u32)>) = ((0..n).map(|i| sum.get(i)).collect(), (0..n).map(|i| mx.get(i)).collect());
        let (scl, ssd) = (sum.clone(), serde_copy("SumBitTree<i64>", &sum)?);
        let (mcl, msd) = (mx.clone(), serde_copy("MaxBitTree<(u32,u32)>", &mx)?);
        let (mut scf, mut mcf): (SumBitTree<i64>, MaxBitTree<(u32, u32)>) = (SumBitTree::new(n + 3), MaxBitTree::new(n / 2));
        scf.set(0, 77);
        scf.clone_from(&sum);
        mcf.clone_from(&mx);
        for &(f, v) in &c.later {
            if n > 0 {
                sum.set(gen::idx(f, n - 1), v as i64 + 1);
                mx.set(gen::idx(f, n - 1), (5000 + v as u32, 0));
            }
        }
        for (name, st, mt) in [("clone()", &scl, &mcl), ("serde round trip", &ssd, &msd), ("clone_from() into an object built with another configuration", &scf, &mcf)] {
            let (s1, m1): (Vec<i64>, Vec<(u32, u32)>) = ((0..n).map(|i| st.get(i)).collect(), (0..n).map(|i| mt.get(i)).collect());
            ensure!(s1 == s0, "SumBitTree over {:?}: prefix sums of its {} are {:?}, the original had {:?}", c.ints, name, s1, s0);
            ensure!(m1 == m0, "MaxBitTree over {:?}: prefix maxima of its {} are {:?}, the original had {:?}", c.ints, name, m1, m0);
        }
        let mut pass = Pass::new(model.len() >= 2 || c.ints.len() >= 2);
        pass.add_if(!c.later.is_empty(), "original changed after the copies were taken");
        pass.add_if(model.len() > 32 / w, "BitEnc spans several blocks");
        pass.add_if(c.ints.iter().any(|&v| v >= 255), "SmallInts holds big values");
        Ok(pass)
    }

    pub fn strat(_t: Tier) -> BoxedStrategy<Case> {
        let int = prop_oneof![3 => 0u64..=254, 1 => Just(255u64), 2 => 256u64..=1000, 1 => any::<u64>()];
        (1u8..=8, proptest::collection::vec(any::<u8>(), 0..=40), proptest::collection::vec(int, 0..=20), proptest::collection::vec(any::<(u16, u8)>(), 0..=4)).prop_map(|(width, values, ints, later)| Case { width, values, ints, later }).boxed()
    }
}

// ---------------------------------------------------------------------------------------------
// C17: RankSelect and WaveletMatrix; C04: Occ; C03: SampledSuffixArray (owned components)
pub mod c17 {
    use super::*;
    use bio::data_structures::rank_select::RankSelect;
    use bio::data_structures::wavelet_matrix::WaveletMatrix;
    use bv::{BitVec, BitsMut};

    #[derive(Serialize, Deserialize, Debug, Clone)]
    pub struct Case {
        pub bits: Vec<bool>,
        pub k: usize,
        pub text: B,
    }

    pub fn check(c: &Case) -> R {
        let n = c.bits.len();
        ensure!(n >= 1 && c.k >= 1, "harness: empty bit vector / k=0");
        let mut bv: BitVec<u8> = BitVec::new_fill(false, n as u64);
        for (i, &b) in c.bits.iter().enumerate() {
            bv.set_bit(i as u64, b);
        }
        let rs = RankSelect::new(bv, c.k);
        let mut cf = {
            let mut other: BitVec<u8> = BitVec::new_fill(true, (n as u64 * 3) % 71 + 1);
            other.set_bit(0, false);
            RankSelect::new(other, c.k + 1)
        };
        cf.clone_from(&rs);
        let copies = [("clone()", rs.clone()), ("serde round trip", serde_copy("RankSelect", &rs)?), ("clone_from() into an object built with another configuration", cf)];
        for (name, cp) in &copies {
            for i in 0..=n as u64 + 1 {
                ensure!(cp.rank_1(i) == rs.rank_1(i) && cp.rank_0(i) == rs.rank_0(i), "RankSelect over {:?} k={}: {} answers rank_1({}) = {:?}, rank_0 = {:?}; the original {:?} / {:?}", c.bits, c.k, name, i, cp.rank_1(i), cp.rank_0(i), rs.rank_1(i), rs.rank_0(i));
                ensure!(cp.select_1(i) == rs.select_1(i) && cp.select_0(i) == rs.select_0(i), "RankSelect over {:?} k={}: {} answers select_1({}) = {:?}, select_0 = {:?}; the original {:?} / {:?}", c.bits, c.k, name, i, cp.select_1(i), cp.select_0(i), rs.select_1(i), rs.select_0(i));
            }
        }
        let text: &[u8] = &c.text;
        if !text.is_empty() {
            let wm = WaveletMatrix::new(text);
            let mut cf = WaveletMatrix::new(b"TTGACN$");
            cf.clone_from(&wm);
            let copies = [("clone()", wm.clone()), ("serde round trip", serde_copy("WaveletMatrix", &wm)?), ("clone_from() into an object built with another configuration", cf)];
            for (name, cp) in &copies {
                for p in 0..text.len() as u64 {
                    for &s in b"ACGTN$" {
                        ensure!(cp.rank(s, p) == wm.rank(s, p), "WaveletMatrix over {:?}: {} answers rank({:?}, {}) = {}, the original {}", lossy(text), name, s as char, p, cp.rank(s, p), wm.rank(s, p));
                    }
                }
            }
        }
        let mut pass = Pass::new(n >= 2);
        pass.add_if(n > 32 * c.k, "bit vector spans several superblocks");
        pass.add_if(!text.is_empty(), "wavelet matrix compared");
        Ok(pass)
    }

    pub fn strat(_t: Tier) -> BoxedStrategy<Case> {
        (proptest::collection::vec(any::<bool>(), 1..=150), 1usize..=3, proptest::collection::vec(proptest::sample::select(b"ACGTN".to_vec()), 0..=30))
            .prop_map(|(bits, k, mut text)| {
                if !text.is_empty() {
                    text.push(b'$');
                }
                Case { bits, k, text: B(text) }
            })
            .boxed()
    }
}

pub mod c04 {
    use super::*;
    use bio::alphabets::Alphabet;
    use bio::data_structures::bwt::{bwt, less, Occ};
    use bio::data_structures::suffix_array::{suffix_array, SuffixArray};

    #[derive(Serialize, Deserialize, Debug, Clone)]
    pub struct Case {
        /// over ACGT, `$` appended
        pub body: B,
        pub k: u32,
        pub s: usize,
    }

    pub fn check(c: &Case) -> R {
        ensure!(c.k >= 1 && c.s >= 1, "harness: rate 0");
        let mut text = c.body.0.clone();
        text.push(b'$');
        let n = text.len();
        let alphabet = Alphabet::new(b"$ACGT");
        let sa = suffix_array(&text);
        let b = bwt(&text, &sa);
        let ls = less(&b, &alphabet);
        let occ = Occ::new(&b, c.k, &alphabet);
        let mut cf = Occ::new(&b"TA$CG"[..].to_vec(), c.k % 5 + 2, &alphabet);
        cf.clone_from(&occ);
        for (name, cp) in [("clone()", occ.clone()), ("serde round trip", serde_copy("Occ", &occ)?), ("clone_from() into an object built with another configuration", cf)] {
            for r in 0..n {
                for &a in b"$ACGT" {
                    ensure!(cp.get(&b, r, a) == occ.get(&b, r, a), "Occ (k={}) over the BWT of {:?}: {} answers get({}, {:?}) = {}, the original {}", c.k, lossy(&text), name, r, a as char, cp.get(&b, r, a), occ.get(&b, r, a));
                }
            }
        }
        // sampled suffix array with owned components: clone and serde round trip must resolve every row
        let ssa = sa.sample(&text, b.clone(), ls.clone(), occ.clone(), c.s);
        for (name, cp) in [("clone()", ssa.clone()), ("serde round trip", serde_copy("SampledSuffixArray", &ssa)?)] {
            ensure!(SuffixArray::len(&cp) == n, "SampledSuffixArray (s={}) of {:?}: {} has len() {}", c.s, lossy(&text), name, SuffixArray::len(&cp));
            for i in 0..n {
                ensure!(cp.get(i) == Some(sa[i]), "SampledSuffixArray (s={}, k={}) of {:?}: {} answers get({}) = {:?}, the suffix array has {}", c.s, c.k, lossy(&text), name, i, cp.get(i), sa[i]);
            }
        }
        let mut pass = Pass::new(n >= 3);
        pass.add_if(c.s > 1, "sampling rate > 1");
        pass.add_if(c.k > 1, "Occ rate > 1");
        Ok(pass)
    }

    pub fn strat(_t: Tier) -> BoxedStrategy<Case> {
        (proptest::collection::vec(proptest::sample::select(b"ACGT".to_vec()), 0..=40), prop_oneof![1u32..=8, 60u32..=70], 1usize..=6).prop_map(|(body, k, s)| Case { body: B(body), k, s }).boxed()
    }
}

// ---------------------------------------------------------------------------------------------
// C07: interval trees
pub mod c07 {
    use super::*;
    use bio::data_structures::interval_tree::{ArrayBackedIntervalTree, IntervalTree};

    #[derive(Serialize, Deserialize, Debug, Clone)]
    pub struct Case {
        pub inserts: Vec<(u8, u8)>,
        pub later: Vec<(u8, u8)>,
        pub queries: Vec<(u8, u8)>,
    }

    fn sorted(mut v: Vec<(i64, i64, usize)>) -> Vec<(i64, i64, usize)> {
        v.sort_unstable();
        v
    }

    pub fn check(c: &Case) -> R {
        ensure!(c.inserts.iter().chain(&c.later).chain(&c.queries).all(|x| x.1 >= 1), "harness: zero-width interval");
        let mut tree: IntervalTree<i64, usize> = IntervalTree::new();
        let mut arr: ArrayBackedIntervalTree<i64, usize> = ArrayBackedIntervalTree::new();
        for (d, &(s, w)) in c.inserts.iter().enumerate() {
            tree.insert(s as i64..s as i64 + w as i64, d);
            arr.insert(s as i64..s as i64 + w as i64, d);
        }
        arr.index();
        let model: Vec<(i64, i64, usize)> = c.inserts.iter().enumerate().map(|(d, &(s, w))| (s as i64, s as i64 + w as i64, d)).collect();
        let mut tcf: IntervalTree<i64, usize> = IntervalTree::new();
        let mut acf: ArrayBackedIntervalTree<i64, usize> = ArrayBackedIntervalTree::new();
        for j in 0..5i64 {
            tcf.insert(j * 9..j * 9 + 30, 500 + j as usize);
            acf.insert(j * 9..j * 9 + 30, 500 + j as usize);
        }
        tcf.clone_from(&tree);
        acf.clone_from(&arr);
        let copies = [("clone()", tree.clone()), ("serde round trip", serde_copy("IntervalTree", &tree)?), ("clone_from() into an object built with another configuration", tcf)];
        let acopies = [("clone()", arr.clone()), ("serde round trip", serde_copy("ArrayBackedIntervalTree", &arr)?), ("clone_from() into an object built with another configuration", acf)];
        for (k, &(s, w)) in c.later.iter().enumerate() {
            tree.insert(s as i64..s as i64 + w as i64, 1000 + k);
            arr.insert(s as i64..s as i64 + w as i64, 1000 + k);
        }
        // trees that start as Default::default() instead of new()
        let mut dtree: IntervalTree<i64, usize> = Default::default();
        let mut darr: ArrayBackedIntervalTree<i64, usize> = Default::default();
        for (d, &(s, w)) in c.inserts.iter().enumerate() {
            dtree.insert(s as i64..s as i64 + w as i64, d);
            darr.insert(s as i64..s as i64 + w as i64, d);
        }
        darr.index();
        let copies = [copies[0].clone(), copies[1].clone(), copies[2].clone(), ("Default::default() + the same inserts", dtree)];
        let acopies = [acopies[0].clone(), acopies[1].clone(), acopies[2].clone(), ("Default::default() + the same inserts + index()", darr)];
        let cap = model.len() + 2;
        for &(qs, qw) in &c.queries {
            let (qs, qe) = (qs as i64, qs as i64 + qw as i64);
            let want = sorted(model.iter().filter(|m| m.0 < qe && qs < m.1).cloned().collect());
            for (name, cp) in &copies {
                let got = sorted(cp.find(qs..qe).take(cap).map(|e| (e.interval().start, e.interval().end, *e.data())).collect());
                ensure!(got == want, "IntervalTree of {:?} (start, width): its {} taken before {} later inserts into the original answers the query {}..{} with {:?}, the entries stored at that time that overlap are {:?}", c.inserts, name, c.later.len(), qs, qe, got, want);
            }
            for (name, cp) in &acopies {
                let got = sorted(cp.find(qs..qe).iter().map(|e| (e.interval().start, e.interval().end, *e.data())).collect());
                ensure!(got == want, "ArrayBackedIntervalTree of {:?} (start, width), indexed: its {} taken before {} later inserts into the original answers the query {}..{} with {:?}, expected {:?}", c.inserts, name, c.later.len(), qs, qe, got, want);
            }
        }
        // one result buffer shared between trees (one tree per chromosome, some without annotations): a query on
        // an indexed tree without entries replaces the buffer's content like any other query
        {
            let mut empty: ArrayBackedIntervalTree<i64, usize> = ArrayBackedIntervalTree::new();
            empty.index();
            let mut buf = acopies[0].1.find(0..300);
            let filled = buf.len();
            empty.find_into(0..300, &mut buf);
            ensure!(buf.is_empty(), "ArrayBackedIntervalTree without entries (indexed): find_into(0..300) leaves {} entries in a buffer that held {} results of a query on another tree", buf.len(), filled);
            // and the other way round: a buffer last used on the empty tree
            acopies[0].1.find_into(0..300, &mut buf);
            ensure!(buf.len() == model.len(), "ArrayBackedIntervalTree of {:?}: find_into(0..300) into a buffer last used on another tree finds {} entries, {} are stored", c.inserts, buf.len(), model.len());
        }
        // a copy is a full tree: it accepts further inserts
        for (name, cp) in &copies {
            let mut t = cp.clone();
            t.insert(0..300, 777);
            let got = t.find(0..300).take(cap + 1).count();
            ensure!(got == model.len() + 1, "IntervalTree of {:?}: {} after one more insert covering everything finds {} entries, expected {}", c.inserts, name, got, model.len() + 1);
        }
        let mut pass = Pass::new(model.len() >= 2 && !c.queries.is_empty());
        pass.add_if(!c.later.is_empty(), "original changed after the copies were taken");
        Ok(pass)
    }

    pub fn strat(_t: Tier) -> BoxedStrategy<Case> {
        let iv = || (0u8..=40, 1u8..=20);
        (proptest::collection::vec(iv(), 0..=14), proptest::collection::vec(iv(), 0..=3), proptest::collection::vec((0u8..=40, 1u8..=30), 1..=3)).prop_map(|(inserts, later, queries)| Case { inserts, later, queries }).boxed()
    }
}

// ---------------------------------------------------------------------------------------------
// C08 / C10 / C19 / C20: matcher objects, q-gram index, ORF finder
pub mod matchers {
    use super::*;
    use crate::oracles::naive_find;
    use bio::alphabets::Alphabet;
    use bio::data_structures::qgram_index::QGramIndex;
    use bio::pattern_matching::myers::{long, Myers};
    use bio::pattern_matching::{bndm::BNDM, bom::BOM, horspool::Horspool, kmp::KMP, shift_and::ShiftAnd};
    use bio::seq_analysis::orf::Finder;

    #[derive(Serialize, Deserialize, Debug, Clone)]
    pub struct Case {
        pub pattern: B,
        pub text: B,
        pub k: u8,
        pub q: u32,
    }

    pub fn check(c: &Case) -> R {
        let (p, t): (&[u8], &[u8]) = (&c.pattern, &c.text);
        ensure!(!p.is_empty() && p.len() <= 64 && c.q >= 1, "harness: pattern length {} / q {}", p.len(), c.q);
        let want = naive_find(p, t);
        let cap = t.len() + 2;
        let hdr = format!("pattern {:?} text {:?}", lossy(p), lossy(t));
        // exact matchers: clones (all five), serde round trip (BOM)
        let sa = ShiftAnd::new(p);
        let got: Vec<usize> = sa.clone().find_all(t).take(cap).collect();
        ensure!(got == want, "ShiftAnd clone(): {}: {:?}, occurrences {:?}", hdr, got, want);
        let bn = BNDM::new(p);
        let got: Vec<usize> = bn.clone().find_all(t).take(cap).collect();
        ensure!(got == want, "BNDM clone(): {}: {:?}, occurrences {:?}", hdr, got, want);
        let hp = Horspool::new(p);
        let got: Vec<usize> = hp.clone().find_all(t).take(cap).collect();
        ensure!(got == want, "Horspool clone(): {}: {:?}, occurrences {:?}", hdr, got, want);
        let km = KMP::new(p);
        let got: Vec<usize> = km.clone().find_all(t).take(cap).collect();
        ensure!(got == want, "KMP clone(): {}: {:?}, occurrences {:?}", hdr, got, want);
        let bom = BOM::new(p);
        let mut cf = BOM::new(b"zzyzx");
        cf.clone_from(&bom);
        for (name, cp) in [("clone()", bom.clone()), ("serde round trip", serde_copy("BOM", &bom)?), ("clone_from() into an object built with another configuration", cf)] {
            let got: Vec<usize> = cp.find_all(t).take(cap).collect();
            ensure!(got == want, "BOM {}: {}: {:?}, occurrences {:?}", name, hdr, got, want);
        }
        // Myers: clone of the single-word matcher, clone of the block-based one
        let my: Myers<u64> = Myers::new(p);
        let orig: Vec<(usize, u8)> = my.find_all_end(t, c.k).take(cap).collect();
        let got: Vec<(usize, u8)> = my.clone().find_all_end(t, c.k).take(cap).collect();
        ensure!(got == orig, "Myers<u64> clone(): {} k={}: {:?}, the original {:?}", hdr, c.k, got, orig);
        let ml: long::Myers<u8> = long::Myers::new(p);
        let orig: Vec<(usize, usize)> = ml.find_all_end(t, c.k as usize).take(cap).collect();
        let got: Vec<(usize, usize)> = ml.clone().find_all_end(t, c.k as usize).take(cap).collect();
        ensure!(got == orig, "long::Myers<u8> clone(): {} k={}: {:?}, the original {:?}", hdr, c.k, got, orig);
        // a clone taken after a search with traceback state
        let mut mm: Myers<u64> = Myers::new(p);
        let _ = mm.find_all(t, c.k).take(cap).count();
        let got: Vec<(usize, u8)> = mm.clone().find_all_end(t, c.k).take(cap).collect();
        let orig: Vec<(usize, u8)> = my.find_all_end(t, c.k).take(cap).collect();
        ensure!(got == orig, "Myers<u64> cloned after a full search: {} k={}: {:?}, a fresh matcher {:?}", hdr, c.k, got, orig);
        // q-gram index over the text (alphabet abc)
        if t.len() >= c.q as usize && p.iter().chain(t.iter()).all(|b| b"abc".contains(b)) {
            let alphabet = Alphabet::new(b"abc");
            let ix = QGramIndex::new(c.q, t, &alphabet);
            for (name, cp) in [("clone()", ix.clone()), ("serde round trip", serde_copy("QGramIndex", &ix)?)] {
                // (the order of the results is that of a hash map: compared as sorted lists)
                let mk = |v: Vec<bio::data_structures::qgram_index::Match>| {
                    let mut k: Vec<(usize, usize, usize, usize, usize)> = v.iter().map(|m| (m.pattern.start, m.pattern.stop, m.text.start, m.text.stop, m.count)).collect();
                    k.sort_unstable();
                    k
                };
                let (a, b) = (mk(ix.matches(p, 1)), mk(cp.matches(p, 1)));
                ensure!(a == b, "QGramIndex(q={}) of {:?}: {} answers matches({:?}, 1) = {:?}, the original {:?}", c.q, lossy(t), name, lossy(p), b, a);
                let ek = |v: Vec<bio::data_structures::qgram_index::ExactMatch>| {
                    let mut k: Vec<(usize, usize, usize, usize)> = v.iter().map(|m| (m.pattern.start, m.pattern.stop, m.text.start, m.text.stop)).collect();
                    k.sort_unstable();
                    k
                };
                let (a, b) = (ek(ix.exact_matches(p)), ek(cp.exact_matches(p)));
                ensure!(a == b, "QGramIndex(q={}) of {:?}: {} answers exact_matches({:?}) = {:?}, the original {:?}", c.q, lossy(t), name, lossy(p), b, a);
            }
        }
        // ORF finder
        let starts: Vec<&[u8; 3]> = vec![b"aab"];
        let stops: Vec<&[u8; 3]> = vec![b"bba", b"bab"];
        let f = Finder::new(starts, stops, c.q as usize);
        let orig: Vec<(usize, usize, i8)> = f.find_all(t).take(cap).map(|o| (o.start, o.end, o.offset)).collect();
        let mut cf = Finder::new(vec![b"bbb"], vec![b"aaa"], 30);
        cf.clone_from(&f);
        for (name, cp) in [("clone()", f.clone()), ("serde round trip", serde_copy("orf::Finder", &f)?), ("clone_from() into an object built with another configuration", cf)] {
            let got: Vec<(usize, usize, i8)> = cp.find_all(t).take(cap).map(|o| (o.start, o.end, o.offset)).collect();
            ensure!(got == orig, "orf::Finder {}: text {:?}: {:?}, the original {:?}", name, lossy(t), got, orig);
        }
        let mut pass = Pass::new(!want.is_empty());
        pass.add_if(!orig.is_empty(), "ORF reported");
        pass.add_if(p.len() > 8, "pattern longer than one u8 block");
        Ok(pass)
    }

    pub fn strat(_t: Tier) -> BoxedStrategy<Case> {
        (2u8..=3, prop_oneof![3 => 1usize..=6, 1 => 9usize..=20], 0usize..=40)
            .prop_flat_map(|(sigma, m, n)| (gen::seq(sigma, b'a', m), gen::seq(sigma, b'a', n), 0u8..=3, 1u32..=4))
            .prop_map(|(pattern, text, k, q)| Case { pattern: B(pattern), text: B(text), k, q })
            .boxed()
    }
}


// ---------------------------------------------------------------------------------------------
// C05: backward_search is a provided method of the FMIndexable trait; the FMD index implements the trait too
pub mod c05_impl {
    use super::*;
    use bio::alphabets::dna;
    use bio::data_structures::bwt::{bwt, less, Occ};
    use bio::data_structures::fmindex::{FMDIndex, FMIndex};
    use bio::data_structures::suffix_array::suffix_array;

    #[derive(Serialize, Deserialize, Debug, Clone)]
    pub struct Case {
        pub seqs: Vec<B>,
        pub k: u32,
        pub patterns: Vec<B>,
    }

    pub fn check(c: &Case) -> R {
        ensure!(!c.seqs.is_empty() && c.seqs.iter().all(|s| !s.is_empty()) && c.k >= 1 && !c.patterns.is_empty() && c.patterns.iter().all(|p| !p.is_empty()), "harness: empty sequence/pattern");
        // text = s $ revcomp(s) $ for every sequence
        let mut text = Vec::new();
        for s in &c.seqs {
            text.extend_from_slice(s);
            text.push(b'$');
            text.extend(dna::revcomp(&s.0));
            text.push(b'$');
        }
        let alphabet = dna::n_alphabet();
        let sa = suffix_array(&text);
        let bw = bwt(&text, &sa);
        let le = less(&bw, &alphabet);
        let oc = Occ::new(&bw, c.k, &alphabet);
        let syms: Vec<u8> = alphabet.symbols.iter().map(|b| b as u8).collect();
        let pats: Vec<Vec<u8>> = c.patterns.iter().map(|p| p.0.clone()).collect();
        let fm = FMIndex::new(&bw, &le, &oc);
        crate::props::c05::check_implementor(&fm, &text, &syms, c.k, &pats).map_err(|e| match e {
            Stop::Fail(m) => Stop::Fail(format!("FMIndex::backward_search: {}", m)),
            o => o,
        })?;
        let fmd = FMDIndex::from(FMIndex::new(&bw, &le, &oc));
        crate::props::c05::check_implementor(&fmd, &text, &syms, c.k, &pats).map_err(|e| match e {
            Stop::Fail(m) => Stop::Fail(format!("FMDIndex (the other implementor of FMIndexable in the crate)::backward_search: {}", m)),
            o => o,
        })?;
        // a user-side implementor: the three required methods by naive counting, backward_search inherited
        struct Naive {
            bwt: Vec<u8>,
        }
        impl bio::data_structures::fmindex::FMIndexable for Naive {
            fn occ(&self, r: usize, a: u8) -> usize {
                self.bwt[..=r].iter().filter(|&&b| b == a).count()
            }
            fn less(&self, a: u8) -> usize {
                self.bwt.iter().filter(|&&b| b < a).count()
            }
            fn bwt(&self) -> &bio::data_structures::bwt::BWT {
                &self.bwt
            }
        }
        let naive = Naive { bwt: bw.clone() };
        crate::props::c05::check_implementor(&naive, &text, &syms, c.k, &pats).map_err(|e| match e {
            Stop::Fail(m) => Stop::Fail(format!("backward_search inherited by an implementor of FMIndexable that counts naively: {}", m)),
            o => o,
        })?;
        let occurs = |p: &[u8]| text.windows(p.len()).any(|w| w == p);
        let mut pass = Pass::new(pats.iter().any(|p| p.len() >= 2));
        pass.add_if(pats.iter().any(|p| occurs(p)), "pattern occurs (Complete)");
        pass.add_if(pats.iter().any(|p| !occurs(p) && occurs(&p[p.len() - 1..])), "pattern does not occur, its last symbol does (Partial)");
        pass.add_if(pats.iter().any(|p| !occurs(&p[p.len() - 1..])), "last symbol absent (Absent)");
        Ok(pass)
    }

    pub fn strat(_t: Tier) -> BoxedStrategy<Case> {
        let sym = || proptest::sample::select(b"ACGT".to_vec());
        (proptest::collection::vec(proptest::collection::vec(sym(), 1..=12), 1..=2), prop_oneof![1u32..=4, 60u32..=70], proptest::collection::vec(proptest::collection::vec(prop_oneof![8 => sym(), 1 => Just(b'N')], 1..=5), 1..=4))
            .prop_map(|(seqs, k, patterns)| Case { seqs: seqs.into_iter().map(B).collect(), k, patterns: patterns.into_iter().map(B).collect() })
            .boxed()
    }
}


// ---------------------------------------------------------------------------------------------
// C07, last clause: "query cost stays logarithmic in the number of entries". Cost is observed without a
// clock: the tree is keyed by a type whose `Ord` counts comparisons. An augmented AVL tree answers a query
// with h hits among n entries in O((h + 1) log n) key comparisons; a query that visits a number of nodes
// proportional to n does not.
pub mod c07_cost {
    use super::*;
    use bio::data_structures::interval_tree::IntervalTree;
    use std::cell::Cell;
    use std::cmp::Ordering;

    thread_local! {
        static CMP: Cell<u64> = Cell::new(0);
    }

    #[derive(Clone, Debug, PartialEq, Eq)]
    pub struct CK(pub i64);
    impl PartialOrd for CK {
        fn partial_cmp(&self, o: &CK) -> Option<Ordering> {
            Some(self.cmp(o))
        }
    }
    impl Ord for CK {
        fn cmp(&self, o: &CK) -> Ordering {
            CMP.with(|c| c.set(c.get() + 1));
            self.0.cmp(&o.0)
        }
    }

    #[derive(Serialize, Deserialize, Debug, Clone)]
    pub struct Case {
        pub n: usize,
        /// 0: unit intervals i..i+1 ascending; 1: descending; 2: random starts, widths 1..=8; 3: nested
        /// (i..2n-i); 4: all equal
        pub shape: u8,
        pub seed: u64,
        /// (start fraction, width)
        pub queries: Vec<(u16, u16)>,
    }

    /// comparisons allowed per (hit + 1) and per level of a balanced tree; the unchanged code needs < 6
    /// (measured over 140,000 queries of the generator below: never above 6), a query that walks the whole tree needs n / log n
    pub const PER_HIT_LEVEL: u64 = 24;

    pub fn check(c: &Case) -> R {
        let n = c.n;
        ensure!(n >= 64, "harness: n={}", n);
        let mut g = crate::oracles::prng::Sm::new(c.seed);
        let mut ivs: Vec<(i64, i64)> = Vec::with_capacity(n);
        for i in 0..n as i64 {
            ivs.push(match c.shape % 5 {
                0 => (i, i + 1),
                1 => (n as i64 - i, n as i64 - i + 1),
                2 => {
                    let s = g.below(n as u64 * 4) as i64;
                    (s, s + 1 + g.below(8) as i64)
                }
                3 => (i, 2 * n as i64 - i),
                _ => (7, 9),
            });
        }
        let mut tree: IntervalTree<CK, usize> = IntervalTree::new();
        for (d, &(s, e)) in ivs.iter().enumerate() {
            tree.insert(CK(s)..CK(e), d);
        }
        let span = ivs.iter().map(|x| x.1).max().unwrap() + 2;
        let levels = (usize::BITS - n.leading_zeros()) as u64 + 1; // floor(log2 n) + 2
        let mut worst = 0f64;
        let mut pass = Pass::new(true);
        for &(f, w) in &c.queries {
            let qs = gen::idx(f, span as usize) as i64;
            let qe = qs + 1 + w as i64 % 16;
            let want = ivs.iter().filter(|x| x.0 < qe && qs < x.1).count();
            CMP.with(|c| c.set(0));
            let got = tree.find(CK(qs)..CK(qe)).take(n + 2).count();
            let cmps = CMP.with(|c| c.get());
            ensure!(got == want, "IntervalTree over {} intervals (shape {}): query {}..{} finds {} entries, {} overlap", n, c.shape, qs, qe, got, want);
            let bound = PER_HIT_LEVEL * (want as u64 + 1) * levels;
            ensure!(
                cmps <= bound,
                "IntervalTree over {} intervals (shape {}, seed {}): the query {}..{} with {} hits took {} key comparisons; a balanced augmented tree needs O((hits + 1) log n), allowed here {} = {} x (hits + 1) x {} levels",
                n, c.shape, c.seed, qs, qe, want, cmps, bound, PER_HIT_LEVEL, levels
            );
            worst = worst.max(cmps as f64 / ((want as u64 + 1) * levels) as f64);
            pass.add_if(want == 0, "query without hits");
            pass.add_if(want >= 1 && want <= 8, "query with 1..8 hits");
            pass.add_if(qs < span / 16, "query at the low end of the key range");
        }
        // find_mut takes the same route
        CMP.with(|c| c.set(0));
        let got = tree.find_mut(CK(0)..CK(1)).take(n + 2).count();
        let cmps = CMP.with(|c| c.get());
        let want = ivs.iter().filter(|x| x.0 < 1 && 0 < x.1).count();
        ensure!(got == want && cmps <= PER_HIT_LEVEL * (want as u64 + 1) * levels, "IntervalTree over {} intervals (shape {}): find_mut(0..1) with {} hits (found {}) took {} key comparisons, allowed {}", n, c.shape, want, got, cmps, PER_HIT_LEVEL * (want as u64 + 1) * levels);
        pass.add_if(worst > 3.0, "more than 3 comparisons per (hit + 1) and level");
        pass.add_if(worst > 6.0, "more than 6 comparisons per (hit + 1) and level");
        pass.add_if(worst > 12.0, "more than 12 comparisons per (hit + 1) and level");
        pass.add_if(n >= 1024, "n >= 1024");
        if std::env::var("VERIF_C07_COST_TRACE").is_ok() {
            eprintln!("c07-cost n={} shape={} worst ratio {:.2}", n, c.shape, worst);
        }
        Ok(pass)
    }

    pub fn strat(_t: Tier) -> BoxedStrategy<Case> {
        (prop_oneof![Just(64usize), Just(255), Just(256), Just(1000), Just(1024), Just(4096), 64usize..=3000], 0u8..5, any::<u64>(), proptest::collection::vec((prop_oneof![2 => Just(0u16), 1 => 0u16..=4000, 3 => any::<u16>()], any::<u16>()), 1..=6))
            .prop_map(|(n, shape, seed, queries)| Case { n, shape, seed, queries })
            .boxed()
    }
}

pub fn extend(props: &mut [Property]) {
    for p in props.iter_mut() {
        match p.id {
            "C03" => p.subs.push(Box::new(PropSub { name: "C03/copies", quick: 20_000, thorough: 400_000, shards_quick: 8, shards_thorough: 16, strat: c04::strat, check: c04::check, must_reach: &["sampling rate > 1"], watch: true })),
            "C04" => p.subs.push(Box::new(PropSub { name: "C04/copies", quick: 20_000, thorough: 400_000, shards_quick: 8, shards_thorough: 16, strat: c04::strat, check: c04::check, must_reach: &["Occ rate > 1"], watch: true })),
            "C05" => p.subs.push(Box::new(PropSub { name: "C05/other-implementors", quick: 60_000, thorough: 1_200_000, shards_quick: 8, shards_thorough: 16, strat: c05_impl::strat, check: c05_impl::check, must_reach: &["pattern occurs (Complete)", "pattern does not occur, its last symbol does (Partial)", "last symbol absent (Absent)"], watch: true })),
            "C07" => {
                p.subs.push(Box::new(PropSub { name: "C07/query-cost", quick: 2_000, thorough: 40_000, shards_quick: 8, shards_thorough: 16, strat: c07_cost::strat, check: c07_cost::check, must_reach: &["query without hits", "query at the low end of the key range", "n >= 1024"], watch: true }));
                p.subs.push(Box::new(PropSub { name: "C07/copies", quick: 40_000, thorough: 800_000, shards_quick: 8, shards_thorough: 16, strat: c07::strat, check: c07::check, must_reach: &["original changed after the copies were taken"], watch: true }));
            }
            "C08" => p.subs.push(Box::new(PropSub { name: "C08/copies", quick: 40_000, thorough: 800_000, shards_quick: 8, shards_thorough: 16, strat: matchers::strat, check: matchers::check, must_reach: &[], watch: true })),
            "C10" => p.subs.push(Box::new(PropSub { name: "C10/copies", quick: 40_000, thorough: 800_000, shards_quick: 8, shards_thorough: 16, strat: matchers::strat, check: matchers::check, must_reach: &["pattern longer than one u8 block"], watch: true })),
            "C13" => p.subs.push(Box::new(PropSub { name: "C13/raw-bytes", quick: 60_000, thorough: 1_200_000, shards_quick: 8, shards_thorough: 16, strat: crate::props::c13::rawbytes::strat, check: crate::props::c13::rawbytes::check, must_reach: &["BED", "GFF3", "GFF2", "GTF2", "a record read as Ok", "a malformed data line", "Ok and malformed lines in one file"], watch: true })),
            "C17" => p.subs.push(Box::new(PropSub { name: "C17/copies", quick: 20_000, thorough: 400_000, shards_quick: 8, shards_thorough: 16, strat: c17::strat, check: c17::check, must_reach: &["bit vector spans several superblocks", "wavelet matrix compared"], watch: true })),
            "C18" => p.subs.push(Box::new(PropSub { name: "C18/copies", quick: 40_000, thorough: 800_000, shards_quick: 8, shards_thorough: 16, strat: c18::strat, check: c18::check, must_reach: &["original changed after the copies were taken", "SmallInts holds big values"], watch: true })),
            "C19" => p.subs.push(Box::new(PropSub { name: "C19/copies", quick: 40_000, thorough: 800_000, shards_quick: 8, shards_thorough: 16, strat: matchers::strat, check: matchers::check, must_reach: &[], watch: true })),
            "C20" => p.subs.push(Box::new(PropSub { name: "C20/copies", quick: 40_000, thorough: 800_000, shards_quick: 8, shards_thorough: 16, strat: matchers::strat, check: matchers::check, must_reach: &["ORF reported"], watch: true })),
            _ => {}
        }
    }
}
