//! Value-ladder and configuration sub-checks added after the third seeding round (DESIGN 10.9).
//! The size ladders (10.8) push *sizes* across thresholds; these push the *values* of numeric
//! parameters across the 32-bit boundary (2^31, 2^32, multiples of 2^32 plus a small remainder,
//! 2^40, 2^63, the type maximum) and drive legal but unusual configurations (non-row-major matrix
//! layouts, iterators without an upper size hint, mixed use of two entry points on one object,
//! reference-id types whose hashes collide, exponent boundaries of the fast exponential).
//! Everything here is small and self-contained: each sub-check builds its inputs directly and
//! compares with a naive oracle.

use crate::engine::gen::seq;
use crate::engine::*;
use crate::oracles::naive_find;
use crate::{ensure, fail};
use proptest::prelude::*;
use serde::{Deserialize, Serialize};

/// parameter values around the 32-bit boundary and the type maximum
pub fn huge_values() -> Vec<u64> {
    let p32 = 1u64 << 32;
    let mut v = vec![
        (1 << 31) - 1,
        1 << 31,
        (1 << 31) + 1,
        p32 - 2,
        p32 - 1,
        p32,
        p32 + 1,
        p32 + 2,
        p32 + 3,
        p32 + 7,
        2 * p32,
        2 * p32 + 1,
        3 * p32,
        3 * p32 + 1,
        3 * p32 + 2,
        3 * p32 + 4,
        6 * p32,
        (1 << 40) + 4,
        (1 << 40) + 7,
        1 << 48,
        (1 << 63) - 1,
        1 << 63,
        (1 << 63) + 1,
        u64::MAX - 2,
        u64::MAX - 1,
        u64::MAX,
    ];
    v.extend((1..=6).map(|m| m * p32 + 5));
    v
}

pub fn huge() -> BoxedStrategy<u64> {
    proptest::sample::select(huge_values()).boxed()
}

// ---------------------------------------------------------------------------
// C03 / C05: suffix-array sampling rates at and beyond 2^32

pub mod sampling {
    use super::*;
    use bio::alphabets::Alphabet;
    use bio::data_structures::bwt::{bwt, less, Occ};
    use bio::data_structures::fmindex::{BackwardSearchResult, FMIndex, FMIndexable};
    use bio::data_structures::suffix_array::{suffix_array, SuffixArray};

    #[derive(Serialize, Deserialize, Debug, Clone)]
    pub struct Case {
        /// sequences over ACGT; the text is s1$s2$..sk$
        pub seqs: Vec<B>,
        pub occ_rate: u32,
        pub sa_rate: u64,
        pub patterns: Vec<B>,
    }

    fn text_of(c: &Case) -> Vec<u8> {
        let mut t = Vec::new();
        for s in &c.seqs {
            t.extend_from_slice(s);
            t.push(b'$');
        }
        t
    }

    /// C03: a sampled suffix array answers like the full one at every index
    pub fn check_get(c: &Case) -> R {
        let text = text_of(c);
        let sa = suffix_array(&text);
        let alphabet = Alphabet::new(b"$ACGT");
        let bw = bwt(&text, &sa);
        let le = less(&bw, &alphabet);
        let oc = Occ::new(&bw, c.occ_rate, &alphabet);
        let ssa = sa.sample(&text, &bw, &le, &oc, c.sa_rate as usize);
        ensure!(ssa.len() == sa.len(), "sampled suffix array (rate {}) has length {} instead of {}", c.sa_rate, ssa.len(), sa.len());
        for i in 0..sa.len() {
            let (a, b) = (ssa.get(i), sa.get(i));
            ensure!(a == b, "text {:?} Occ rate {} sampling rate {}: sampled.get({}) = {:?}, full array has {:?}", lossy(&text), c.occ_rate, c.sa_rate, i, a, b);
        }
        ensure!(ssa.get(sa.len()).is_none(), "sampled.get(len) is not None");
        Ok(Pass::new(text.len() >= 4)
            .class_if(c.sa_rate >= 1 << 32, "sampling rate >= 2^32")
            .class_if(c.sa_rate >= 1 << 32 && (c.sa_rate & 0xffff_ffff) < text.len() as u64, "low 32 bits of the rate below the text length")
            .class_if(c.sa_rate & 0xffff_ffff == 0, "rate a multiple of 2^32")
            .class_if(c.seqs.len() >= 2, "multi-sentinel"))
    }

    /// C05: occurrences resolved through such a sampled array are exactly the pattern's occurrences
    pub fn check_search(c: &Case) -> R {
        let text = text_of(c);
        let sa = suffix_array(&text);
        let alphabet = Alphabet::new(b"$ACGT");
        let bw = bwt(&text, &sa);
        let le = less(&bw, &alphabet);
        let oc = Occ::new(&bw, c.occ_rate, &alphabet);
        let ssa = sa.sample(&text, &bw, &le, &oc, c.sa_rate as usize);
        let fm = FMIndex::new(&bw, &le, &oc);
        let mut complete = false;
        for p in &c.patterns {
            if p.is_empty() {
                continue;
            }
            let expect = naive_find(p, &text);
            match fm.backward_search(p.iter()) {
                BackwardSearchResult::Complete(iv) => {
                    let mut got = iv.occ(&ssa);
                    got.sort_unstable();
                    ensure!(got == expect, "text {:?} pattern {:?} Occ rate {} sampling rate {}: occurrences through the sampled suffix array {:?}, expected {:?}", lossy(&text), lossy(p), c.occ_rate, c.sa_rate, got, expect);
                    complete = true;
                }
                BackwardSearchResult::Partial(iv, l) => {
                    ensure!(expect.is_empty(), "pattern {:?} occurs in {:?} but the search result is Partial", lossy(p), lossy(&text));
                    let suffix = &p[p.len() - l..];
                    let e2 = naive_find(suffix, &text);
                    let mut got = iv.occ(&ssa);
                    got.sort_unstable();
                    ensure!(got == e2, "text {:?} pattern {:?} (matched suffix {:?}) sampling rate {}: occurrences through the sampled suffix array {:?}, expected {:?}", lossy(&text), lossy(p), lossy(suffix), c.sa_rate, got, e2);
                }
                BackwardSearchResult::Absent => ensure!(expect.is_empty(), "pattern {:?} occurs in {:?} but the search result is Absent", lossy(p), lossy(&text)),
            }
        }
        Ok(Pass::new(complete)
            .class_if(c.sa_rate >= 1 << 32, "sampling rate >= 2^32")
            .class_if(c.sa_rate >= 1 << 32 && (c.sa_rate & 0xffff_ffff) < text.len() as u64, "low 32 bits of the rate below the text length")
            .class_if(complete, "pattern occurs"))
    }

    pub fn strat(_t: Tier) -> BoxedStrategy<Case> {
        (proptest::collection::vec(seq(4, 0, 1..=14), 1..=3), prop_oneof![Just(1u32), 2u32..=8, Just(64u32), Just(65u32), Just(300u32)], prop_oneof![6 => huge(), 1 => 1u64..=40], proptest::collection::vec((any::<u16>(), 1usize..=5), 1..=4))
            .prop_map(|(seqs, occ_rate, sa_rate, pats)| {
                let seqs: Vec<Vec<u8>> = seqs.into_iter().map(|s| s.into_iter().map(|c| b"ACGT"[c as usize]).collect()).collect();
                let joined: Vec<u8> = seqs.concat();
                let patterns = pats
                    .into_iter()
                    .map(|(f, l)| {
                        let st = crate::engine::gen::idx(f, joined.len().saturating_sub(1));
                        B(joined[st..(st + l).min(joined.len())].to_vec())
                    })
                    .collect();
                Case { seqs: seqs.into_iter().map(B).collect(), occ_rate, sa_rate, patterns }
            })
            .boxed()
    }
}

// ---------------------------------------------------------------------------
// C06: minimum SMEM lengths l at and beyond 2^32

pub mod smem_l {
    use super::*;
    use bio::alphabets::dna;
    use bio::data_structures::bwt::{bwt, less, Occ};
    use bio::data_structures::fmindex::{FMDIndex, FMIndex};
    use bio::data_structures::suffix_array::suffix_array;

    #[derive(Serialize, Deserialize, Debug, Clone)]
    pub struct Case {
        pub seq: B,
        pub pattern: B,
        pub i: u16,
        pub l: u64,
        pub occ_rate: u32,
    }

    pub fn check(c: &Case) -> R {
        ensure!(!c.seq.is_empty() && !c.pattern.is_empty() && c.l >= 1, "harness: empty input");
        let mut text = c.seq.0.clone();
        text.push(b'$');
        text.extend(dna::revcomp(&c.seq.0));
        text.push(b'$');
        let alphabet = dna::n_alphabet();
        let sa = suffix_array(&text);
        let bw = bwt(&text, &sa);
        let le = less(&bw, &alphabet);
        let oc = Occ::new(&bw, c.occ_rate, &alphabet);
        let fmd = FMDIndex::from(FMIndex::new(&bw, &le, &oc));
        let i = crate::engine::gen::idx(c.i, c.pattern.len() - 1);
        let l = c.l as usize;
        // brute force: SMEMs covering i of length >= l
        let p: &[u8] = &c.pattern;
        let occurs = |a: usize, e: usize| !naive_find(&p[a..e], &text).is_empty();
        let mut expect: Vec<(usize, usize)> = Vec::new();
        for a in 0..=i {
            for e in (i + 1)..=p.len() {
                if e - a >= l && occurs(a, e) && !(a > 0 && occurs(a - 1, e)) && !(e < p.len() && occurs(a, e + 1)) {
                    expect.push((a, e - a));
                }
            }
        }
        expect.sort_unstable();
        let mut got: Vec<(usize, usize)> = fmd.smems(p, i, l).iter().map(|(_, s, len)| (*s, *len)).collect();
        got.sort_unstable();
        ensure!(got == expect, "sequence {:?} pattern {:?}: smems(i={}, l={}) = {:?}, the supermaximal matches covering {} of length >= l are {:?}", lossy(&c.seq), lossy(p), i, c.l, got, i, expect);
        let all: Vec<(usize, usize)> = fmd.all_smems(p, l).iter().map(|(_, s, len)| (*s, *len)).collect();
        ensure!(all.iter().all(|(_, len)| *len >= l), "all_smems(l={}) returns matches shorter than l: {:?} (sequence {:?} pattern {:?})", c.l, all, lossy(&c.seq), lossy(p));
        Ok(Pass::new(l > p.len())
            .class_if(c.l >= 1 << 32, "l >= 2^32")
            .class_if(c.l >= 1 << 32 && (c.l & 0xffff_ffff) <= p.len() as u64, "low 32 bits of l within the pattern length")
            .class_if(!expect.is_empty(), "SMEM of the requested length exists"))
    }

    pub fn strat(_t: Tier) -> BoxedStrategy<Case> {
        (seq(4, 0, 2..=14), proptest::collection::vec(crate::engine::gen::edit(4, 0), 0..=2), any::<u16>(), prop_oneof![5 => huge(), 1 => 1u64..=6], prop_oneof![Just(1u32), Just(3u32), Just(8u32)])
            .prop_map(|(s, ed, i, l, occ_rate)| {
                let to = |v: Vec<u8>| -> Vec<u8> { v.into_iter().map(|c| b"ACGT"[(c % 4) as usize]).collect() };
                let pat = crate::engine::gen::apply_edits(&s, &ed);
                let pat = if pat.is_empty() { vec![0u8] } else { pat };
                Case { seq: B(to(s)), pattern: B(to(pat)), i, l, occ_rate }
            })
            .boxed()
    }
}

// ---------------------------------------------------------------------------
// C17: superblock factors k at and beyond 2^27 (superblock size k*32 bits at and beyond 2^32)

pub mod rank_k {
    use super::*;
    use bio::data_structures::rank_select::RankSelect;
    use bv::{BitVec, BitsMut};

    #[derive(Serialize, Deserialize, Debug, Clone)]
    pub struct Case {
        pub bits: Vec<bool>,
        pub k: u64,
    }

    pub fn k_values() -> Vec<u64> {
        let p27 = 1u64 << 27;
        vec![p27 - 1, p27, p27 + 1, p27 + 2, p27 + 3, 2 * p27, 2 * p27 + 1, 3 * p27 + 1, 1 << 28, 1 << 31, 1 << 32, (1 << 32) + 5, 1 << 40, (1 << 40) + 3, 1 << 50, (1 << 58) - 1, 1 << 58]
    }

    pub fn check(c: &Case) -> R {
        let n = c.bits.len();
        ensure!(n >= 1 && c.k >= 1 && c.k <= 1 << 58, "harness: case outside the domain (k*32 must fit in usize)");
        let mut bv: BitVec<u8> = BitVec::new_fill(false, n as u64);
        for (i, b) in c.bits.iter().enumerate() {
            bv.set_bit(i as u64, *b);
        }
        let rs = RankSelect::new(bv, c.k as usize);
        let mut ones = 0u64;
        let mut pos1 = Vec::new();
        let mut pos0 = Vec::new();
        for i in 0..n {
            if c.bits[i] {
                ones += 1;
                pos1.push(i as u64);
            } else {
                pos0.push(i as u64);
            }
            let r1 = rs.rank_1(i as u64);
            ensure!(r1 == Some(ones), "k={} n={}: rank_1({}) = {:?}, expected {}", c.k, n, i, r1, ones);
            let r0 = rs.rank_0(i as u64);
            ensure!(r0 == Some(i as u64 + 1 - ones), "k={} n={}: rank_0({}) = {:?}, expected {}", c.k, n, i, r0, i as u64 + 1 - ones);
        }
        ensure!(rs.rank_1(n as u64).is_none(), "k={}: rank_1(n) is not None", c.k);
        for j in 0..=(n as u64 + 1) {
            let e1 = if j == 0 { None } else { pos1.get(j as usize - 1).copied() };
            let e0 = if j == 0 { None } else { pos0.get(j as usize - 1).copied() };
            let (s1, s0) = (rs.select_1(j), rs.select_0(j));
            ensure!(s1 == e1, "k={} n={}: select_1({}) = {:?}, expected {:?}", c.k, n, j, s1, e1);
            ensure!(s0 == e0, "k={} n={}: select_0({}) = {:?}, expected {:?}", c.k, n, j, s0, e0);
        }
        Ok(Pass::new(n >= 8)
            .class_if(c.k >= 1 << 27, "k >= 2^27 (superblock of 2^32 bits or more)")
            .class_if(c.k % (1 << 27) == 0, "k a multiple of 2^27")
            .class_if(c.k >= 1 << 27 && ((c.k * 32) & 0xffff_ffff) > 0 && ((c.k * 32) & 0xffff_ffff) < n as u64, "low 32 bits of the superblock size below n"))
    }

    pub fn strat(_t: Tier) -> BoxedStrategy<Case> {
        (proptest::collection::vec(any::<bool>(), 1..=200), proptest::sample::select(k_values())).prop_map(|(bits, k)| Case { bits, k }).boxed()
    }
}

// ---------------------------------------------------------------------------
// C20: ORF minimum lengths at and beyond 2^32

pub mod orf_min {
    use super::*;
    use bio::seq_analysis::orf::Finder;

    #[derive(Serialize, Deserialize, Debug, Clone)]
    pub struct Case {
        pub seq: B,
        pub min_len: u64,
    }

    pub fn check(c: &Case) -> R {
        let finder = Finder::new(vec![b"ATG"], vec![b"TGA", b"TAG", b"TAA"], c.min_len as usize);
        let got: Vec<(usize, usize)> = finder.find_all(c.seq.iter()).take(c.seq.len() + 2).map(|o| (o.start, o.end)).collect();
        // no frame of a sequence this short reaches the minimum: nothing may be reported
        ensure!(c.min_len as usize > c.seq.len(), "harness: min_len within the sequence length");
        ensure!(got.is_empty(), "sequence {:?} (length {}) with min_len {}: reported ORFs {:?}, but every reported ORF must have at least the configured minimum length", lossy(&c.seq), c.seq.len(), c.min_len, got);
        // how many frames exist at all (start codon followed by an in-frame stop)
        let s: &[u8] = &c.seq;
        let mut frames = 0;
        for st in 0..s.len().saturating_sub(2) {
            if &s[st..st + 3] == b"ATG" {
                let mut p = st + 3;
                while p + 3 <= s.len() {
                    if [&b"TGA"[..], &b"TAG"[..], &b"TAA"[..]].contains(&&s[p..p + 3]) {
                        frames += 1;
                        break;
                    }
                    p += 3;
                }
            }
        }
        Ok(Pass::new(frames >= 1)
            .class_if(frames >= 1, "sequence contains complete frames that must be suppressed")
            .class_if(c.min_len >= 1 << 32, "min_len >= 2^32")
            .class_if(c.min_len % (3 << 32) <= 40, "min_len within 40 of a multiple of 3*2^32"))
    }

    pub fn min_values() -> Vec<u64> {
        let mut v = super::huge_values();
        let t = 3u64 << 32;
        for m in 1..=4u64 {
            for d in [0u64, 1, 2, 3, 6, 9, 30] {
                v.push(m * t + d);
                v.push(m * t - d.min(m * t - 1));
            }
        }
        v
    }

    pub fn strat(_t: Tier) -> BoxedStrategy<Case> {
        let codon = prop_oneof![3 => Just(b"ATG".to_vec()), 2 => Just(b"TGA".to_vec()), 1 => Just(b"TAA".to_vec()), 4 => proptest::collection::vec(proptest::sample::select(b"ATG".to_vec()), 3), 1 => proptest::collection::vec(proptest::sample::select(b"ATGC".to_vec()), 1..=2)];
        (proptest::collection::vec(codon, 1..=25), proptest::sample::select(min_values())).prop_map(|(cs, min_len)| Case { seq: B(cs.concat()), min_len }).boxed()
    }
}

// ---------------------------------------------------------------------------
// C14: HMM results do not depend on the memory layout of the matrices handed to the constructors

pub mod hmm_layout {
    use super::*;
    use bio::stats::hmm::{backward, discrete_emission, discrete_emission_opt_end, forward, viterbi};
    use ndarray::{Array1, Array2, ShapeBuilder};

    #[derive(Serialize, Deserialize, Debug, Clone)]
    pub struct Case {
        pub s: usize,
        pub m: usize,
        /// weights, normalised per row by the check (row-major logical order)
        pub trans: Vec<u8>,
        pub emit: Vec<u8>,
        pub init: Vec<u8>,
        pub end: Option<Vec<u8>>,
        pub obs: Vec<u8>,
        /// 1 column-major (`.f()`), 2 transposed view made owned (`t().to_owned()` of the transposed data),
        /// 3 `reversed_axes` of the transposed data
        pub layout: u8,
    }

    fn rows(w: &[u8], r: usize, c: usize) -> Vec<f64> {
        let mut out = vec![0.0; r * c];
        for i in 0..r {
            let sum: f64 = (0..c).map(|j| w[i * c + j] as f64).sum();
            for j in 0..c {
                out[i * c + j] = if sum > 0.0 { w[i * c + j] as f64 / sum } else { 0.0 };
            }
        }
        out
    }

    /// the same logical r x c matrix in a non-standard memory layout
    fn relayout(data: &[f64], r: usize, c: usize, layout: u8) -> Array2<f64> {
        let std = Array2::from_shape_vec((r, c), data.to_vec()).unwrap();
        match layout {
            1 => {
                let mut colmajor = Vec::with_capacity(r * c);
                for j in 0..c {
                    for i in 0..r {
                        colmajor.push(data[i * c + j]);
                    }
                }
                Array2::from_shape_vec((r, c).f(), colmajor).unwrap()
            }
            2 => {
                // build the transposed matrix in standard layout, then take its transpose as an owned array
                let mut tdata = Vec::with_capacity(r * c);
                for j in 0..c {
                    for i in 0..r {
                        tdata.push(data[i * c + j]);
                    }
                }
                Array2::from_shape_vec((c, r), tdata).unwrap().t().to_owned()
            }
            _ => {
                let mut tdata = Vec::with_capacity(r * c);
                for j in 0..c {
                    for i in 0..r {
                        tdata.push(data[i * c + j]);
                    }
                }
                Array2::from_shape_vec((c, r), tdata).unwrap().reversed_axes()
            }
        }
        .also_check(&std)
    }

    trait AlsoCheck {
        fn also_check(self, std: &Array2<f64>) -> Self;
    }
    impl AlsoCheck for Array2<f64> {
        fn also_check(self, std: &Array2<f64>) -> Self {
            assert_eq!(&self, std, "harness: relayout changed the logical matrix");
            self
        }
    }

    pub fn check(c: &Case) -> R {
        let (s, m) = (c.s, c.m);
        ensure!(s >= 1 && m >= 1 && c.trans.len() == s * s && c.emit.len() == s * m && c.init.len() == s && !c.obs.is_empty() && c.obs.iter().all(|o| (*o as usize) < m), "harness: malformed case");
        let tr = rows(&c.trans, s, s);
        let em = rows(&c.emit, s, m);
        let ini = rows(&c.init, 1, s);
        let obs: Vec<usize> = c.obs.iter().map(|o| *o as usize).collect();
        let tr_std = Array2::from_shape_vec((s, s), tr.clone()).unwrap();
        let em_std = Array2::from_shape_vec((s, m), em.clone()).unwrap();
        let tr_alt = relayout(&tr, s, s, c.layout);
        let em_alt = relayout(&em, s, m, c.layout);
        let init = Array1::from_vec(ini);
        let same = |what: &str, a: f64, b: f64| -> Result<(), Stop> {
            ensure!(a == b || (a - b).abs() <= 1e-12 * a.abs().max(1.0), "{}: {} with row-major matrices, {} with the same matrices in memory layout {} (S={} M={} trans={:?} emit={:?} init={:?} end={:?} obs={:?})", what, a, b, c.layout, s, m, c.trans, c.emit, c.init, c.end, c.obs);
            Ok(())
        };
        match &c.end {
            None => {
                let a = discrete_emission::Model::with_float(&tr_std, &em_std, &init).map_err(|e| Stop::Fail(format!("harness: model rejected: {}", e)))?;
                let b = discrete_emission::Model::with_float(&tr_alt, &em_alt, &init).map_err(|e| Stop::Fail(format!("model with non-standard layout rejected: {}", e)))?;
                let (pa, va) = viterbi(&a, &obs);
                let (pb, vb) = viterbi(&b, &obs);
                same("viterbi probability", *va, *vb)?;
                ensure!(pa == pb, "viterbi path {:?} with row-major matrices, {:?} with memory layout {}", pa, pb, c.layout);
                same("forward likelihood", *forward(&a, &obs).1, *forward(&b, &obs).1)?;
                same("backward likelihood", *backward(&a, &obs).1, *backward(&b, &obs).1)?;
            }
            Some(e) => {
                let end: Vec<f64> = e.iter().map(|w| *w as f64 / 255.0).collect();
                let end = Array1::from_vec(end);
                let a = discrete_emission_opt_end::Model::with_float(&tr_std, &em_std, &init, Some(&end)).map_err(|e| Stop::Fail(format!("harness: model rejected: {}", e)))?;
                let b = discrete_emission_opt_end::Model::with_float(&tr_alt, &em_alt, &init, Some(&end)).map_err(|e| Stop::Fail(format!("model with non-standard layout rejected: {}", e)))?;
                let (pa, va) = viterbi(&a, &obs);
                let (pb, vb) = viterbi(&b, &obs);
                same("viterbi probability", *va, *vb)?;
                ensure!(pa == pb, "viterbi path {:?} with row-major matrices, {:?} with memory layout {}", pa, pb, c.layout);
                same("forward likelihood", *forward(&a, &obs).1, *forward(&b, &obs).1)?;
                same("backward likelihood", *backward(&a, &obs).1, *backward(&b, &obs).1)?;
            }
        }
        let asym = (0..s).any(|i| (0..s).any(|j| c.trans[i * s + j] != c.trans[j * s + i]));
        Ok(Pass::new(s >= 2 && asym)
            .class_if(c.layout == 1, "column-major (f order)")
            .class_if(c.layout == 2, "owned transpose")
            .class_if(c.layout == 3, "reversed axes")
            .class_if(c.end.is_some(), "explicit end probabilities")
            .class_if(asym, "asymmetric transition matrix"))
    }

    pub fn strat(_t: Tier) -> BoxedStrategy<Case> {
        (1usize..=4, 1usize..=4)
            .prop_flat_map(|(s, m)| {
                (
                    Just(s),
                    Just(m),
                    proptest::collection::vec(prop_oneof![1 => Just(0u8), 3 => 1u8..=9], s * s),
                    proptest::collection::vec(prop_oneof![1 => Just(0u8), 3 => 1u8..=9], s * m),
                    proptest::collection::vec(1u8..=9, s),
                    proptest::option::weighted(0.4, proptest::collection::vec(any::<u8>(), s)),
                    proptest::collection::vec(0u8..m as u8, 1..=6),
                    1u8..=3,
                )
            })
            .prop_map(|(s, m, trans, emit, init, end, obs, layout)| Case { s, m, trans, emit, init, end, obs, layout })
            .boxed()
    }
}

// ---------------------------------------------------------------------------
// C11: read() and records() used on the same reader

pub mod fastx_mixed {
    use super::*;
    use bio::io::fasta::FastaRead;
    use bio::io::fastq::FastqRead;
    use bio::io::{fasta, fastq};

    #[derive(Serialize, Deserialize, Debug, Clone)]
    pub struct Case {
        pub fastq: bool,
        /// (id, description, sequence); qualities are derived
        pub recs: Vec<(String, Option<String>, B)>,
        /// number of records taken with read() before records() takes over
        pub first_reads: usize,
        pub wrap: Option<usize>,
        pub capacity: usize,
    }

    pub fn check(c: &Case) -> R {
        ensure!(!c.recs.is_empty() && c.capacity >= 1, "harness: empty case");
        let k = c.first_reads.min(c.recs.len());
        let mut got: Vec<(String, Option<String>, Vec<u8>)> = Vec::new();
        if !c.fastq {
            let mut buf = Vec::new();
            {
                let mut w = fasta::Writer::new(&mut buf);
                w.set_linewrap(c.wrap);
                for (id, d, s) in &c.recs {
                    w.write(id, d.as_deref(), s).map_err(|e| Stop::Fail(format!("writer error {}", e)))?;
                }
            }
            let mut r = fasta::Reader::with_capacity(c.capacity, &buf[..]);
            let mut rec = fasta::Record::new();
            for _ in 0..k {
                r.read(&mut rec).map_err(|e| Stop::Fail(format!("read() failed on writer output: {}", e)))?;
                got.push((rec.id().to_string(), rec.desc().map(|s| s.to_string()), rec.seq().to_vec()));
            }
            for item in r.records().take(c.recs.len() + 3) {
                match item {
                    Ok(rec) => got.push((rec.id().to_string(), rec.desc().map(|s| s.to_string()), rec.seq().to_vec())),
                    Err(e) => fail!("FASTA: after {} read() calls, records() reports an error on a valid stream: {} (records {:?}, wrap {:?}, capacity {})", k, e, c.recs, c.wrap, c.capacity),
                }
            }
        } else {
            let mut buf = Vec::new();
            {
                let mut w = fastq::Writer::new(&mut buf);
                for (id, d, s) in &c.recs {
                    let q: Vec<u8> = s.iter().enumerate().map(|(i, _)| b'!' + (i % 60) as u8).collect();
                    w.write(id, d.as_deref(), s, &q).map_err(|e| Stop::Fail(format!("writer error {}", e)))?;
                }
            }
            let mut r = fastq::Reader::with_capacity(c.capacity, &buf[..]);
            let mut rec = fastq::Record::new();
            for _ in 0..k {
                r.read(&mut rec).map_err(|e| Stop::Fail(format!("read() failed on writer output: {}", e)))?;
                got.push((rec.id().to_string(), rec.desc().map(|s| s.to_string()), rec.seq().to_vec()));
            }
            for item in r.records().take(c.recs.len() + 3) {
                match item {
                    Ok(rec) => got.push((rec.id().to_string(), rec.desc().map(|s| s.to_string()), rec.seq().to_vec())),
                    Err(e) => fail!("FASTQ: after {} read() calls, records() reports an error on a valid stream: {} (records {:?}, capacity {})", k, e, c.recs, c.capacity),
                }
            }
        }
        let want: Vec<(String, Option<String>, Vec<u8>)> = c.recs.iter().map(|(i, d, s)| (i.clone(), d.clone(), s.0.clone())).collect();
        ensure!(got == want, "{}: {} records through read() then the rest through records(): got {:?}, written {:?}", if c.fastq { "FASTQ" } else { "FASTA" }, k, got, want);
        Ok(Pass::new(c.recs.len() >= 2 && k >= 1 && k < c.recs.len())
            .class_if(k >= 1 && k < c.recs.len(), "read() then records() with records left")
            .class_if(k == 0, "records() only")
            .class_if(c.fastq, "fastq")
            .class_if(!c.fastq, "fasta"))
    }

    pub fn strat(_t: Tier) -> BoxedStrategy<Case> {
        let rec = ("[A-Za-z0-9_.:-]{1,8}", proptest::option::weighted(0.4, "[A-Za-z0-9=;.]{1,8}( [A-Za-z0-9=;.]{1,6}){0,2}"), proptest::collection::vec(proptest::sample::select(b"ACGTNacgtn".to_vec()), 1..=60));
        (any::<bool>(), proptest::collection::vec(rec, 1..=5), 0usize..=5, proptest::option::weighted(0.6, 1usize..=30), prop_oneof![Just(1usize), 2usize..=40, Just(8192usize)])
            .prop_map(|(fastq, recs, first_reads, wrap, capacity)| Case { fastq, recs: recs.into_iter().map(|(i, d, s)| (i, d, B(s))).collect(), first_reads, wrap, capacity })
            .boxed()
    }
}

// ---------------------------------------------------------------------------
// C07: AnnotMap with a reference-id type whose hashes collide (Hash looks at fewer fields than Eq)

pub mod annot_weak_hash {
    use super::*;
    use bio::data_structures::annot_map::AnnotMap;
    use bio_types::annot::contig::Contig;
    use bio_types::strand::ReqStrand;
    use std::hash::{Hash, Hasher};

    #[derive(Clone, Debug, PartialEq, Eq)]
    pub struct WeakId {
        pub assembly: u8,
        pub name: u8,
    }
    impl Hash for WeakId {
        fn hash<H: Hasher>(&self, h: &mut H) {
            // legal: equal values hash equal; different assemblies of the same name collide
            self.name.hash(h);
        }
    }

    #[derive(Serialize, Deserialize, Debug, Clone)]
    pub struct Case {
        /// (assembly, name, start, width, data)
        pub inserts: Vec<(u8, u8, i16, u8, u8)>,
        /// (assembly, name, start, width)
        pub queries: Vec<(u8, u8, i16, u8)>,
    }

    pub fn check(c: &Case) -> R {
        let mut map: AnnotMap<WeakId, u8> = AnnotMap::new();
        for (a, n, st, w, d) in &c.inserts {
            ensure!(*w >= 1, "harness: zero width");
            let loc = Contig::new(WeakId { assembly: *a, name: *n }, *st as isize, *w as usize, ReqStrand::Forward);
            map.insert_at(*d, &loc);
        }
        let mut colliding_hit = false;
        for (a, n, st, w) in &c.queries {
            let q = Contig::new(WeakId { assembly: *a, name: *n }, *st as isize, *w as usize, ReqStrand::Forward);
            let (qs, qe) = (*st as isize, *st as isize + *w as isize);
            let mut got: Vec<(isize, isize, u8)> = map.find(&q).take(c.inserts.len() + 2).map(|e| (e.interval().start, e.interval().end, *e.data())).collect();
            got.sort_unstable();
            let mut want: Vec<(isize, isize, u8)> = c
                .inserts
                .iter()
                .filter(|(ia, iname, ist, iw, _)| ia == a && iname == n && (*ist as isize) < qe && qs < *ist as isize + *iw as isize)
                .map(|(_, _, ist, iw, d)| (*ist as isize, *ist as isize + *iw as isize, *d))
                .collect();
            want.sort_unstable();
            ensure!(got == want, "AnnotMap keyed by (assembly, name) ids whose Hash only covers the name: find on ({}, {}) {}..{} returns {:?}, the entries stored under that id overlapping the query are {:?} (inserts {:?})", a, n, qs, qe, got, want, c.inserts);
            colliding_hit |= c.inserts.iter().any(|(ia, iname, ist, iw, _)| ia != a && iname == n && (*ist as isize) < qe && qs < *ist as isize + *iw as isize);
        }
        Ok(Pass::new(colliding_hit).class_if(colliding_hit, "query overlaps an entry of a different id with the same hash"))
    }

    pub fn strat(_t: Tier) -> BoxedStrategy<Case> {
        (proptest::collection::vec((0u8..=1, 0u8..=1, 0i16..=30, 1u8..=8, any::<u8>()), 1..=10), proptest::collection::vec((0u8..=1, 0u8..=1, 0i16..=30, 1u8..=12), 1..=5)).prop_map(|(inserts, queries)| Case { inserts, queries }).boxed()
    }
}

// ---------------------------------------------------------------------------
// C15: operand differences at the exponent boundaries of the fast exponential (k * ln 2 +- eps)

pub mod exp_boundaries {
    use super::*;
    use bio::stats::{LogProb, Prob};

    #[derive(Serialize, Deserialize, Debug, Clone)]
    pub struct Case {
        /// the difference of the two operands is k * ln 2 + eps
        pub k: u32,
        /// eps as an index into EPS
        pub eps: u8,
        /// log value of the larger operand, in thousandths
        pub top_milli: i64,
    }

    pub const EPS: [f64; 15] = [0.0, 1e-13, -1e-13, 1e-11, -1e-11, 1e-9, -1e-9, 1e-8, -1e-8, 3e-8, -3e-8, 1e-6, -1e-6, 1e-3, -1e-3];
    const TOL: f64 = 0.005;

    pub fn check(c: &Case) -> R {
        let d = c.k as f64 * std::f64::consts::LN_2 + EPS[c.eps as usize % EPS.len()];
        ensure!(d >= 0.0, "harness: negative difference");
        let top = c.top_milli as f64 / 1000.0;
        let (p, q) = (LogProb(top), LogProb(top - d));
        let desc = || format!("operands {:e} and {:e} (difference {} * ln 2 {:+e} = {:e})", top, top - d, c.k, EPS[c.eps as usize % EPS.len()], d);
        // addition: linear image relative to the larger operand = 1 + exp(-d)
        for (name, r) in [("ln_add_exp(p,q)", *p.ln_add_exp(q)), ("ln_add_exp(q,p)", *q.ln_add_exp(p)), ("ln_sum_exp([p,q])", *LogProb::ln_sum_exp(&[p, q])), ("ln_sum_exp([q,p,q])", *LogProb::ln_sum_exp(&[q, p, q]))] {
            ensure!(!r.is_nan(), "{} of {} = NaN", name, desc());
            let extra = if name.contains("q,p,q") { 2.0 } else { 1.0 };
            let want = 1.0 + extra * (-d).exp();
            let img = (r - top).exp();
            ensure!((img - want).abs() <= TOL, "{} of {}: image / largest operand = {:e}, linear arithmetic gives {:e}", name, desc(), img, want);
        }
        let cs: Vec<f64> = LogProb::ln_cumsum_exp(vec![q, p]).map(|x| *x).collect();
        ensure!(cs.len() == 2 && !cs[1].is_nan() && ((cs[1] - top).exp() - (1.0 + (-d).exp())).abs() <= TOL, "ln_cumsum_exp([q,p]) of {} = {:?}", desc(), cs);
        // subtraction p - q and complement 1 - exp(-d)
        let r = *p.ln_sub_exp(q);
        ensure!(!r.is_nan() && r <= top + 1e-9, "ln_sub_exp of {} = {:e}", desc(), r);
        let img = (r - top).exp();
        ensure!((img - (1.0 - (-d).exp())).abs() <= TOL, "ln_sub_exp of {}: image / largest operand = {:e}, linear arithmetic gives {:e}", desc(), img, 1.0 - (-d).exp());
        let r = *LogProb(-d).ln_one_minus_exp();
        ensure!(!r.is_nan() && r <= 1e-12, "ln_one_minus_exp({:e}) = {:e}", -d, r);
        ensure!((r.exp() - (1.0 - (-d).exp())).abs() <= TOL, "ln_one_minus_exp({:e}): image {:e}, linear arithmetic gives {:e}", -d, r.exp(), 1.0 - (-d).exp());
        // conversion through the fast exponential
        let pr = *Prob::from(LogProb(-d));
        ensure!(pr.is_finite() && pr >= 0.0 && (pr - (-d).exp()).abs() <= TOL * (-d).exp() + 1e-200, "Prob::from(LogProb({:e})) = {:e}, exp gives {:e}", -d, pr, (-d).exp());
        Ok(Pass::new(true).class_if(c.k >= 1000, "difference beyond 1000 * ln 2").class_if((1020..=1030).contains(&c.k), "difference around 1024 * ln 2").class_if((720..=725).contains(&c.k), "difference around 500 nats"))
    }

    pub fn enumerate(t: Tier) -> Box<dyn Iterator<Item = Case>> {
        let tops: Vec<i64> = match t {
            Tier::Quick => vec![0, -3000],
            Tier::Thorough => vec![0, -1, -3000, -40_000, -690_000],
        };
        let mut v = Vec::new();
        for k in 0..=1100u32 {
            for eps in 0..EPS.len() as u8 {
                if k == 0 && EPS[eps as usize] < 0.0 {
                    continue;
                }
                for &top_milli in &tops {
                    v.push(Case { k, eps, top_milli });
                }
            }
        }
        Box::new(v.into_iter())
    }
}

// ---------------------------------------------------------------------------
// registration

pub fn extend(props: &mut [Property]) {
    for p in props.iter_mut() {
        match p.id {
            "C03" => p.subs.push(Box::new(PropSub { name: "C03/values-sampling-rate", quick: 24_000, thorough: 400_000, shards_quick: 8, shards_thorough: 16, strat: sampling::strat, check: sampling::check_get, must_reach: &["sampling rate >= 2^32", "low 32 bits of the rate below the text length", "rate a multiple of 2^32"], watch: true })),
            "C05" => p.subs.push(Box::new(PropSub { name: "C05/values-sampling-rate", quick: 24_000, thorough: 400_000, shards_quick: 8, shards_thorough: 16, strat: sampling::strat, check: sampling::check_search, must_reach: &["sampling rate >= 2^32", "low 32 bits of the rate below the text length", "pattern occurs"], watch: true })),
            "C06" => p.subs.push(Box::new(PropSub { name: "C06/values-min-length", quick: 24_000, thorough: 400_000, shards_quick: 8, shards_thorough: 16, strat: smem_l::strat, check: smem_l::check, must_reach: &["l >= 2^32", "low 32 bits of l within the pattern length"], watch: true })),
            "C07" => p.subs.push(Box::new(PropSub { name: "C07/annot-colliding-hash", quick: 40_000, thorough: 600_000, shards_quick: 8, shards_thorough: 16, strat: annot_weak_hash::strat, check: annot_weak_hash::check, must_reach: &["query overlaps an entry of a different id with the same hash"], watch: false })),
            "C11" => p.subs.push(Box::new(PropSub { name: "C11/read-then-records", quick: 40_000, thorough: 600_000, shards_quick: 8, shards_thorough: 16, strat: fastx_mixed::strat, check: fastx_mixed::check, must_reach: &["read() then records() with records left", "fasta", "fastq"], watch: true })),
            "C14" => p.subs.push(Box::new(PropSub { name: "C14/memory-layout", quick: 40_000, thorough: 600_000, shards_quick: 8, shards_thorough: 16, strat: hmm_layout::strat, check: hmm_layout::check, must_reach: &["column-major (f order)", "owned transpose", "reversed axes", "asymmetric transition matrix", "explicit end probabilities"], watch: false })),
            "C15" => p.subs.push(Box::new(ExhSub { name: "C15/exponent-boundaries", enumerate: exp_boundaries::enumerate, check: exp_boundaries::check, must_reach: &["difference around 1024 * ln 2", "difference around 500 nats"] })),
            "C17" => p.subs.push(Box::new(PropSub { name: "C17/values-superblock-factor", quick: 16_000, thorough: 300_000, shards_quick: 8, shards_thorough: 16, strat: rank_k::strat, check: rank_k::check, must_reach: &["k >= 2^27 (superblock of 2^32 bits or more)", "k a multiple of 2^27", "low 32 bits of the superblock size below n"], watch: true })),
            "C20" => p.subs.push(Box::new(PropSub { name: "C20/values-min-len", quick: 40_000, thorough: 600_000, shards_quick: 8, shards_thorough: 16, strat: orf_min::strat, check: orf_min::check, must_reach: &["min_len >= 2^32", "min_len within 40 of a multiple of 3*2^32", "sequence contains complete frames that must be suppressed"], watch: true })),
            _ => {}
        }
    }
}
