//! C04 — BWT, less and Occ tables are exact; the BWT is invertible.

use crate::engine::*;
use crate::oracles::sa::{self, show, show_vec, textgen};
use crate::ensure;
use bio::alphabets::Alphabet;
use bio::data_structures::bwt::{bwt, invert_bwt, less, Occ};
use bio::data_structures::suffix_array::suffix_array;
use proptest::prelude::*;
use serde::{Deserialize, Serialize};

#[derive(Serialize, Deserialize, Debug, Clone)]
pub struct Case {
    /// body + trailing sentinel (smallest symbol; may also occur inside)
    pub text: B,
    /// symbols added to the alphabet handed to less / Occ (usually absent from the text)
    pub extra: B,
    /// keep a `$` sentinel in that alphabet (other sentinels are always kept)
    pub with_sentinel: bool,
    /// Occ sampling rate, 1..=2n
    pub k: u32,
}

pub fn check(c: &Case) -> R {
    let text: &[u8] = &c.text;
    ensure!(sa::in_domain(text), "harness: text {} is outside the domain (empty or last symbol not the smallest)", show(text));
    let n = text.len();
    let k = c.k as usize;
    ensure!(k >= 1 && k <= 2 * n, "harness: k={} outside 1..=2n for n={}", k, n);
    let sentinel = text[n - 1];
    let single = text.iter().filter(|&&x| x == sentinel).count() == 1;
    let syms = sa::alphabet_for(text, &c.extra, c.with_sentinel);
    let alphabet = Alphabet::new(&syms);

    // --- bwt: the symbol cyclically preceding the r-th smallest suffix -------------------
    let pos = sa::naive_sa(text);
    let b = bwt(text, &pos);
    ensure!(b.len() == n, "bwt: text {}: {} symbols, expected {}", show(text), b.len(), n);
    for r in 0..n {
        let want = text[(pos[r] + n - 1) % n];
        ensure!(b[r] == want, "bwt: text {} sa={}: bwt[{}]={:#04x}, the symbol before position {} is {:#04x}; bwt={}", show(text), show_vec(&pos), r, b[r], pos[r], want, show(&b));
    }
    // the same relation for the library's own suffix array (whatever order it gives to sentinels)
    // (a broken or panicking suffix_array is C03's business)
    let lib = catch(|| suffix_array(text)).unwrap_or_default();
    if lib.len() == n && lib.iter().all(|&p| p < n) {
        let b2 = bwt(text, &lib);
        for r in 0..n {
            let want = text[(lib[r] + n - 1) % n];
            ensure!(b2.len() == n && b2[r] == want, "bwt: text {} sa={} (suffix_array()): bwt[{}]={:#04x}, the symbol before position {} is {:#04x}", show(text), show_vec(&lib), r, b2[r], lib[r], want);
        }
    }

    // --- less: number of text symbols strictly smaller than c ---------------------------
    let mut count = [0usize; 256];
    for &ch in text {
        count[ch as usize] += 1;
    }
    let ls = less(&b, &alphabet);
    // entries must exist for every alphabet symbol, the sentinel and (FMD-index: less(a + 1)) the
    // successor of the largest symbol; every entry that exists must be exact
    let top = *syms.last().unwrap() as usize;
    let mut need: Vec<usize> = syms.iter().map(|&a| a as usize).collect();
    need.push(sentinel as usize);
    if top < 255 {
        need.push(top + 1);
    }
    for a in need {
        ensure!(a < ls.len(), "less: text {} alphabet {}: no entry for symbol {:#04x} (table has {} entries)", show(text), show(&syms), a, ls.len());
    }
    let mut smaller = 0usize;
    for ch in 0..ls.len() {
        ensure!(
            ls[ch] == smaller,
            "less: text {} alphabet {}: less[{:#04x}]={} but {} text symbols are smaller; less={}",
            show(text), show(&syms), ch, ls[ch], smaller, show_vec(&ls)
        );
        if ch < 256 {
            smaller += count[ch];
        }
    }

    // --- Occ: occurrences of c in bwt[0..=r], every row, every alphabet symbol + sentinel ----
    let occ = Occ::new(&b, c.k, &alphabet);
    let mut query: Vec<u8> = syms.clone();
    if !query.contains(&sentinel) {
        query.push(sentinel);
    }
    let mut running = [0usize; 256];
    for r in 0..n {
        running[b[r] as usize] += 1;
        for &a in &query {
            let got = occ.get(&b, r, a);
            ensure!(
                got == running[a as usize],
                "Occ: text {} bwt {} alphabet {} k={}: get(r={}, c={:#04x})={} but bwt[0..={}] contains it {} times",
                show(text), show(&b), show(&syms), k, r, a, got, r, running[a as usize]
            );
        }
    }

    // --- invert_bwt -----------------------------------------------------------------------
    if single {
        let inv = invert_bwt(&b);
        ensure!(inv == text, "invert_bwt: text {} bwt {}: inverse is {}", show(text), show(&b), show(&inv));
    }

    // --- classes ----------------------------------------------------------------------------
    // which Occ::get paths did the queries above take (derived from k, n and the bwt only)
    let mut shortcut = false; // k>64, next checkpoint exists, counts differ, row in the second half: counted backwards
    let mut bail = false; // k>64, next checkpoint exists, no occurrence in between: early return
    let mut fwd_big = false; // k>64 and counted forwards from the lower checkpoint
    if k > 64 {
        for r in 0..n {
            let lo = r / k * k;
            let hi = lo + k;
            if hi < n {
                for &a in &query {
                    let between = b[lo + 1..=hi].iter().filter(|&&x| x == a).count();
                    if between == 0 {
                        bail = true;
                    } else if hi - r < k / 2 {
                        shortcut = true;
                    } else {
                        fwd_big = true;
                    }
                }
            } else {
                fwd_big = true;
            }
        }
    }
    let absent = syms.iter().any(|&a| count[a as usize] == 0);
    let mut pass = Pass::new((k > 64 && shortcut) || absent);
    pass.add_if(k <= 64, "k<=64");
    pass.add_if((65..=130).contains(&k), "k in 65..=130");
    pass.add_if(k > 130, "k>130");
    pass.add_if(k > n, "k>n");
    pass.add_if(k == 1, "k=1");
    pass.add_if(k == 64 || k == 65, "k=64 or 65");
    pass.add_if(shortcut, "k>64: counted backwards from the next checkpoint");
    pass.add_if(bail, "k>64: equal checkpoints, early return");
    pass.add_if(fwd_big, "k>64: counted forwards");
    pass.add_if(k > 64 && k < n && (n - 1) % k == 0, "k>64: last row is a checkpoint");
    pass.add_if(absent, "symbol absent from text");
    pass.add_if(syms.iter().any(|&a| a < sentinel), "alphabet symbol below the sentinel");
    pass.add_if(!syms.contains(&sentinel), "alphabet without the $ sentinel");
    pass.add_if(!single, "multi-sentinel");
    pass.add_if(single, "single-sentinel (invert_bwt checked)");
    pass.add_if(syms.contains(&255), "max symbol 0xff");
    pass.add_if(sentinel == 0, "sentinel 0x00");
    pass.add_if(n == 1, "n=1");
    pass.add_if(n > 130, "n>130");
    pass.add_if(lib != pos, "library array differs from naive order");
    Ok(pass)
}

pub fn strat(t: Tier) -> BoxedStrategy<Case> {
    let lens: Vec<(u32, usize)> = match t {
        Tier::Quick => vec![(3, 19), (3, 120), (5, 400)],
        Tier::Thorough => vec![(3, 19), (3, 120), (5, 400), (1, 3000)],
    };
    (textgen::text(&lens), textgen::extra(), any::<bool>(), textgen::occ_rate())
        .prop_map(|(text, extra, with_sentinel, k)| {
            let n = text.len();
            Case { k: k.resolve(n, 2 * n), text: B(text), extra: B(extra), with_sentinel }
        })
        .boxed()
}

// ---------------------------------------------------------------------------
// bounded exhaustive: every text over {$, a, b} up to a body length + final $, every k in 1..=2n,
// alphabet with and without `$`, with and without an absent symbol

#[derive(Serialize, Deserialize, Debug, Clone)]
pub struct ExhCase {
    pub text: B,
}

pub fn check_exh(c: &ExhCase) -> R {
    let n = c.text.len();
    let mut pass = Pass::new(false);
    for k in 1..=(2 * n as u32) {
        for (extra, with_sentinel) in [(&b""[..], true), (&b""[..], false), (&b"c"[..], false), (&b"!"[..], true)] {
            let p = check(&Case { text: c.text.clone(), extra: B(extra.to_vec()), with_sentinel, k })?;
            pass.nontrivial |= p.nontrivial;
            for cl in p.classes {
                pass.add(cl);
            }
        }
    }
    pass.add("all k in 1..=2n");
    Ok(pass)
}

fn enumerate(t: Tier) -> Box<dyn Iterator<Item = ExhCase>> {
    Box::new(super::c03::exh::enumerate(t).map(|c| ExhCase { text: c.text }))
}

pub fn property() -> Property {
    Property {
        id: "C04",
        rule: "texts as in C03 (body + trailing sentinel $,!,#,0x00, interior sentinel occurrences 0/2/10/40 %, repetitive/structured/full-byte bodies, lengths <=19 / <=120 / <=400, thorough <=3000); alphabet = text symbols + random extra symbols, a `$` sentinel left out half of the time when a larger symbol exists; k in 1..=2n with k<=64, 65..=130, >130 and >n forced. Oracle: bwt[r] = symbol cyclically before sa[r] (sa from a naive suffix sort, and again for the library's array); less[c] = number of smaller text symbols for every index of the table (alphabet symbols, sentinel and max+1 must have an entry); Occ::get(r,c) = running count in bwt[0..=r] for every row r and every c in alphabet + sentinel; invert_bwt(bwt)==text for single-sentinel texts. Exhaustive: every text over {$,a,b} of body length <=8 (thorough 10) + final $, every k in 1..=2n, four alphabets. Non-trivial = k>64 and some query counted backwards from the next checkpoint, or an alphabet symbol absent from the text; distinct = distinct serialised case.",
        assumptions: &[
            "texts are non-empty and end in their smallest symbol",
            "the alphabet contains every text symbol except possibly a `$` sentinel when a larger symbol is present (Occ::new adds `$` itself: the documented DNA-alphabet usage)",
            "invert_bwt is only checked for single-sentinel texts, as stated",
        ],
        subs: vec![
            Box::new(PropSub {
                name: "C04/random",
                quick: 270_000,
                thorough: 1_800_000,
                shards_quick: 16,
                shards_thorough: 16,
                strat,
                check,
                must_reach: &[
                    "k<=64",
                    "k in 65..=130",
                    "k>n",
                    "symbol absent from text",
                    "k>64: counted backwards from the next checkpoint",
                    "k>64: equal checkpoints, early return",
                    "k>64: counted forwards",
                    "multi-sentinel",
                    "alphabet without the $ sentinel",
                ],
                watch: false,
            }),
            Box::new(ExhSub { name: "C04/exhaustive", enumerate, check: check_exh, must_reach: &["multi-sentinel", "symbol absent from text", "k>n"] }),
        ],
    }
}
