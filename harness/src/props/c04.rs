//! C04 — BWT, less and Occ tables are exact; the BWT is invertible.

use crate::engine::*;
use crate::oracles::sa::{self, show, show_vec, textgen};
use crate::ensure;
use bio::alphabets::Alphabet;
use bio::data_structures::bwt::{bwt, invert_bwt, less, Occ};
use bio::data_structures::suffix_array::suffix_array;
use proptest::prelude::*;
use serde::{Deserialize, Serialize};

#[derive(Serialize, Deserialize, Debug, Clone)]
pub struct Case {
    /// body + trailing sentinel (smallest symbol; may also occur inside)
    pub text: B,
    /// symbols added to the alphabet handed to less / Occ (usually absent from the text)
    pub extra: B,
    /// keep a `$` sentinel in that alphabet (other sentinels are always kept)
    pub with_sentinel: bool,
    /// Occ sampling rate, 1..=2n
    pub k: u32,
}

pub fn check(c: &Case) -> R {
    let text: &[u8] = &c.text;
    ensure!(sa::in_domain(text), "harness: text {} is outside the domain (empty or last symbol not the smallest)", show(text));
    let n = text.len();
    let k = c.k as usize;
    ensure!(k >= 1 && k <= 2 * n, "harness: k={} outside 1..=2n for n={}", k, n);
    let sentinel = text[n - 1];
    let single = text.iter().filter(|&&x| x == sentinel).count() == 1;
    let syms = sa::alphabet_for(text, &c.extra, c.with_sentinel);
    let alphabet = Alphabet::new(&syms);

    // --- bwt: the symbol cyclically preceding the r-th smallest suffix -------------------
    let pos = sa::naive_sa(text);
    let b = bwt(text, &pos);
    ensure!(b.len() == n, "bwt: text {}: {} symbols, expected {}", show(text), b.len(), n);
    for r in 0..n {
        let want = text[(pos[r] + n - 1) % n];
        ensure!(b[r] == want, "bwt: text {} sa={}: bwt[{}]={:#04x}, the symbol before position {} is {:#04x}; bwt={}", show(text), show_vec(&pos), r, b[r], pos[r], want, show(&b));
    }
    // the same relation for the library's own suffix array (whatever order it gives to sentinels)
    // (a broken or panicking suffix_array is C03's business)
    let lib = catch(|| suffix_array(text)).unwrap_or_default();
    if lib.len() == n && lib.iter().all(|&p| p < n) {
        let b2 = bwt(text, &lib);
        for r in 0..n {
            let want = text[(lib[r] + n - 1) % n];
            ensure!(b2.len() == n && b2[r] == want, "bwt: text {} sa={} (suffix_array()): bwt[{}]={:#04x}, the symbol before position {} is {:#04x}", show(text), show_vec(&lib), r, b2[r], lib[r], want);
        }
    }

    // --- less: number of text symbols strictly smaller than c ---------------------------
    let mut count = [0usize; 256];
    for &ch in text {
        count[ch as usize] += 1;
    }
    let ls = less(&b, &alphabet);
    // entries must exist for every alphabet symbol, the sentinel and (FMD-index: less(a + 1)) the
    // successor of the largest symbol; every entry that exists must be exact
    let top = *syms.last().unwrap() as usize;
    let mut need: Vec<usize> = syms.iter().map(|&a| a as usize).collect();
    need.push(sentinel as usize);
    if top < 255 {
        need.push(top + 1);
    }
    for a in need {
        ensure!(a < ls.len(), "less: text {} alphabet {}: no entry for symbol {:#04x} (table has {} entries)", show(text), show(&syms), a, ls.len());
    }
    let mut smaller = 0usize;
    for ch in 0..ls.len() {
        ensure!(
            ls[ch] == smaller,
            "less: text {} alphabet {}: less[{:#04x}]={} but {} text symbols are smaller; less={}",
            show(text), show(&syms), ch, ls[ch], smaller, show_vec(&ls)
        );
        if ch < 256 {
            smaller += count[ch];
        }
    }

    // --- Occ: occurrences of c in bwt[0..=r], every row, every alphabet symbol + sentinel ----
    let occ = Occ::new(&b, c.k, &alphabet);
    let mut query: Vec<u8> = syms.clone();
    if !query.contains(&sentinel) {
        query.push(sentinel);
    }
    let mut running = [0usize; 256];
    for r in 0..n {
        running[b[r] as usize] += 1;
        for &a in &query {
            let got = occ.get(&b, r, a);
            ensure!(
                got == running[a as usize],
                "Occ: text {} bwt {} alphabet {} k={}: get(r={}, c={:#04x})={} but bwt[0..={}] contains it {} times",
                show(text), show(&b), show(&syms), k, r, a, got, r, running[a as usize]
            );
        }
    }

    // --- invert_bwt -----------------------------------------------------------------------
    if single {
        let inv = invert_bwt(&b);
        ensure!(inv == text, "invert_bwt: text {} bwt {}: inverse is {}", show(text), show(&b), show(&inv));
    }

    // --- classes ----------------------------------------------------------------------------
    // which Occ::get paths did the queries above take (derived from k, n and the bwt only)
    let mut shortcut = false; // k>64, next checkpoint exists, counts differ, row in the second half: counted backwards
    let mut bail = false; // k>64, next checkpoint exists, no occurrence in between: early return
    let mut fwd_big = false; // k>64 and counted forwards from the lower checkpoint
    if k > 64 {
        for r in 0..n {
            let lo = r / k * k;
            let hi = lo + k;
            if hi < n {
                for &a in &query {
                    let between = b[lo + 1..=hi].iter().filter(|&&x| x == a).count();
                    if between == 0 {
                        bail = true;
                    } else if hi - r < k / 2 {
                        shortcut = true;
                    } else {
                        fwd_big = true;
                    }
                }
            } else {
                fwd_big = true;
            }
        }
    }
    let absent = syms.iter().any(|&a| count[a as usize] == 0);
    let mut pass = Pass::new((k > 64 && shortcut) || absent);
    pass.add_if(k <= 64, "k<=64");
    pass.add_if((65..=130).contains(&k), "k in 65..=130");
    pass.add_if(k > 130, "k>130");
    pass.add_if(k > n, "k>n");
    pass.add_if(k == 1, "k=1");
    pass.add_if(k == 64 || k == 65, "k=64 or 65");
    pass.add_if(shortcut, "k>64: counted backwards from the next checkpoint");
    pass.add_if(bail, "k>64: equal checkpoints, early return");
    pass.add_if(fwd_big, "k>64: counted forwards");
    pass.add_if(k > 64 && k < n && (n - 1) % k == 0, "k>64: last row is a checkpoint");
    pass.add_if(absent, "symbol absent from text");
    pass.add_if(syms.iter().any(|&a| a < sentinel), "alphabet symbol below the sentinel");
    pass.add_if(!syms.contains(&sentinel), "alphabet without the $ sentinel");
    pass.add_if(!single, "multi-sentinel");
    pass.add_if(single, "single-sentinel (invert_bwt checked)");
    pass.add_if(syms.contains(&255), "max symbol 0xff");
    pass.add_if(sentinel == 0, "sentinel 0x00");
    pass.add_if(n == 1, "n=1");
    pass.add_if(n > 130, "n>130");
    pass.add_if(lib != pos, "library array differs from naive order");
    Ok(pass)
}

pub fn strat(t: Tier) -> BoxedStrategy<Case> {
    let lens: Vec<(u32, usize)> = match t {
        Tier::Quick => vec![(3, 19), (3, 120), (5, 400)],
        Tier::Thorough => vec![(3, 19), (3, 120), (5, 400), (1, 3000)],
    };
    (textgen::text(&lens), textgen::extra(), any::<bool>(), textgen::occ_rate())
        .prop_map(|(text, extra, with_sentinel, k)| {
            let n = text.len();
            Case { k: k.resolve(n, 2 * n), text: B(text), extra: B(extra), with_sentinel }
        })
        .boxed()
}

// ---------------------------------------------------------------------------
// bounded exhaustive: every text over {$, a, b} up to a body length + final $, every k in 1..=2n,
// alphabet with and without `$`, with and without an absent symbol

#[derive(Serialize, Deserialize, Debug, Clone)]
pub struct ExhCase {
    pub text: B,
}

pub fn check_exh(c: &ExhCase) -> R {
    let n = c.text.len();
    let mut pass = Pass::new(false);
    for k in 1..=(2 * n as u32) {
        for (extra, with_sentinel) in [(&b""[..], true), (&b""[..], false), (&b"c"[..], false), (&b"!"[..], true)] {
            let p = check(&Case { text: c.text.clone(), extra: B(extra.to_vec()), with_sentinel, k })?;
            pass.nontrivial |= p.nontrivial;
            for cl in p.classes {
                pass.add(cl);
            }
        }
    }
    pass.add("all k in 1..=2n");
    Ok(pass)
}

fn enumerate(t: Tier) -> Box<dyn Iterator<Item = ExhCase>> {
    Box::new(super::c03::exh::enumerate(t).map(|c| ExhCase { text: c.text }))
}

// ---------------------------------------------------------------------------
// LARGE-SCALE sub-check: text length, Occ rate k, run lengths / counts inside one counted stretch,
// number of checkpoints and alphabet size across the ladder 255 .. 2^20 (see oracles/scale.rs).
// Oracle: prefix-count tables over the BWT (bwt itself is checked against the text first).

pub mod large {
    use super::*;
    use crate::c0306_ladder_labels;
    use crate::fail;
    use crate::oracles::scale::c0306::{self as sc, add_group, ladder, mix, Kind, LadderSub, Sent, Sm64, TextSpec};
    use bio::data_structures::bwt::bwtfind;

    pub const N_LABELS: [&str; 12] = c0306_ladder_labels!("n");
    pub const K_LABELS: [&str; 12] = c0306_ladder_labels!("Occ rate k");
    pub const CP_LABELS: [&str; 12] = c0306_ladder_labels!("checkpoints per symbol");
    pub const RUN_LABELS: [&str; 12] = c0306_ladder_labels!("longest BWT run");
    pub const CNT_LABELS: [&str; 12] = c0306_ladder_labels!("most occurrences counted in one stretch");

    #[derive(Serialize, Deserialize, Debug, Clone)]
    pub struct Case {
        pub text: TextSpec,
        /// Occ sampling rate, 1..=2n
        pub k: u32,
        /// symbols added to the alphabet handed to less / Occ
        pub extra: B,
        /// keep a `$` sentinel in that alphabet
        pub with_sentinel: bool,
        /// at most this many rows are queried (all rows when >= n), each for up to 8 symbols
        pub budget: usize,
        pub qseed: u64,
    }

    fn rows(c: &Case, n: usize) -> Vec<usize> {
        if c.budget >= n {
            return (0..n).collect();
        }
        let k = c.k as usize;
        let mut q: Vec<usize> = Vec::new();
        let mut rng = Sm64::new(c.qseed);
        {
            let mut add = |r: i64| {
                if r >= 0 && (r as usize) < n {
                    q.push(r as usize);
                }
            };
            for r in [0i64, 1, 2, n as i64 - 3, n as i64 - 2, n as i64 - 1] {
                add(r);
            }
            // checkpoint rows, rows next to them, and the rows around the "closer to the next checkpoint" switch
            let blocks = n / k + 1;
            let mut js: Vec<usize> = vec![0, 1, 2, blocks.saturating_sub(3), blocks.saturating_sub(2), blocks.saturating_sub(1), blocks];
            for _ in 0..8 {
                js.push(rng.below(blocks + 1));
            }
            for j in js {
                let cp = (j * k) as i64;
                for d in [-2i64, -1, 0, 1, 2] {
                    add(cp + d);
                    add(cp - (k / 2) as i64 + d);
                    add(cp + (k / 2) as i64 + d);
                }
            }
            for v in ladder(n) {
                for d in [-1i64, 0, 1] {
                    add(v as i64 + d);
                }
            }
            for _ in 0..c.budget {
                add(rng.below(n) as i64);
            }
        }
        let mut seen = std::collections::HashSet::new();
        q.retain(|r| seen.insert(*r));
        q.truncate(c.budget);
        q.sort_unstable();
        q
    }

    pub fn check(c: &Case) -> R {
        let Some(text) = c.text.build() else { fail!("harness: {:?} does not describe a text", c.text) };
        ensure!(sa::in_domain(&text), "harness: text of {:?} is outside the domain", c.text);
        let n = text.len();
        let k = c.k as usize;
        ensure!(k >= 1 && k <= 2 * n && c.budget >= 1, "harness: k={} outside 1..=2n for n={}", k, n);
        let sentinel = text[n - 1];
        let syms = sa::alphabet_for(&text, &c.extra, c.with_sentinel);
        let alphabet = Alphabet::new(&syms);

        let pos = suffix_array(&text);
        // a wrong suffix array is C03's finding; everything below is stated relative to a correct one
        let (t, m) = match sc::int_view(&text, &pos) {
            Ok(x) => x,
            Err(e) => fail!("suffix_array: text {:?}: {}", c.text, e),
        };
        if let Err(e) = sc::verify_sorted(&t, &pos) {
            fail!("suffix_array: text {:?}: {}", c.text, e);
        }
        let single = m == 1;

        // --- bwt
        let b = bwt(&text, &pos);
        ensure!(b.len() == n, "bwt: text {:?}: {} symbols, expected {}", c.text, b.len(), n);
        for r in 0..n {
            let want = text[(pos[r] + n - 1) % n];
            ensure!(b[r] == want, "bwt: text {:?} = {}: bwt[{}]={:#04x}, the symbol before position {} is {:#04x}", c.text, show(&text), r, b[r], pos[r], want);
        }

        // --- less
        let mut count = [0usize; 256];
        for &ch in &text {
            count[ch as usize] += 1;
        }
        let ls = less(&b, &alphabet);
        let top = *syms.last().unwrap() as usize;
        let mut need: Vec<usize> = syms.iter().map(|&a| a as usize).collect();
        need.push(sentinel as usize);
        if top < 255 {
            need.push(top + 1);
        }
        for a in need {
            ensure!(a < ls.len(), "less: text {:?} alphabet {}: no entry for symbol {:#04x} (table has {} entries)", c.text, show(&syms), a, ls.len());
        }
        let mut smaller = 0usize;
        for ch in 0..ls.len() {
            ensure!(ls[ch] == smaller, "less: text {:?} alphabet {}: less[{:#04x}]={} but {} text symbols are smaller", c.text, show(&syms), ch, ls[ch], smaller);
            if ch < 256 {
                smaller += count[ch];
            }
        }

        // --- bwtfind: the stable-sort permutation of the BWT
        let bf = bwtfind(&b, &alphabet);
        ensure!(bf.len() == n, "bwtfind: text {:?}: {} entries, expected {}", c.text, bf.len(), n);
        {
            let mut next = [0usize; 256];
            let mut acc = 0usize;
            for ch in 0..256 {
                next[ch] = acc;
                acc += count[ch];
            }
            let mut want = vec![0usize; n];
            for (r, &ch) in b.iter().enumerate() {
                want[next[ch as usize]] = r;
                next[ch as usize] += 1;
            }
            for i in 0..n {
                ensure!(bf[i] == want[i], "bwtfind: text {:?} = {}: entry {} is {} but the {}-th symbol of the stably sorted BWT comes from row {}", c.text, show(&text), i, bf[i], i, want[i]);
            }
        }

        // --- invert_bwt
        if single {
            let inv = invert_bwt(&b);
            ensure!(inv == text, "invert_bwt: text {:?} = {}: inverse is {}", c.text, show(&text), show(&inv));
        }

        // --- Occ against prefix-count tables
        let occ = Occ::new(&b, c.k, &alphabet);
        let mut qs: Vec<u8> = vec![sentinel, syms[0], *syms.last().unwrap()];
        let present: Vec<u8> = syms.iter().cloned().filter(|&a| count[a as usize] > 0 && a != sentinel).collect();
        if let Some(&a) = present.iter().max_by_key(|&&a| count[a as usize]) {
            qs.push(a);
        }
        if let Some(&a) = present.iter().min_by_key(|&&a| count[a as usize]) {
            qs.push(a);
        }
        qs.extend(c.extra.iter().cloned().filter(|a| syms.contains(a)).take(2));
        let mut rng = Sm64::new(mix(c.qseed, 77));
        for _ in 0..2 {
            qs.push(syms[rng.below(syms.len())]);
        }
        qs.sort_unstable();
        qs.dedup();
        let pre: Vec<Vec<u32>> = qs
            .iter()
            .map(|&a| {
                let mut v = Vec::with_capacity(n + 1);
                let mut acc = 0u32;
                v.push(0);
                for &x in &b {
                    acc += (x == a) as u32;
                    v.push(acc);
                }
                v
            })
            .collect();
        let q = rows(c, n);
        let mut most_counted = 0usize;
        let (mut shortcut, mut bail, mut fwd_big) = (false, false, false);
        for &r in &q {
            for (qi, &a) in qs.iter().enumerate() {
                let got = occ.get(&b, r, a);
                let want = pre[qi][r + 1] as usize;
                ensure!(
                    got == want,
                    "Occ: text {:?} = {} alphabet {} k={}: get(r={}, c={:#04x})={} but bwt[0..={}] contains it {} times",
                    c.text, show(&text), show(&syms), k, r, a, got, r, want
                );
                // which path did this query take, and how many occurrences were counted in the stretch
                let lo = r / k * k;
                let hi = lo + k;
                let counted = if k > 64 && hi < n {
                    let between = (pre[qi][hi + 1] - pre[qi][lo + 1]) as usize;
                    if between == 0 {
                        bail = true;
                        0
                    } else if hi - r < k / 2 {
                        shortcut = true;
                        (pre[qi][hi + 1] - pre[qi][r + 1]) as usize
                    } else {
                        fwd_big = true;
                        (pre[qi][r + 1] - pre[qi][lo + 1]) as usize
                    }
                } else {
                    (pre[qi][r + 1] - pre[qi][lo + 1]) as usize
                };
                most_counted = most_counted.max(counted);
            }
        }

        let mut run = 0usize;
        let mut cur = 0usize;
        for r in 0..n {
            cur = if r > 0 && b[r] == b[r - 1] { cur + 1 } else { 1 };
            run = run.max(cur);
        }
        let checkpoints = (n - 1) / k + 1;
        let absent = syms.iter().any(|&a| count[a as usize] == 0);
        let mut pass = Pass::new((k > 64 && shortcut) || absent);
        add_group(&mut pass, &N_LABELS, n);
        add_group(&mut pass, &K_LABELS, k);
        add_group(&mut pass, &CP_LABELS, checkpoints);
        add_group(&mut pass, &RUN_LABELS, run);
        add_group(&mut pass, &CNT_LABELS, most_counted);
        pass.add_if(most_counted > 255, ">255 occurrences counted in one stretch");
        pass.add_if(most_counted > 2048, ">2048 occurrences counted in one stretch");
        pass.add_if(most_counted > 65_535, ">65535 occurrences counted in one stretch");
        pass.add_if(k > n, "k>n");
        pass.add_if(k == 2 * n, "k=2n");
        pass.add_if(k == 1, "k=1");
        pass.add_if(k == 64 || k == 65, "k=64 or 65");
        pass.add_if(k > 65_536 && k < n, "k>65536 with a second checkpoint");
        pass.add_if(shortcut, "k>64: counted backwards from the next checkpoint");
        pass.add_if(bail, "k>64: equal checkpoints, early return");
        pass.add_if(fwd_big, "k>64: counted forwards");
        pass.add_if(absent, "symbol absent from text");
        pass.add_if(syms.len() >= 255, "alphabet of >=255 symbols");
        pass.add_if(syms.contains(&255), "max symbol 0xff");
        pass.add_if(!syms.contains(&sentinel), "alphabet without the $ sentinel");
        pass.add_if(count.iter().any(|&x| x > 65_535), "a symbol occurs more than 65535 times");
        pass.add_if(!single, "multi-sentinel");
        pass.add_if(single, "single-sentinel (invert_bwt checked)");
        pass.add_if(q.len() == n, "every row queried");
        pass.add_if(q.len() < n, "rows sampled");
        Ok(pass)
    }

    fn per_row(k: u32) -> u64 {
        8 * (k as u64 / 48 + 15)
    }

    pub fn weight(c: &Case) -> u64 {
        c.text.n as u64 * 4 + (c.budget.min(c.text.n) as u64) * per_row(c.k) / 20 + 2000
    }

    fn mk(text: TextSpec, k: usize, i: usize, seed: u64, effort: u64) -> Case {
        let k = k.clamp(1, 2 * text.n) as u32;
        let budget = ((effort / per_row(k)) as usize).clamp(200, 400_000);
        let extra: Vec<u8> = match i % 4 {
            0 => vec![],
            1 => b"N".to_vec(),
            2 => vec![0xff],
            _ => vec![text.sentinel.saturating_add(7), 0xfe],
        };
        Case { text, k, extra: B(extra), with_sentinel: i % 2 == 0, budget, qseed: seed }
    }

    pub fn cases(t: Tier, seed: u64) -> Vec<Case> {
        let mut v = Vec::new();
        let reps = if t == Tier::Quick { 1 } else { 6 };
        let effort: u64 = if t == Tier::Quick { 25_000_000 } else { 80_000_000 };
        let dna = |kind: Kind, n: usize, sigma: u16, sent: Sent, s: u64| TextSpec { kind, n, sigma, sent, sentinel: b'$', dna: true, seed: s };
        let bytes = |kind: Kind, n: usize, sigma: u16, sent: Sent, s: u64| TextSpec { kind, n, sigma, sent, sentinel: 0, dna: false, seed: s };
        for rep in 0..reps {
            let sd = |x: u64| mix(seed, 0xc04_0 + x * 1000 + rep as u64);
            let mut i = 0usize;
            // (1) text length ladder x a few rates (k=1: one checkpoint per row)
            for (vi, &n) in ladder(1 << 21).iter().enumerate() {
                let s = sd(vi as u64);
                let huge = n > 131_073;
                let mut texts = vec![dna(Kind::Random, n, 4, Sent::Single, s), dna(Kind::Homo, n, 1, Sent::Single, s)];
                if !huge || t == Tier::Thorough {
                    texts.push(dna(Kind::Period(2), n, 4, Sent::Single, s));
                    texts.push(bytes(Kind::Random, n, 254, Sent::Single, s));
                    texts.push(dna(Kind::Random, n, 4, Sent::Random(n / 200 + 1), s));
                    texts.push(dna(Kind::Period(100), n, 4, Sent::Every(101), s));
                    texts.push(dna(Kind::Fib, n, 2, Sent::Single, s));
                }
                for text in texts {
                    i += 1;
                    let small_alphabet = text.sigma <= 4;
                    let ks: [usize; 4] = [if small_alphabet && n <= 131_073 { 1 } else { 2 + i % 5 }, [64, 65, 128][i % 3], n / 2 + 1, n + 1 + i % 7];
                    let pick = if huge { vec![ks[1], ks[2]] } else { ks.to_vec() };
                    for k in pick {
                        v.push(mk(text.clone(), k, i, s, effort));
                    }
                }
            }
            // (2) Occ rate ladder; n a bit above 2k so that two full blocks exist; dense and random BWTs
            for (vi, &k) in ladder(1 << 19).iter().enumerate() {
                let s = sd(300 + vi as u64);
                let n = 2 * k + 11;
                let mut texts = vec![dna(Kind::Homo, n, 1, Sent::Single, s), dna(Kind::Random, n, 4, Sent::Single, s)];
                if k <= 131_073 || t == Tier::Thorough {
                    texts.push(dna(Kind::Period(2), n, 4, Sent::Single, s));
                    texts.push(dna(Kind::Asc, n, 4, Sent::Single, s));
                    texts.push(dna(Kind::Period(50), n, 4, Sent::Every(51), s));
                    texts.push(bytes(Kind::Random, n, 254, Sent::Random(9), s));
                }
                for text in texts {
                    i += 1;
                    v.push(mk(text, k, i, s, effort));
                }
                // k just above n, and k = 2n
                i += 1;
                v.push(mk(dna(Kind::Homo, k - 1, 1, Sent::Single, s), k, i, s, effort));
                i += 1;
                v.push(mk(dna(Kind::Random, (k + 1) / 2, 4, Sent::Single, s), (k + 1) / 2 * 2, i, s, effort));
            }
        }
        v
    }

    pub fn sub() -> LadderSub<Case> {
        LadderSub {
            name: "C04/large",
            cases,
            weight,
            check,
            shards_quick: 16,
            shards_thorough: 16,
            must_reach: &[
                N_LABELS[0], N_LABELS[1], N_LABELS[2], N_LABELS[3], N_LABELS[4], N_LABELS[5], N_LABELS[6], N_LABELS[7], N_LABELS[8], N_LABELS[9], N_LABELS[10], N_LABELS[11],
                K_LABELS[0], K_LABELS[1], K_LABELS[2], K_LABELS[3], K_LABELS[4], K_LABELS[5], K_LABELS[6], K_LABELS[7], K_LABELS[8], K_LABELS[9], K_LABELS[10],
                CP_LABELS[0], CP_LABELS[1], CP_LABELS[2], CP_LABELS[3], CP_LABELS[4], CP_LABELS[5], CP_LABELS[6], CP_LABELS[7], CP_LABELS[8], CP_LABELS[9],
                RUN_LABELS[0], RUN_LABELS[1], RUN_LABELS[2], RUN_LABELS[3], RUN_LABELS[4], RUN_LABELS[5], RUN_LABELS[6], RUN_LABELS[7], RUN_LABELS[8], RUN_LABELS[9], RUN_LABELS[10], RUN_LABELS[11],
                ">255 occurrences counted in one stretch", ">2048 occurrences counted in one stretch", ">65535 occurrences counted in one stretch",
                "k>n", "k=2n", "k=1", "k>65536 with a second checkpoint",
                "k>64: counted backwards from the next checkpoint", "k>64: equal checkpoints, early return", "k>64: counted forwards",
                "symbol absent from text", "alphabet of >=255 symbols", "max symbol 0xff", "alphabet without the $ sentinel",
                "a symbol occurs more than 65535 times", "multi-sentinel", "every row queried", "rows sampled",
            ],
        }
    }
}

pub fn property() -> Property {
    Property {
        id: "C04",
        rule: "texts as in C03 (body + trailing sentinel $,!,#,0x00, interior sentinel occurrences 0/2/10/40 %, repetitive/structured/full-byte bodies, lengths <=19 / <=120 / <=400, thorough <=3000); alphabet = text symbols + random extra symbols, a `$` sentinel left out half of the time when a larger symbol exists; k in 1..=2n with k<=64, 65..=130, >130 and >n forced. Oracle: bwt[r] = symbol cyclically before sa[r] (sa from a naive suffix sort, and again for the library's array); less[c] = number of smaller text symbols for every index of the table (alphabet symbols, sentinel and max+1 must have an entry); Occ::get(r,c) = running count in bwt[0..=r] for every row r and every c in alphabet + sentinel; invert_bwt(bwt)==text for single-sentinel texts. Exhaustive: every text over {$,a,b} of body length <=8 (thorough 10) + final $, every k in 1..=2n, four alphabets. Non-trivial = k>64 and some query counted backwards from the next checkpoint, or an alphabet symbol absent from the text; distinct = distinct serialised case. LARGE-SCALE (C04/large; enumerated parameter cases): text length, Occ rate k (up to 2^19, k>n, k=2n), checkpoints per symbol, longest BWT run and occurrences counted inside one stretch (>255, >2048, >65535), alphabets of 255+ symbols on the ladder 255..2^20+1; bwt against the text, less against symbol counts, bwtfind against a counting sort, invert_bwt, and Occ::get against prefix-count tables for every row or a budgeted selection (checkpoint rows +-2, the rows around the count-backwards switch, ladder rows, first/last, random) for up to 8 symbols.",
        assumptions: &[
            "texts are non-empty and end in their smallest symbol",
            "the alphabet contains every text symbol except possibly a `$` sentinel when a larger symbol is present (Occ::new adds `$` itself: the documented DNA-alphabet usage)",
            "invert_bwt is only checked for single-sentinel texts, as stated",
        ],
        subs: vec![
            Box::new(PropSub {
                name: "C04/random",
                quick: 270_000,
                thorough: 1_800_000,
                shards_quick: 16,
                shards_thorough: 16,
                strat,
                check,
                must_reach: &[
                    "k<=64",
                    "k in 65..=130",
                    "k>n",
                    "symbol absent from text",
                    "k>64: counted backwards from the next checkpoint",
                    "k>64: equal checkpoints, early return",
                    "k>64: counted forwards",
                    "multi-sentinel",
                    "alphabet without the $ sentinel",
                ],
                watch: false,
            }),
            Box::new(ExhSub { name: "C04/exhaustive", enumerate, check: check_exh, must_reach: &["multi-sentinel", "symbol absent from text", "k>n"] }),
            Box::new(large::sub()),
        ],
    }
}
