//! C07 — interval trees (AVL, array-backed) and the annotation map report exactly the
//! overlapping entries; the AVL tree stays height-balanced after every insertion.
//!
//! Sub-checks
//! * `C07/history`     random histories of insert / find / index run in lock-step against
//!                     the AVL tree, the array-backed tree, two annotation maps and a Vec model;
//!                     AVL structure observed through the derived `Serialize` impl.
//! * `C07/array-sizes` array-backed tree only: bulk insert n entries (n emphasised around powers
//!                     of two), index, query; insert more, re-index, query; `from_iter`.
//! * `C07/exhaustive`  every insertion sequence of length <= L over 4 starts x 2 widths and every
//!                     permutation of P distinct starts (two width patterns), every query.

use crate::engine::*;
use crate::{ensure, fail};
use bio::data_structures::annot_map::AnnotMap;
use bio::data_structures::interval_tree::{ArrayBackedIntervalTree, IntervalTree};
use bio_types::annot::contig::Contig;
use bio_types::annot::loc::Loc;
use bio_types::strand::ReqStrand;
use proptest::prelude::*;
use serde::{Deserialize, Serialize};

// ---------------------------------------------------------------------------
// key types

pub trait Key: Ord + Copy + std::fmt::Debug + Serialize + 'static {
    fn from_i64(v: i64) -> Option<Self>;
    fn to_i64(self) -> i64;
}
impl Key for i64 {
    fn from_i64(v: i64) -> Option<i64> {
        Some(v)
    }
    fn to_i64(self) -> i64 {
        self
    }
}
impl Key for u8 {
    fn from_i64(v: i64) -> Option<u8> {
        if (0..=255).contains(&v) {
            Some(v as u8)
        } else {
            None
        }
    }
    fn to_i64(self) -> i64 {
        self as i64
    }
}

#[derive(Serialize, Deserialize, Debug, Clone, Copy, PartialEq, Eq)]
pub enum KeyT {
    #[serde(rename = "i64")]
    I64,
    #[serde(rename = "u8")]
    U8,
}

/// (start, end, data) triples, compared as sorted vectors = multisets
type Triple = (i64, i64, u8);

fn overlaps(s: i64, e: i64, qs: i64, qe: i64) -> bool {
    s < qe && qs < e
}

// ---------------------------------------------------------------------------
// observation of the AVL tree through its derived Serialize impl

#[derive(Deserialize, Debug, Clone, PartialEq)]
#[serde(deny_unknown_fields)]
struct MRange {
    start: i64,
    end: i64,
}

#[derive(Deserialize, Debug, Clone, PartialEq)]
#[serde(deny_unknown_fields)]
struct MNode {
    interval: MRange,
    value: i64,
    max: i64,
    height: i64,
    left: Option<Box<MNode>>,
    right: Option<Box<MNode>>,
}

#[derive(Deserialize, Debug, Clone, PartialEq)]
#[serde(deny_unknown_fields)]
struct MTree {
    root: Option<MNode>,
}

/// A failure to *observe* is reported with the fixed prefix "observation lost:" so that the
/// driver can map it to inconclusive; it is never a statement about the tree.
fn observe<N: Key>(tree: &IntervalTree<N, u8>) -> Result<MTree, Stop> {
    let v = match serde_json::to_value(tree) {
        Ok(v) => v,
        Err(e) => fail!("observation lost: IntervalTree does not serialise: {}", e),
    };
    // every key the mirror relies on must be present explicitly (a missing Option field would
    // otherwise silently read as None)
    fn keys_ok(n: &serde_json::Value) -> bool {
        match n {
            serde_json::Value::Null => true,
            serde_json::Value::Object(m) => {
                ["interval", "value", "max", "height", "left", "right"].iter().all(|k| m.contains_key(*k))
                    && keys_ok(&m["left"])
                    && keys_ok(&m["right"])
            }
            _ => false,
        }
    }
    let root_ok = match &v {
        serde_json::Value::Object(m) => m.contains_key("root") && keys_ok(&m["root"]),
        _ => false,
    };
    if !root_ok {
        let s = v.to_string();
        fail!("observation lost: serialised IntervalTree lacks root/{{interval,value,max,height,left,right}}: {}", &s[..s.len().min(300)]);
    }
    match MTree::deserialize(&v) {
        Ok(t) => Ok(t),
        Err(e) => {
            let s = v.to_string();
            fail!("observation lost: serialised IntervalTree has an unexpected shape ({}): {}", e, &s[..s.len().min(300)])
        }
    }
}

struct Walk {
    count: usize,
    starts: Vec<i64>,
    payload: Vec<Triple>,
}

/// returns (recomputed height, recomputed max end)
fn walk(n: &MNode, w: &mut Walk, ctx: &dyn Fn() -> String) -> Result<(i64, i64), Stop> {
    let (lh, lm) = match &n.left {
        Some(l) => {
            let (h, m) = walk(l, w, ctx)?;
            (h, Some(m))
        }
        None => (0, None),
    };
    w.count += 1;
    w.starts.push(n.interval.start);
    w.payload.push((n.interval.start, n.interval.end, n.value as u8));
    let (rh, rm) = match &n.right {
        Some(r) => {
            let (h, m) = walk(r, w, ctx)?;
            (h, Some(m))
        }
        None => (0, None),
    };
    ensure!(
        (lh - rh).abs() <= 1,
        "AVL balance violated at node {}..{}: height(left)={} height(right)={}; {}",
        n.interval.start,
        n.interval.end,
        lh,
        rh,
        ctx()
    );
    let h = 1 + lh.max(rh);
    // the stored `height` field is not compared: only the shape (balance) is part of the property
    let _ = n.height;
    let mut m = n.interval.end;
    if let Some(x) = lm {
        m = m.max(x);
    }
    if let Some(x) = rm {
        m = m.max(x);
    }
    // an over-approximated subtree maximum would only cost time; one that is too small makes the
    // pruned search drop overlapping entries
    ensure!(
        n.max >= m,
        "AVL node {}..{}: stored max {} is smaller than the largest end {} in its subtree (the pruned search would skip overlapping entries); {}",
        n.interval.start,
        n.interval.end,
        n.max,
        m,
        ctx()
    );
    Ok((h, m))
}

/// minimal number of nodes of an AVL tree of height h
fn min_nodes(h: i64) -> u64 {
    let (mut a, mut b) = (0u64, 1u64); // N(0), N(1)
    if h <= 0 {
        return 0;
    }
    for _ in 1..h {
        let c = a + b + 1;
        a = b;
        b = c;
    }
    b
}

/// structural invariants after an insertion; returns the tree height
fn check_structure(t: &MTree, model: &[(i64, i64, u8, u8)], ctx: &dyn Fn() -> String) -> Result<i64, Stop> {
    let mut w = Walk { count: 0, starts: Vec::new(), payload: Vec::new() };
    let h = match &t.root {
        Some(r) => walk(r, &mut w, ctx)?.0,
        None => 0,
    };
    ensure!(w.count == model.len(), "AVL tree has {} nodes after {} insertions; {}", w.count, model.len(), ctx());
    ensure!(
        w.starts.windows(2).all(|p| p[0] <= p[1]),
        "AVL in-order starts are not non-decreasing: {}; {}",
        brief(&w.starts),
        ctx()
    );
    let mut got = w.payload;
    got.sort_unstable();
    let mut exp: Vec<Triple> = model.iter().map(|&(s, e, d, _)| (s, e, d)).collect();
    exp.sort_unstable();
    ensure!(got == exp, "AVL nodes hold {} but the inserted entries are {}; {}", brief(&got), brief(&exp), ctx());
    ensure!(
        (w.count as u64) >= min_nodes(h),
        "AVL height {} needs at least {} nodes but the tree has {}; {}",
        h,
        min_nodes(h),
        w.count,
        ctx()
    );
    Ok(h)
}

#[derive(Clone, Copy, PartialEq, Eq, Debug)]
enum Rot {
    None,
    Left,
    Right,
    RightLeft,
    LeftRight,
    Other,
}

fn payload(n: &MNode) -> (i64, i64, i64) {
    (n.interval.start, n.interval.end, n.value)
}

/// Which rotation did the last insertion perform? Derived from the shapes before and after
/// (statistics only; with exact duplicates the kind may be mis-labelled).
fn rotation(old: Option<&MNode>, new: Option<&MNode>) -> Rot {
    match (old, new) {
        (None, _) => Rot::None,
        (Some(_), None) => Rot::Other,
        (Some(o), Some(n)) => {
            if payload(o) == payload(n) {
                let l = rotation(o.left.as_deref(), n.left.as_deref());
                if l != Rot::None {
                    return l;
                }
                rotation(o.right.as_deref(), n.right.as_deref())
            } else {
                let np = payload(n);
                if o.right.as_ref().map(|r| payload(r)) == Some(np) {
                    Rot::Left
                } else if o.left.as_ref().map(|l| payload(l)) == Some(np) {
                    Rot::Right
                } else if n.left.as_ref().map(|l| payload(l)) == Some(payload(o)) {
                    Rot::RightLeft
                } else if n.right.as_ref().map(|r| payload(r)) == Some(payload(o)) {
                    Rot::LeftRight
                } else {
                    Rot::Other
                }
            }
        }
    }
}

// ---------------------------------------------------------------------------
// C07/history

#[derive(Serialize, Deserialize, Debug, Clone)]
pub enum Op {
    /// insert [start, start+width) with `data`; the annotation maps file it under `refid`
    #[serde(rename = "ins")]
    Insert { start: u16, width: u16, data: u8, refid: u8 },
    /// query [start, start+width): AVL find + find_mut, array tree (after `index()` when
    /// `index_first`, otherwise the query must be refused while the tree is un-indexed),
    /// annotation maps restricted to `refid`
    #[serde(rename = "find")]
    Find { start: u16, width: u16, refid: u8, index_first: bool },
    #[serde(rename = "index")]
    Index,
}

#[derive(Serialize, Deserialize, Debug, Clone)]
pub struct Case {
    pub key: KeyT,
    /// added to every position (i64 keys only; must be 0 for u8)
    pub offset: i64,
    pub ops: Vec<Op>,
}

const REFNAMES: [&str; 4] = ["chrI", "chrII", "chrX", "chrM"];

fn refname(r: u8) -> String {
    REFNAMES[(r as usize) % REFNAMES.len()].to_string()
}

fn strand_of(d: u8) -> ReqStrand {
    if d % 2 == 0 {
        ReqStrand::Forward
    } else {
        ReqStrand::Reverse
    }
}

fn sorted(mut v: Vec<Triple>) -> Vec<Triple> {
    v.sort_unstable();
    v
}

/// the first entries of a long list (the replay file holds the complete case)
fn brief<T: std::fmt::Debug>(v: &[T]) -> String {
    if v.len() <= 48 {
        format!("{:?}", v)
    } else {
        format!("{:?} ..and {} more (see the replay case)", &v[..48], v.len() - 48)
    }
}

fn is_pow2(n: usize) -> bool {
    n != 0 && n & (n - 1) == 0
}

pub fn check(c: &Case) -> R {
    match c.key {
        KeyT::I64 => run::<i64>(c),
        KeyT::U8 => {
            ensure!(c.offset == 0, "harness: offset must be 0 for u8 keys");
            run::<u8>(c)
        }
    }
}

fn run<N: Key>(c: &Case) -> R {
    let mut avl: IntervalTree<N, u8> = IntervalTree::new();
    let mut arr: ArrayBackedIntervalTree<N, u8> = ArrayBackedIntervalTree::new();
    let mut amap: AnnotMap<String, u8> = AnnotMap::new();
    let mut lmap: AnnotMap<String, Contig<String, ReqStrand>> = AnnotMap::new();
    // (start, end, data, refid)
    let mut model: Vec<(i64, i64, u8, u8)> = Vec::new();
    let mut arr_indexed = false;
    let mut arr_ever_indexed = false;
    let mut inserts_since_index = 0usize;
    let mut shape = observe(&avl)?;
    ensure!(shape.root.is_none(), "empty AVL tree serialises with a root: {:?}", shape);

    let mut pass = Pass::new(false);
    let mut nrot = 0usize;
    let mut height = 0i64;
    let mut insert_starts: Vec<u16> = Vec::new();

    let key = |v: i64| -> Result<N, Stop> {
        match N::from_i64(v) {
            Some(k) => Ok(k),
            None => Err(Stop::Fail(format!("harness: position {} does not fit the key type", v))),
        }
    };
    let pos = |start: u16, width: u16| -> Result<(i64, i64), Stop> {
        ensure!(width >= 1, "harness: zero-width interval generated");
        let s = c.offset.checked_add(start as i64);
        let e = s.and_then(|s| s.checked_add(width as i64));
        match (s, e) {
            (Some(s), Some(e)) => Ok((s, e)),
            _ => Err(Stop::Fail("harness: position overflows i64".to_string())),
        }
    };

    for (step, op) in c.ops.iter().enumerate() {
        match *op {
            Op::Insert { start, width, data, refid } => {
                let (s, e) = pos(start, width)?;
                let (ks, ke) = (key(s)?, key(e)?);
                avl.insert(ks..ke, data);
                arr.insert(ks..ke, data);
                let loc = Contig::new(refname(refid), s as isize, width as usize, strand_of(data));
                amap.insert_at(data, &loc);
                lmap.insert_loc(loc);
                pass.add_if(model.iter().any(|m| (m.0, m.1, m.2) == (s, e, data)), "duplicate (interval,data) entry");
                pass.add_if(model.iter().any(|m| (m.0, m.1) == (s, e)), "duplicate interval");
                pass.add_if(model.iter().any(|m| m.0 == s && m.1 != e), "equal starts, different ends");
                model.push((s, e, data, refid));
                insert_starts.push(start);
                if arr_indexed {
                    pass.add("array: insert after index");
                }
                arr_indexed = false;
                inserts_since_index += 1;

                // structure after every insertion
                let new_shape = observe(&avl)?;
                let ctx = || format!("after step {} (insert {}..{} data {}), {} entries", step, s, e, data, model.len());
                height = check_structure(&new_shape, &model, &ctx)?;
                let r = rotation(shape.root.as_ref(), new_shape.root.as_ref());
                match r {
                    Rot::None => {}
                    Rot::Left => pass.add("rotation: single left"),
                    Rot::Right => pass.add("rotation: single right"),
                    Rot::RightLeft => pass.add("rotation: double right-left"),
                    Rot::LeftRight => pass.add("rotation: double left-right"),
                    Rot::Other => pass.add("rotation: unclassified shape change"),
                }
                if r != Rot::None {
                    nrot += 1;
                }
                shape = new_shape;
            }
            Op::Index => {
                arr.index();
                if arr_ever_indexed && inserts_since_index > 0 {
                    pass.add("array: re-index after more inserts");
                }
                arr_indexed = true;
                arr_ever_indexed = true;
                inserts_since_index = 0;
            }
            Op::Find { start, width, refid, index_first } => {
                let (qs, qe) = pos(start, width)?;
                let (ks, ke) = (key(qs)?, key(qe)?);
                let n = model.len();
                let expect: Vec<Triple> =
                    sorted(model.iter().filter(|m| overlaps(m.0, m.1, qs, qe)).map(|m| (m.0, m.1, m.2)).collect());
                let hdr = || format!("step {}: query {}..{} on {} entries {}", step, qs, qe, n, brief(&model));

                // AVL, shared iterator
                let got = sorted(
                    avl.find(ks..ke).take(n + 2).map(|e| (e.interval().start.to_i64(), e.interval().end.to_i64(), *e.data())).collect(),
                );
                ensure!(got == expect, "IntervalTree::find: {}: got {:?}, expected {:?}", hdr(), got, expect);
                // AVL, mutable iterator
                let mut got: Vec<Triple> = Vec::new();
                for mut e in avl.find_mut(ks..ke).take(n + 2) {
                    let (s, t) = (e.interval().start.to_i64(), e.interval().end.to_i64());
                    let d: u8 = *e.data();
                    got.push((s, t, d));
                }
                let got = sorted(got);
                ensure!(got == expect, "IntervalTree::find_mut: {}: got {:?}, expected {:?}", hdr(), got, expect);

                // array-backed tree
                if index_first && !arr_indexed {
                    arr.index();
                    if arr_ever_indexed && inserts_since_index > 0 {
                        pass.add("array: re-index after more inserts");
                    }
                    arr_indexed = true;
                    arr_ever_indexed = true;
                    inserts_since_index = 0;
                }
                if arr_indexed {
                    let got = sorted(arr.find(ks..ke).iter().map(|e| (e.interval().start.to_i64(), e.interval().end.to_i64(), *e.data())).collect());
                    ensure!(got == expect, "ArrayBackedIntervalTree::find: {}: got {:?}, expected {:?}", hdr(), got, expect);
                    let mut buf = arr.find(ks..ks.max(ke)); // a used buffer: find_into must replace its content
                    arr.find_into(ks..ke, &mut buf);
                    let got = sorted(buf.iter().map(|e| (e.interval().start.to_i64(), e.interval().end.to_i64(), *e.data())).collect());
                    ensure!(got == expect, "ArrayBackedIntervalTree::find_into: {}: got {:?}, expected {:?}", hdr(), got, expect);
                    pass.add_if(n >= 3 && !is_pow2(n) && !is_pow2(n + 1), "array: queried with n not 2^k or 2^k-1");
                    pass.add_if(n >= 16, "array: queried with n>=16 (implicit tree above the leaf scan)");
                    pass.add_if(n >= 64, "array: queried with n>=64");
                } else {
                    let r = catch(|| arr.find(ks..ke).len());
                    ensure!(
                        r.is_err(),
                        "ArrayBackedIntervalTree::find on an un-indexed tree was not refused: {}: returned {} entries",
                        hdr(),
                        r.unwrap_or(0)
                    );
                    let r = catch(|| {
                        let mut buf = Vec::new();
                        arr.find_into(ks..ke, &mut buf);
                        buf.len()
                    });
                    ensure!(
                        r.is_err(),
                        "ArrayBackedIntervalTree::find_into on an un-indexed tree was not refused: {}: returned {} entries",
                        hdr(),
                        r.unwrap_or(0)
                    );
                    pass.add("array: un-indexed query refused");
                    pass.add_if(!arr_ever_indexed, "array: never-indexed query refused");
                    pass.add_if(arr_ever_indexed, "array: query refused after insert invalidated the index");
                }

                // annotation maps, restricted to the queried reference id
                let rname = refname(refid);
                let expect_ref: Vec<Triple> = sorted(
                    model.iter().filter(|m| refname(m.3) == rname && overlaps(m.0, m.1, qs, qe)).map(|m| (m.0, m.1, m.2)).collect(),
                );
                let q = Contig::new(rname.clone(), qs as isize, width as usize, ReqStrand::Forward);
                let mut got = Vec::new();
                for e in amap.find(&q).take(n + 2) {
                    ensure!(e.refid() == &rname, "AnnotMap::find: {} refid {}: entry reports refid {:?}", hdr(), rname, e.refid());
                    got.push((e.interval().start as i64, e.interval().end as i64, *e.data()));
                }
                let got = sorted(got);
                ensure!(got == expect_ref, "AnnotMap::find (insert_at): {} refid {}: got {:?}, expected {:?}", hdr(), rname, got, expect_ref);
                let mut got = Vec::new();
                for e in lmap.find(&q).take(n + 2) {
                    ensure!(e.refid() == &rname, "AnnotMap::find: {} refid {}: entry reports refid {:?}", hdr(), rname, e.refid());
                    let d = e.data();
                    ensure!(
                        d.refid() == &rname && d.start() as i64 == e.interval().start as i64 && d.start() as i64 + d.length() as i64 == e.interval().end as i64,
                        "AnnotMap::find (insert_loc): {} refid {}: entry interval {:?} does not belong to its data {:?}",
                        hdr(),
                        rname,
                        e.interval(),
                        d
                    );
                    got.push((e.interval().start as i64, e.interval().end as i64, if d.strand() == ReqStrand::Forward { 0u8 } else { 1u8 }));
                }
                let got = sorted(got);
                let expect_loc: Vec<Triple> = sorted(expect_ref.iter().map(|t| (t.0, t.1, t.2 % 2)).collect());
                ensure!(got == expect_loc, "AnnotMap::find (insert_loc): {} refid {}: got {:?}, expected {:?} (third field = strand)", hdr(), rname, got, expect_loc);

                // classes
                let some = !expect.is_empty();
                let not_all = expect.len() < n;
                if n >= 8 && some && not_all {
                    pass.nontrivial = true;
                }
                pass.add_if(some && not_all, "query overlaps some, excludes some");
                pass.add_if(!some && n > 0, "query overlaps none");
                pass.add_if(some && !not_all && n >= 2, "query overlaps all");
                pass.add_if(model.iter().any(|m| m.1 == qs || m.0 == qe), "query abuts an entry (half-open boundary)");
                pass.add_if(n == 0, "query on empty structures");
                let other_ref_hit = model.iter().any(|m| refname(m.3) != rname && overlaps(m.0, m.1, qs, qe));
                pass.add_if(other_ref_hit && !expect_ref.is_empty(), "annot: query hits its refid and must exclude overlaps on another refid");
                pass.add_if(other_ref_hit && expect_ref.is_empty(), "annot: overlaps exist only on other refids");
                pass.add_if(!model.iter().any(|m| refname(m.3) == rname) && n > 0, "annot: query on a refid without entries");
            }
        }
    }

    let n = model.len();
    let mut refs: Vec<u8> = model.iter().map(|m| m.3 % REFNAMES.len() as u8).collect();
    refs.sort_unstable();
    refs.dedup();
    pass.add_if(refs.len() >= 2, "annot: >=2 refids populated");
    pass.add_if(refs.len() >= 3, "annot: >=3 refids populated");
    if n >= 8 {
        let asc = insert_starts.windows(2).all(|w| w[0] <= w[1]);
        let desc = insert_starts.windows(2).all(|w| w[0] >= w[1]);
        pass.add_if(asc && !desc, "insertion order: ascending starts");
        pass.add_if(desc && !asc, "insertion order: descending starts");
        pass.add_if(!asc && !desc, "insertion order: mixed");
        pass.add_if(asc && desc, "insertion order: all starts equal");
    }
    pass.add_if(nrot >= 1, "rotation occurred");
    pass.add_if(nrot >= 10, "rotations >= 10");
    pass.add_if(height >= 5, "AVL height >= 5");
    pass.add_if(height >= 7, "AVL height >= 7");
    pass.add_if(n >= 8, "inserts >= 8");
    pass.add_if(n >= 64, "inserts >= 64");
    pass.add_if(c.key == KeyT::U8, "key type u8");
    pass.add_if(c.key == KeyT::I64, "key type i64");
    pass.add_if(c.offset < 0, "negative positions");
    pass.add_if(c.offset == i64::MIN || c.offset >= i64::MAX - 1000, "positions at the i64 limits");
    Ok(pass)
}

// generator ------------------------------------------------------------------

#[derive(Debug, Clone, Copy)]
struct Geo {
    /// starts in 0..=r
    r: u16,
    /// widths in 1..=w
    w: u16,
    nref: u8,
}

fn op_strat(g: Geo, p_ins: u32, p_find: u32, p_index: u32) -> BoxedStrategy<Op> {
    let data = prop_oneof![0u8..3, any::<u8>()];
    let wide = g.w;
    prop_oneof![
        p_ins => (0..=g.r, prop_oneof![3 => 1..=wide, 1 => Just(1u16), 1 => Just(wide)], data, 0..g.nref)
            .prop_map(|(start, width, data, refid)| Op::Insert { start, width, data, refid }),
        p_find => (0..=g.r.saturating_add(3).min(200), prop_oneof![3 => 1..=wide, 1 => Just(1u16), 1 => Just(55u16)], 0..=g.nref.min(3), prop::bool::weighted(0.8))
            .prop_map(|(start, width, refid, index_first)| Op::Find { start, width, refid, index_first }),
        p_index => Just(Op::Index),
    ]
    .boxed()
}

/// re-assign the starts of the insert operations in ascending / descending order
fn reorder(mut ops: Vec<Op>, mode: u8) -> Vec<Op> {
    if mode == 0 {
        return ops;
    }
    let mut starts: Vec<u16> = ops
        .iter()
        .filter_map(|o| match o {
            Op::Insert { start, .. } => Some(*start),
            _ => None,
        })
        .collect();
    starts.sort_unstable();
    if mode == 2 {
        starts.reverse();
    }
    if mode == 3 {
        // zig-zag: smallest, largest, second smallest, ... (forces double rotations)
        let mut z = Vec::with_capacity(starts.len());
        let (mut i, mut j) = (0usize, starts.len());
        while i < j {
            z.push(starts[i]);
            i += 1;
            if i < j {
                j -= 1;
                z.push(starts[j]);
            }
        }
        starts = z;
    }
    let mut it = starts.into_iter();
    for o in ops.iter_mut() {
        if let Op::Insert { start, .. } = o {
            *start = it.next().unwrap();
        }
    }
    ops
}

pub fn strat(t: Tier) -> BoxedStrategy<Case> {
    let long = match t {
        Tier::Quick => 320usize,
        Tier::Thorough => 600usize,
    };
    let geo = (
        prop_oneof![Just(5u16), Just(25), Just(200), Just(200)],
        prop_oneof![Just(1u16), Just(3), Just(12), Just(55)],
        1u8..=3,
    )
        .prop_map(|(r, w, nref)| Geo { r, w, nref });
    let len = prop_oneof![
        3 => Just((0usize, 40usize, 5u32, 4u32, 1u32)),
        5 => Just((0usize, 120usize, 5u32, 4u32, 1u32)),
        2 => Just((100usize, long, 14u32, 5u32, 1u32)),
    ];
    let key = prop_oneof![
        5 => Just((KeyT::I64, 0i64)),
        2 => Just((KeyT::U8, 0i64)),
        1 => Just((KeyT::I64, -100i64)),
        1 => Just((KeyT::I64, 1i64 << 40)),
        1 => Just((KeyT::I64, i64::MIN)),
        1 => Just((KeyT::I64, i64::MAX - 255)),
    ];
    (geo, len, key, prop_oneof![4 => Just(0u8), 2 => Just(1u8), 2 => Just(2u8), 1 => Just(3u8)])
        .prop_flat_map(|(g, (lo, hi, pi, pf, px), (key, offset), mode)| {
            proptest::collection::vec(op_strat(g, pi, pf, px), lo..=hi).prop_map(move |ops| Case { key, offset, ops: reorder(ops, mode) })
        })
        .boxed()
}

// ---------------------------------------------------------------------------
// C07/array-sizes

pub mod array {
    use super::*;

    #[derive(Serialize, Deserialize, Debug, Clone)]
    pub struct Case {
        /// (start, width, data) inserted before the first `index()`
        pub first: Vec<(u16, u16, u8)>,
        /// inserted after the first round of queries, followed by a second `index()`
        pub more: Vec<(u16, u16, u8)>,
        /// (start, width)
        pub queries: Vec<(u16, u16)>,
    }

    // the array tree's entry type is public but not nameable (private module), hence a macro
    macro_rules! triples {
        ($v:expr) => {
            sorted($v.iter().map(|e| (e.interval().start, e.interval().end, *e.data())).collect())
        };
    }

    fn round(tree: &ArrayBackedIntervalTree<i64, u8>, model: &[Triple], queries: &[(u16, u16)], what: &str, pass: &mut Pass) -> Result<(), Stop> {
        let n = model.len();
        for &(qs, qw) in queries {
            ensure!(qw >= 1, "harness: zero-width query generated");
            let (qs, qe) = (qs as i64, qs as i64 + qw as i64);
            let expect = sorted(model.iter().filter(|m| overlaps(m.0, m.1, qs, qe)).cloned().collect());
            let got = triples!(tree.find(qs..qe));
            ensure!(got == expect, "ArrayBackedIntervalTree::find ({}, n={}): query {}..{} on {}: got {:?}, expected {:?}", what, n, qs, qe, brief(model), got, expect);
            let mut buf = tree.find(0..i64::MAX);
            tree.find_into(qs..qe, &mut buf);
            let got = triples!(buf);
            ensure!(got == expect, "ArrayBackedIntervalTree::find_into ({}, n={}): query {}..{} on {}: got {:?}, expected {:?}", what, n, qs, qe, brief(model), got, expect);
            if n >= 8 && !expect.is_empty() && expect.len() < n {
                pass.nontrivial = true;
                pass.add("query overlaps some, excludes some");
            }
            pass.add_if(expect.is_empty() && n > 0, "query overlaps none");
        }
        Ok(())
    }

    fn refused(tree: &ArrayBackedIntervalTree<i64, u8>, when: &str, n: usize) -> Result<(), Stop> {
        let r = catch(|| tree.find(0..10).len());
        ensure!(r.is_err(), "ArrayBackedIntervalTree::find on an un-indexed tree ({}, n={}) was not refused: returned {} entries", when, n, r.unwrap_or(0));
        let r = catch(|| {
            let mut b = Vec::new();
            tree.find_into(0..10, &mut b);
            b.len()
        });
        ensure!(r.is_err(), "ArrayBackedIntervalTree::find_into on an un-indexed tree ({}, n={}) was not refused: returned {} entries", when, n, r.unwrap_or(0));
        Ok(())
    }

    fn size_classes(n: usize, pass: &mut Pass) {
        pass.add_if(n == 0, "n=0 indexed and queried");
        pass.add_if(n >= 3 && !is_pow2(n) && !is_pow2(n + 1), "n not 2^k or 2^k-1");
        pass.add_if(n >= 2 && is_pow2(n), "n = 2^k");
        pass.add_if(n >= 3 && is_pow2(n + 1), "n = 2^k-1");
        pass.add_if(n >= 3 && is_pow2(n - 1), "n = 2^k+1");
        pass.add_if(n >= 16, "n>=16 (implicit tree above the leaf scan)");
        pass.add_if(n >= 128, "n>=128");
    }

    pub fn check(c: &Case) -> R {
        let mut pass = Pass::new(false);
        let mut tree: ArrayBackedIntervalTree<i64, u8> = ArrayBackedIntervalTree::new();
        let mut model: Vec<Triple> = Vec::new();
        refused(&tree, "fresh", 0)?;
        for &(s, w, d) in &c.first {
            ensure!(w >= 1, "harness: zero-width interval generated");
            tree.insert(s as i64..s as i64 + w as i64, d);
            model.push((s as i64, s as i64 + w as i64, d));
        }
        refused(&tree, "after the first inserts", model.len())?;
        tree.index();
        round(&tree, &model, &c.queries, "first index", &mut pass)?;
        tree.index(); // idempotent
        round(&tree, &model, &c.queries[..c.queries.len().min(2)], "second index() without inserts", &mut pass)?;
        size_classes(model.len(), &mut pass);
        // FromIterator indexes by itself
        let fresh: ArrayBackedIntervalTree<i64, u8> = model.iter().map(|&(s, e, d)| (s..e, d)).collect();
        round(&fresh, &model, &c.queries, "from_iter", &mut pass)?;
        if !c.more.is_empty() {
            for &(s, w, d) in &c.more {
                ensure!(w >= 1, "harness: zero-width interval generated");
                tree.insert(s as i64..s as i64 + w as i64, d);
                model.push((s as i64, s as i64 + w as i64, d));
            }
            refused(&tree, "after inserts that follow index()", model.len())?;
            tree.index();
            round(&tree, &model, &c.queries, "re-index after more inserts", &mut pass)?;
            size_classes(model.len(), &mut pass);
            pass.add("re-index after more inserts");
        }
        let mut st: Vec<i64> = model.iter().map(|m| m.0).collect();
        st.sort_unstable();
        pass.add_if(st.windows(2).any(|w| w[0] == w[1]), "equal starts");
        Ok(pass)
    }

    fn entries(r: u16, w: u16, n: impl Into<proptest::collection::SizeRange>) -> BoxedStrategy<Vec<(u16, u16, u8)>> {
        proptest::collection::vec((0..=r, prop_oneof![3 => 1..=w, 1 => Just(1u16), 1 => 1..=w.saturating_mul(8)], prop_oneof![0u8..3, any::<u8>()]), n).boxed()
    }

    pub fn strat(t: Tier) -> BoxedStrategy<Case> {
        let maxn = match t {
            Tier::Quick => 300usize,
            Tier::Thorough => 1100usize,
        };
        let around_pow2 = (1u32..=((maxn as f64).log2() as u32), 0usize..=4).prop_map(|(k, d)| ((1usize << k) + d).saturating_sub(2));
        let n = prop_oneof![2 => 0usize..=20, 3 => 0usize..=maxn, 3 => around_pow2];
        let geo = (prop_oneof![Just(10u16), Just(100), Just(2000), Just(2000)], prop_oneof![Just(1u16), Just(5), Just(40)]);
        (n, geo, prop_oneof![2 => Just(0usize), 3 => 1usize..=40, 1 => 1usize..=300])
            .prop_flat_map(|(n, (r, w), m)| {
                (
                    entries(r, w, n..=n),
                    entries(r, w, 0..=m),
                    proptest::collection::vec((0..=r + 5, prop_oneof![3 => 1..=w, 1 => Just(1u16), 1 => 1..=w.saturating_mul(20)]), 1..=12),
                )
            })
            .prop_map(|(first, more, queries)| Case { first, more, queries })
            .boxed()
    }
}

// ---------------------------------------------------------------------------
// C07/exhaustive: reuses the history check

fn exhaustive_case(ins: &[(u16, u16)], qmax: u16) -> Case {
    let mut ops: Vec<Op> = ins.iter().enumerate().map(|(i, &(s, w))| Op::Insert { start: s, width: w, data: i as u8, refid: (s % 2) as u8 }).collect();
    // un-indexed refusal once, then every query
    ops.push(Op::Find { start: 0, width: 1, refid: 0, index_first: false });
    for qs in 0..=qmax {
        for qw in [1u16, 2, 5] {
            ops.push(Op::Find { start: qs, width: qw, refid: (qs % 2) as u8, index_first: true });
        }
    }
    Case { key: KeyT::I64, offset: 0, ops }
}

fn permutations(n: usize) -> Vec<Vec<usize>> {
    fn rec(cur: &mut Vec<usize>, used: &mut Vec<bool>, out: &mut Vec<Vec<usize>>) {
        if cur.len() == used.len() {
            out.push(cur.clone());
            return;
        }
        for i in 0..used.len() {
            if !used[i] {
                used[i] = true;
                cur.push(i);
                rec(cur, used, out);
                cur.pop();
                used[i] = false;
            }
        }
    }
    let mut out = Vec::new();
    rec(&mut Vec::new(), &mut vec![false; n], &mut out);
    out
}

fn enumerate(t: Tier) -> Box<dyn Iterator<Item = Case>> {
    let (maxlen, perm_n) = match t {
        Tier::Quick => (4usize, 7usize),
        Tier::Thorough => (6usize, 8usize),
    };
    // part A: all sequences over 4 starts x 2 widths
    let symbols: Vec<(u16, u16)> = (0..4u16).flat_map(|s| [(s, 1u16), (s, 3u16)]).collect();
    let mut seqs: Vec<Vec<(u16, u16)>> = vec![vec![]];
    let mut layer: Vec<Vec<(u16, u16)>> = vec![vec![]];
    for _ in 0..maxlen {
        let mut next = Vec::with_capacity(layer.len() * symbols.len());
        for s in &layer {
            for sym in &symbols {
                let mut n = s.clone();
                n.push(*sym);
                next.push(n);
            }
        }
        seqs.extend(next.iter().cloned());
        layer = next;
    }
    let a = seqs.into_iter().map(|s| exhaustive_case(&s, 6));
    // part B: all insertion orders of perm_n distinct starts, two width patterns
    let wpat: [[u16; 8]; 2] = [[1, 1, 1, 1, 1, 1, 1, 1], [9, 1, 5, 1, 7, 1, 3, 2]];
    let perms = permutations(perm_n);
    let b = perms.into_iter().flat_map(move |p| {
        (0..2usize).map(move |wp| {
            let ins: Vec<(u16, u16)> = p.iter().map(|&i| (i as u16, wpat[wp][i])).collect();
            exhaustive_case(&ins, perm_n as u16 + 1)
        })
    });
    Box::new(a.chain(b))
}

pub fn property() -> Property {
    Property {
        id: "C07",
        rule: "history: vec of insert/find/index operations (0..40, 0..120 or 100..320 ops; starts in 0..=5/25/200, widths 1..=1/3/12/55, data mostly from 3 values so that exact duplicates occur, 1-3 reference ids; insertion starts as generated, sorted ascending, descending or zig-zag; keys i64 at offsets 0, -100, 2^40, i64::MIN, i64::MAX-255, or u8) run in lock-step on IntervalTree, ArrayBackedIntervalTree, AnnotMap (insert_at and insert_loc) and a Vec model. Every find compares the sorted (start,end,data) multisets of IntervalTree::find, find_mut, ArrayBackedIntervalTree::find and find_into (indexed; an un-indexed query must panic) and AnnotMap::find on the queried refid with the model filtered by s<qe && qs<e. After every insertion the AVL tree is read through its derived Serialize impl: |h(left)-h(right)|<=1 at every node, stored subtree maximum >= the largest end in the subtree, in-order starts non-decreasing, node multiset = inserted entries. array-sizes: n entries (uniform 0..=300 and 2^k-2..2^k+2), index, 1-12 queries, more inserts, refusal, re-index, from_iter. exhaustive: all insertion sequences up to the stated length over 4 starts x 2 widths and all permutations of 7 (8) distinct starts with two width patterns, all queries. Non-trivial = at least 8 entries and a query that overlaps at least one entry and excludes at least one; distinct = distinct serialised case.",
        assumptions: &[
            "intervals and queries have positive width (start < end); zero-width and reversed ranges are outside the property",
            "AnnotMap positions stay within isize so that start+length does not overflow",
            "the AVL structure is observed through IntervalTree's derived Serialize impl (root/{interval,value,max,height,left,right}); a changed shape is reported as 'observation lost', not as a violation",
        ],
        subs: vec![
            Box::new(PropSub {
                name: "C07/history",
                quick: 16_000,
                thorough: 160_000,
                shards_quick: 16,
                shards_thorough: 16,
                strat,
                check,
                must_reach: &[
                    "duplicate (interval,data) entry",
                    "equal starts, different ends",
                    "insertion order: ascending starts",
                    "insertion order: descending starts",
                    "insertion order: mixed",
                    "rotation: single left",
                    "rotation: single right",
                    "rotation: double right-left",
                    "rotation: double left-right",
                    "array: queried with n not 2^k or 2^k-1",
                    "array: queried with n>=16 (implicit tree above the leaf scan)",
                    "array: re-index after more inserts",
                    "array: un-indexed query refused",
                    "annot: >=2 refids populated",
                    "annot: query hits its refid and must exclude overlaps on another refid",
                    "query overlaps some, excludes some",
                    "query abuts an entry (half-open boundary)",
                    "key type u8",
                ],
                watch: false,
            }),
            Box::new(PropSub {
                name: "C07/array-sizes",
                quick: 96_000,
                thorough: 800_000,
                shards_quick: 16,
                shards_thorough: 16,
                strat: array::strat,
                check: array::check,
                must_reach: &["n not 2^k or 2^k-1", "n = 2^k", "n = 2^k+1", "n>=128", "re-index after more inserts", "n=0 indexed and queried"],
                watch: false,
            }),
            Box::new(ExhSub { name: "C07/exhaustive", enumerate, check, must_reach: &["rotation: double right-left", "rotation: double left-right"] }),
        ],
    }
}
