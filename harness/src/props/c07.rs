//! C07 — interval trees (AVL, array-backed) and the annotation map report exactly the
//! overlapping entries; the AVL tree stays height-balanced after every insertion.
//!
//! Sub-checks
//! * `C07/history`     random histories of insert / find / index run in lock-step against
//!                     the AVL tree, the array-backed tree, two annotation maps and a Vec model;
//!                     AVL structure observed through the derived `Serialize` impl.
//! * `C07/array-sizes` array-backed tree only: bulk insert n entries (n emphasised around powers
//!                     of two), index, query; insert more, re-index, query; `from_iter`.
//! * `C07/exhaustive`  every insertion sequence of length <= L over 4 starts x 2 widths and every
//!                     permutation of P distinct starts (two width patterns), every query.

use crate::engine::*;
use crate::{ensure, fail};
use bio::data_structures::annot_map::AnnotMap;
use bio::data_structures::interval_tree::{ArrayBackedIntervalTree, IntervalTree};
use bio_types::annot::contig::Contig;
use bio_types::annot::loc::Loc;
use bio_types::strand::ReqStrand;
use proptest::prelude::*;
use serde::{Deserialize, Serialize};

// ---------------------------------------------------------------------------
// key types

pub trait Key: Ord + Copy + std::fmt::Debug + Serialize + 'static {
    fn from_i64(v: i64) -> Option<Self>;
    fn to_i64(self) -> i64;
}
impl Key for i64 {
    fn from_i64(v: i64) -> Option<i64> {
        Some(v)
    }
    fn to_i64(self) -> i64 {
        self
    }
}
impl Key for u8 {
    fn from_i64(v: i64) -> Option<u8> {
        if (0..=255).contains(&v) {
            Some(v as u8)
        } else {
            None
        }
    }
    fn to_i64(self) -> i64 {
        self as i64
    }
}

#[derive(Serialize, Deserialize, Debug, Clone, Copy, PartialEq, Eq)]
pub enum KeyT {
    #[serde(rename = "i64")]
    I64,
    #[serde(rename = "u8")]
    U8,
}

/// (start, end, data) triples, compared as sorted vectors = multisets
type Triple = (i64, i64, u8);

fn overlaps(s: i64, e: i64, qs: i64, qe: i64) -> bool {
    s < qe && qs < e
}

// ---------------------------------------------------------------------------
// observation of the AVL tree through its derived Serialize impl

#[derive(Deserialize, Debug, Clone, PartialEq)]
#[serde(deny_unknown_fields)]
struct MRange {
    start: i64,
    end: i64,
}

#[derive(Deserialize, Debug, Clone, PartialEq)]
#[serde(deny_unknown_fields)]
struct MNode {
    interval: MRange,
    value: i64,
    max: i64,
    height: i64,
    left: Option<Box<MNode>>,
    right: Option<Box<MNode>>,
}

#[derive(Deserialize, Debug, Clone, PartialEq)]
#[serde(deny_unknown_fields)]
struct MTree {
    root: Option<MNode>,
}

/// A failure to *observe* is reported with the fixed prefix "observation lost:" so that the
/// driver can map it to inconclusive; it is never a statement about the tree.
fn observe<N: Key>(tree: &IntervalTree<N, u8>) -> Result<MTree, Stop> {
    let v = match serde_json::to_value(tree) {
        Ok(v) => v,
        Err(e) => fail!("observation lost: IntervalTree does not serialise: {}", e),
    };
    // every key the mirror relies on must be present explicitly (a missing Option field would
    // otherwise silently read as None)
    fn keys_ok(n: &serde_json::Value) -> bool {
        match n {
            serde_json::Value::Null => true,
            serde_json::Value::Object(m) => {
                ["interval", "value", "max", "height", "left", "right"].iter().all(|k| m.contains_key(*k))
                    && keys_ok(&m["left"])
                    && keys_ok(&m["right"])
            }
            _ => false,
        }
    }
    let root_ok = match &v {
        serde_json::Value::Object(m) => m.contains_key("root") && keys_ok(&m["root"]),
        _ => false,
    };
    if !root_ok {
        let s = v.to_string();
        fail!("observation lost: serialised IntervalTree lacks root/{{interval,value,max,height,left,right}}: {}", &s[..s.len().min(300)]);
    }
    match MTree::deserialize(&v) {
        Ok(t) => Ok(t),
        Err(e) => {
            let s = v.to_string();
            fail!("observation lost: serialised IntervalTree has an unexpected shape ({}): {}", e, &s[..s.len().min(300)])
        }
    }
}

struct Walk {
    count: usize,
    starts: Vec<i64>,
    payload: Vec<Triple>,
}

/// returns (recomputed height, recomputed max end)
fn walk(n: &MNode, w: &mut Walk, ctx: &dyn Fn() -> String) -> Result<(i64, i64), Stop> {
    let (lh, lm) = match &n.left {
        Some(l) => {
            let (h, m) = walk(l, w, ctx)?;
            (h, Some(m))
        }
        None => (0, None),
    };
    w.count += 1;
    w.starts.push(n.interval.start);
    w.payload.push((n.interval.start, n.interval.end, n.value as u8));
    let (rh, rm) = match &n.right {
        Some(r) => {
            let (h, m) = walk(r, w, ctx)?;
            (h, Some(m))
        }
        None => (0, None),
    };
    ensure!(
        (lh - rh).abs() <= 1,
        "AVL balance violated at node {}..{}: height(left)={} height(right)={}; {}",
        n.interval.start,
        n.interval.end,
        lh,
        rh,
        ctx()
    );
    let h = 1 + lh.max(rh);
    // the stored `height` field is not compared: only the shape (balance) is part of the property
    let _ = n.height;
    let mut m = n.interval.end;
    if let Some(x) = lm {
        m = m.max(x);
    }
    if let Some(x) = rm {
        m = m.max(x);
    }
    // an over-approximated subtree maximum would only cost time; one that is too small makes the
    // pruned search drop overlapping entries
    ensure!(
        n.max >= m,
        "AVL node {}..{}: stored max {} is smaller than the largest end {} in its subtree (the pruned search would skip overlapping entries); {}",
        n.interval.start,
        n.interval.end,
        n.max,
        m,
        ctx()
    );
    Ok((h, m))
}

/// minimal number of nodes of an AVL tree of height h
fn min_nodes(h: i64) -> u64 {
    let (mut a, mut b) = (0u64, 1u64); // N(0), N(1)
    if h <= 0 {
        return 0;
    }
    for _ in 1..h {
        let c = a + b + 1;
        a = b;
        b = c;
    }
    b
}

/// structural invariants after an insertion; returns the tree height
fn check_structure(t: &MTree, model: &[(i64, i64, u8, u8)], ctx: &dyn Fn() -> String) -> Result<i64, Stop> {
    let mut w = Walk { count: 0, starts: Vec::new(), payload: Vec::new() };
    let h = match &t.root {
        Some(r) => walk(r, &mut w, ctx)?.0,
        None => 0,
    };
    ensure!(w.count == model.len(), "AVL tree has {} nodes after {} insertions; {}", w.count, model.len(), ctx());
    ensure!(
        w.starts.windows(2).all(|p| p[0] <= p[1]),
        "AVL in-order starts are not non-decreasing: {}; {}",
        brief(&w.starts),
        ctx()
    );
    let mut got = w.payload;
    got.sort_unstable();
    let mut exp: Vec<Triple> = model.iter().map(|&(s, e, d, _)| (s, e, d)).collect();
    exp.sort_unstable();
    ensure!(got == exp, "AVL nodes hold {} but the inserted entries are {}; {}", brief(&got), brief(&exp), ctx());
    ensure!(
        (w.count as u64) >= min_nodes(h),
        "AVL height {} needs at least {} nodes but the tree has {}; {}",
        h,
        min_nodes(h),
        w.count,
        ctx()
    );
    Ok(h)
}

#[derive(Clone, Copy, PartialEq, Eq, Debug)]
enum Rot {
    None,
    Left,
    Right,
    RightLeft,
    LeftRight,
    Other,
}

fn payload(n: &MNode) -> (i64, i64, i64) {
    (n.interval.start, n.interval.end, n.value)
}

/// Which rotation did the last insertion perform? Derived from the shapes before and after
/// (statistics only; with exact duplicates the kind may be mis-labelled).
fn rotation(old: Option<&MNode>, new: Option<&MNode>) -> Rot {
    match (old, new) {
        (None, _) => Rot::None,
        (Some(_), None) => Rot::Other,
        (Some(o), Some(n)) => {
            if payload(o) == payload(n) {
                let l = rotation(o.left.as_deref(), n.left.as_deref());
                if l != Rot::None {
                    return l;
                }
                rotation(o.right.as_deref(), n.right.as_deref())
            } else {
                let np = payload(n);
                if o.right.as_ref().map(|r| payload(r)) == Some(np) {
                    Rot::Left
                } else if o.left.as_ref().map(|l| payload(l)) == Some(np) {
                    Rot::Right
                } else if n.left.as_ref().map(|l| payload(l)) == Some(payload(o)) {
                    Rot::RightLeft
                } else if n.right.as_ref().map(|r| payload(r)) == Some(payload(o)) {
                    Rot::LeftRight
                } else {
                    Rot::Other
                }
            }
        }
    }
}

// ---------------------------------------------------------------------------
// C07/history

#[derive(Serialize, Deserialize, Debug, Clone)]
pub enum Op {
    /// insert [start, start+width) with `data`; the annotation maps file it under `refid`
    #[serde(rename = "ins")]
    Insert { start: u16, width: u16, data: u8, refid: u8 },
    /// query [start, start+width): AVL find + find_mut, array tree (after `index()` when
    /// `index_first`, otherwise the query must be refused while the tree is un-indexed),
    /// annotation maps restricted to `refid`
    #[serde(rename = "find")]
    Find { start: u16, width: u16, refid: u8, index_first: bool },
    #[serde(rename = "index")]
    Index,
}

#[derive(Serialize, Deserialize, Debug, Clone)]
pub struct Case {
    pub key: KeyT,
    /// added to every position (i64 keys only; must be 0 for u8)
    pub offset: i64,
    pub ops: Vec<Op>,
}

const REFNAMES: [&str; 4] = ["chrI", "chrII", "chrX", "chrM"];

fn refname(r: u8) -> String {
    REFNAMES[(r as usize) % REFNAMES.len()].to_string()
}

fn strand_of(d: u8) -> ReqStrand {
    if d % 2 == 0 {
        ReqStrand::Forward
    } else {
        ReqStrand::Reverse
    }
}

fn sorted(mut v: Vec<Triple>) -> Vec<Triple> {
    v.sort_unstable();
    v
}

/// the first entries of a long list (the replay file holds the complete case)
fn brief<T: std::fmt::Debug>(v: &[T]) -> String {
    if v.len() <= 48 {
        format!("{:?}", v)
    } else {
        format!("{:?} ..and {} more (see the replay case)", &v[..48], v.len() - 48)
    }
}

fn is_pow2(n: usize) -> bool {
    n != 0 && n & (n - 1) == 0
}

pub fn check(c: &Case) -> R {
    match c.key {
        KeyT::I64 => run::<i64>(c),
        KeyT::U8 => {
            ensure!(c.offset == 0, "harness: offset must be 0 for u8 keys");
            run::<u8>(c)
        }
    }
}

fn run<N: Key>(c: &Case) -> R {
    let mut avl: IntervalTree<N, u8> = IntervalTree::new();
    let mut arr: ArrayBackedIntervalTree<N, u8> = ArrayBackedIntervalTree::new();
    let mut amap: AnnotMap<String, u8> = AnnotMap::new();
    let mut lmap: AnnotMap<String, Contig<String, ReqStrand>> = AnnotMap::new();
    // (start, end, data, refid)
    let mut model: Vec<(i64, i64, u8, u8)> = Vec::new();
    let mut arr_indexed = false;
    let mut arr_ever_indexed = false;
    let mut inserts_since_index = 0usize;
    let mut shape = observe(&avl)?;
    ensure!(shape.root.is_none(), "empty AVL tree serialises with a root: {:?}", shape);

    let mut pass = Pass::new(false);
    let mut nrot = 0usize;
    let mut height = 0i64;
    let mut insert_starts: Vec<u16> = Vec::new();

    let key = |v: i64| -> Result<N, Stop> {
        match N::from_i64(v) {
            Some(k) => Ok(k),
            None => Err(Stop::Fail(format!("harness: position {} does not fit the key type", v))),
        }
    };
    let pos = |start: u16, width: u16| -> Result<(i64, i64), Stop> {
        ensure!(width >= 1, "harness: zero-width interval generated");
        let s = c.offset.checked_add(start as i64);
        let e = s.and_then(|s| s.checked_add(width as i64));
        match (s, e) {
            (Some(s), Some(e)) => Ok((s, e)),
            _ => Err(Stop::Fail("harness: position overflows i64".to_string())),
        }
    };

    for (step, op) in c.ops.iter().enumerate() {
        match *op {
            Op::Insert { start, width, data, refid } => {
                let (s, e) = pos(start, width)?;
                let (ks, ke) = (key(s)?, key(e)?);
                avl.insert(ks..ke, data);
                arr.insert(ks..ke, data);
                let loc = Contig::new(refname(refid), s as isize, width as usize, strand_of(data));
                amap.insert_at(data, &loc);
                lmap.insert_loc(loc);
                pass.add_if(model.iter().any(|m| (m.0, m.1, m.2) == (s, e, data)), "duplicate (interval,data) entry");
                pass.add_if(model.iter().any(|m| (m.0, m.1) == (s, e)), "duplicate interval");
                pass.add_if(model.iter().any(|m| m.0 == s && m.1 != e), "equal starts, different ends");
                model.push((s, e, data, refid));
                insert_starts.push(start);
                if arr_indexed {
                    pass.add("array: insert after index");
                }
                arr_indexed = false;
                inserts_since_index += 1;

                // structure after every insertion
                let new_shape = observe(&avl)?;
                let ctx = || format!("after step {} (insert {}..{} data {}), {} entries", step, s, e, data, model.len());
                height = check_structure(&new_shape, &model, &ctx)?;
                let r = rotation(shape.root.as_ref(), new_shape.root.as_ref());
                match r {
                    Rot::None => {}
                    Rot::Left => pass.add("rotation: single left"),
                    Rot::Right => pass.add("rotation: single right"),
                    Rot::RightLeft => pass.add("rotation: double right-left"),
                    Rot::LeftRight => pass.add("rotation: double left-right"),
                    Rot::Other => pass.add("rotation: unclassified shape change"),
                }
                if r != Rot::None {
                    nrot += 1;
                }
                shape = new_shape;
            }
            Op::Index => {
                arr.index();
                if arr_ever_indexed && inserts_since_index > 0 {
                    pass.add("array: re-index after more inserts");
                }
                arr_indexed = true;
                arr_ever_indexed = true;
                inserts_since_index = 0;
            }
            Op::Find { start, width, refid, index_first } => {
                let (qs, qe) = pos(start, width)?;
                let (ks, ke) = (key(qs)?, key(qe)?);
                let n = model.len();
                let expect: Vec<Triple> =
                    sorted(model.iter().filter(|m| overlaps(m.0, m.1, qs, qe)).map(|m| (m.0, m.1, m.2)).collect());
                let hdr = || format!("step {}: query {}..{} on {} entries {}", step, qs, qe, n, brief(&model));

                // AVL, shared iterator
                let got = sorted(
                    avl.find(ks..ke).take(n + 2).map(|e| (e.interval().start.to_i64(), e.interval().end.to_i64(), *e.data())).collect(),
                );
                ensure!(got == expect, "IntervalTree::find: {}: got {:?}, expected {:?}", hdr(), got, expect);
                // AVL, mutable iterator
                let mut got: Vec<Triple> = Vec::new();
                for mut e in avl.find_mut(ks..ke).take(n + 2) {
                    let (s, t) = (e.interval().start.to_i64(), e.interval().end.to_i64());
                    let d: u8 = *e.data();
                    got.push((s, t, d));
                }
                let got = sorted(got);
                ensure!(got == expect, "IntervalTree::find_mut: {}: got {:?}, expected {:?}", hdr(), got, expect);

                // array-backed tree
                if index_first && !arr_indexed {
                    arr.index();
                    if arr_ever_indexed && inserts_since_index > 0 {
                        pass.add("array: re-index after more inserts");
                    }
                    arr_indexed = true;
                    arr_ever_indexed = true;
                    inserts_since_index = 0;
                }
                if arr_indexed {
                    let got = sorted(arr.find(ks..ke).iter().map(|e| (e.interval().start.to_i64(), e.interval().end.to_i64(), *e.data())).collect());
                    ensure!(got == expect, "ArrayBackedIntervalTree::find: {}: got {:?}, expected {:?}", hdr(), got, expect);
                    let mut buf = arr.find(ks..ks.max(ke)); // a used buffer: find_into must replace its content
                    arr.find_into(ks..ke, &mut buf);
                    let got = sorted(buf.iter().map(|e| (e.interval().start.to_i64(), e.interval().end.to_i64(), *e.data())).collect());
                    ensure!(got == expect, "ArrayBackedIntervalTree::find_into: {}: got {:?}, expected {:?}", hdr(), got, expect);
                    pass.add_if(n >= 3 && !is_pow2(n) && !is_pow2(n + 1), "array: queried with n not 2^k or 2^k-1");
                    pass.add_if(n >= 16, "array: queried with n>=16 (implicit tree above the leaf scan)");
                    pass.add_if(n >= 64, "array: queried with n>=64");
                } else {
                    let r = catch(|| arr.find(ks..ke).len());
                    ensure!(
                        r.is_err(),
                        "ArrayBackedIntervalTree::find on an un-indexed tree was not refused: {}: returned {} entries",
                        hdr(),
                        r.unwrap_or(0)
                    );
                    let r = catch(|| {
                        let mut buf = Vec::new();
                        arr.find_into(ks..ke, &mut buf);
                        buf.len()
                    });
                    ensure!(
                        r.is_err(),
                        "ArrayBackedIntervalTree::find_into on an un-indexed tree was not refused: {}: returned {} entries",
                        hdr(),
                        r.unwrap_or(0)
                    );
                    pass.add("array: un-indexed query refused");
                    pass.add_if(!arr_ever_indexed, "array: never-indexed query refused");
                    pass.add_if(arr_ever_indexed, "array: query refused after insert invalidated the index");
                }

                // annotation maps, restricted to the queried reference id
                let rname = refname(refid);
                let expect_ref: Vec<Triple> = sorted(
                    model.iter().filter(|m| refname(m.3) == rname && overlaps(m.0, m.1, qs, qe)).map(|m| (m.0, m.1, m.2)).collect(),
                );
                let q = Contig::new(rname.clone(), qs as isize, width as usize, ReqStrand::Forward);
                let mut got = Vec::new();
                for e in amap.find(&q).take(n + 2) {
                    ensure!(e.refid() == &rname, "AnnotMap::find: {} refid {}: entry reports refid {:?}", hdr(), rname, e.refid());
                    got.push((e.interval().start as i64, e.interval().end as i64, *e.data()));
                }
                let got = sorted(got);
                ensure!(got == expect_ref, "AnnotMap::find (insert_at): {} refid {}: got {:?}, expected {:?}", hdr(), rname, got, expect_ref);
                let mut got = Vec::new();
                for e in lmap.find(&q).take(n + 2) {
                    ensure!(e.refid() == &rname, "AnnotMap::find: {} refid {}: entry reports refid {:?}", hdr(), rname, e.refid());
                    let d = e.data();
                    ensure!(
                        d.refid() == &rname && d.start() as i64 == e.interval().start as i64 && d.start() as i64 + d.length() as i64 == e.interval().end as i64,
                        "AnnotMap::find (insert_loc): {} refid {}: entry interval {:?} does not belong to its data {:?}",
                        hdr(),
                        rname,
                        e.interval(),
                        d
                    );
                    got.push((e.interval().start as i64, e.interval().end as i64, if d.strand() == ReqStrand::Forward { 0u8 } else { 1u8 }));
                }
                let got = sorted(got);
                let expect_loc: Vec<Triple> = sorted(expect_ref.iter().map(|t| (t.0, t.1, t.2 % 2)).collect());
                ensure!(got == expect_loc, "AnnotMap::find (insert_loc): {} refid {}: got {:?}, expected {:?} (third field = strand)", hdr(), rname, got, expect_loc);

                // classes
                let some = !expect.is_empty();
                let not_all = expect.len() < n;
                if n >= 8 && some && not_all {
                    pass.nontrivial = true;
                }
                pass.add_if(some && not_all, "query overlaps some, excludes some");
                pass.add_if(!some && n > 0, "query overlaps none");
                pass.add_if(some && !not_all && n >= 2, "query overlaps all");
                pass.add_if(model.iter().any(|m| m.1 == qs || m.0 == qe), "query abuts an entry (half-open boundary)");
                pass.add_if(n == 0, "query on empty structures");
                let other_ref_hit = model.iter().any(|m| refname(m.3) != rname && overlaps(m.0, m.1, qs, qe));
                pass.add_if(other_ref_hit && !expect_ref.is_empty(), "annot: query hits its refid and must exclude overlaps on another refid");
                pass.add_if(other_ref_hit && expect_ref.is_empty(), "annot: overlaps exist only on other refids");
                pass.add_if(!model.iter().any(|m| refname(m.3) == rname) && n > 0, "annot: query on a refid without entries");
            }
        }
    }

    let n = model.len();
    let mut refs: Vec<u8> = model.iter().map(|m| m.3 % REFNAMES.len() as u8).collect();
    refs.sort_unstable();
    refs.dedup();
    pass.add_if(refs.len() >= 2, "annot: >=2 refids populated");
    pass.add_if(refs.len() >= 3, "annot: >=3 refids populated");
    if n >= 8 {
        let asc = insert_starts.windows(2).all(|w| w[0] <= w[1]);
        let desc = insert_starts.windows(2).all(|w| w[0] >= w[1]);
        pass.add_if(asc && !desc, "insertion order: ascending starts");
        pass.add_if(desc && !asc, "insertion order: descending starts");
        pass.add_if(!asc && !desc, "insertion order: mixed");
        pass.add_if(asc && desc, "insertion order: all starts equal");
    }
    pass.add_if(nrot >= 1, "rotation occurred");
    pass.add_if(nrot >= 10, "rotations >= 10");
    pass.add_if(height >= 5, "AVL height >= 5");
    pass.add_if(height >= 7, "AVL height >= 7");
    pass.add_if(n >= 8, "inserts >= 8");
    pass.add_if(n >= 64, "inserts >= 64");
    pass.add_if(c.key == KeyT::U8, "key type u8");
    pass.add_if(c.key == KeyT::I64, "key type i64");
    pass.add_if(c.offset < 0, "negative positions");
    pass.add_if(c.offset == i64::MIN || c.offset >= i64::MAX - 1000, "positions at the i64 limits");
    Ok(pass)
}

// generator ------------------------------------------------------------------

#[derive(Debug, Clone, Copy)]
struct Geo {
    /// starts in 0..=r
    r: u16,
    /// widths in 1..=w
    w: u16,
    nref: u8,
}

fn op_strat(g: Geo, p_ins: u32, p_find: u32, p_index: u32) -> BoxedStrategy<Op> {
    let data = prop_oneof![0u8..3, any::<u8>()];
    let wide = g.w;
    prop_oneof![
        p_ins => (0..=g.r, prop_oneof![3 => 1..=wide, 1 => Just(1u16), 1 => Just(wide)], data, 0..g.nref)
            .prop_map(|(start, width, data, refid)| Op::Insert { start, width, data, refid }),
        p_find => (0..=g.r.saturating_add(3).min(200), prop_oneof![3 => 1..=wide, 1 => Just(1u16), 1 => Just(55u16)], 0..=g.nref.min(3), prop::bool::weighted(0.8))
            .prop_map(|(start, width, refid, index_first)| Op::Find { start, width, refid, index_first }),
        p_index => Just(Op::Index),
    ]
    .boxed()
}

/// re-assign the starts of the insert operations in ascending / descending order
fn reorder(mut ops: Vec<Op>, mode: u8) -> Vec<Op> {
    if mode == 0 {
        return ops;
    }
    let mut starts: Vec<u16> = ops
        .iter()
        .filter_map(|o| match o {
            Op::Insert { start, .. } => Some(*start),
            _ => None,
        })
        .collect();
    starts.sort_unstable();
    if mode == 2 {
        starts.reverse();
    }
    if mode == 3 {
        // zig-zag: smallest, largest, second smallest, ... (forces double rotations)
        let mut z = Vec::with_capacity(starts.len());
        let (mut i, mut j) = (0usize, starts.len());
        while i < j {
            z.push(starts[i]);
            i += 1;
            if i < j {
                j -= 1;
                z.push(starts[j]);
            }
        }
        starts = z;
    }
    let mut it = starts.into_iter();
    for o in ops.iter_mut() {
        if let Op::Insert { start, .. } = o {
            *start = it.next().unwrap();
        }
    }
    ops
}

pub fn strat(t: Tier) -> BoxedStrategy<Case> {
    let long = match t {
        Tier::Quick => 320usize,
        Tier::Thorough => 600usize,
    };
    let geo = (
        prop_oneof![Just(5u16), Just(25), Just(200), Just(200)],
        prop_oneof![Just(1u16), Just(3), Just(12), Just(55)],
        1u8..=3,
    )
        .prop_map(|(r, w, nref)| Geo { r, w, nref });
    let len = prop_oneof![
        3 => Just((0usize, 40usize, 5u32, 4u32, 1u32)),
        5 => Just((0usize, 120usize, 5u32, 4u32, 1u32)),
        2 => Just((100usize, long, 14u32, 5u32, 1u32)),
    ];
    let key = prop_oneof![
        5 => Just((KeyT::I64, 0i64)),
        2 => Just((KeyT::U8, 0i64)),
        1 => Just((KeyT::I64, -100i64)),
        1 => Just((KeyT::I64, 1i64 << 40)),
        1 => Just((KeyT::I64, i64::MIN)),
        1 => Just((KeyT::I64, i64::MAX - 255)),
    ];
    (geo, len, key, prop_oneof![4 => Just(0u8), 2 => Just(1u8), 2 => Just(2u8), 1 => Just(3u8)])
        .prop_flat_map(|(g, (lo, hi, pi, pf, px), (key, offset), mode)| {
            proptest::collection::vec(op_strat(g, pi, pf, px), lo..=hi).prop_map(move |ops| Case { key, offset, ops: reorder(ops, mode) })
        })
        .boxed()
}

// ---------------------------------------------------------------------------
// C07/array-sizes

pub mod array {
    use super::*;

    #[derive(Serialize, Deserialize, Debug, Clone)]
    pub struct Case {
        /// (start, width, data) inserted before the first `index()`
        pub first: Vec<(u16, u16, u8)>,
        /// inserted after the first round of queries, followed by a second `index()`
        pub more: Vec<(u16, u16, u8)>,
        /// (start, width)
        pub queries: Vec<(u16, u16)>,
    }

    // the array tree's entry type is public but not nameable (private module), hence a macro
    macro_rules! triples {
        ($v:expr) => {
            sorted($v.iter().map(|e| (e.interval().start, e.interval().end, *e.data())).collect())
        };
    }

    fn round(tree: &ArrayBackedIntervalTree<i64, u8>, model: &[Triple], queries: &[(u16, u16)], what: &str, pass: &mut Pass) -> Result<(), Stop> {
        let n = model.len();
        for &(qs, qw) in queries {
            ensure!(qw >= 1, "harness: zero-width query generated");
            let (qs, qe) = (qs as i64, qs as i64 + qw as i64);
            let expect = sorted(model.iter().filter(|m| overlaps(m.0, m.1, qs, qe)).cloned().collect());
            let got = triples!(tree.find(qs..qe));
            ensure!(got == expect, "ArrayBackedIntervalTree::find ({}, n={}): query {}..{} on {}: got {:?}, expected {:?}", what, n, qs, qe, brief(model), got, expect);
            let mut buf = tree.find(0..i64::MAX);
            tree.find_into(qs..qe, &mut buf);
            let got = triples!(buf);
            ensure!(got == expect, "ArrayBackedIntervalTree::find_into ({}, n={}): query {}..{} on {}: got {:?}, expected {:?}", what, n, qs, qe, brief(model), got, expect);
            if n >= 8 && !expect.is_empty() && expect.len() < n {
                pass.nontrivial = true;
                pass.add("query overlaps some, excludes some");
            }
            pass.add_if(expect.is_empty() && n > 0, "query overlaps none");
        }
        Ok(())
    }

    fn refused(tree: &ArrayBackedIntervalTree<i64, u8>, when: &str, n: usize) -> Result<(), Stop> {
        let r = catch(|| tree.find(0..10).len());
        ensure!(r.is_err(), "ArrayBackedIntervalTree::find on an un-indexed tree ({}, n={}) was not refused: returned {} entries", when, n, r.unwrap_or(0));
        let r = catch(|| {
            let mut b = Vec::new();
            tree.find_into(0..10, &mut b);
            b.len()
        });
        ensure!(r.is_err(), "ArrayBackedIntervalTree::find_into on an un-indexed tree ({}, n={}) was not refused: returned {} entries", when, n, r.unwrap_or(0));
        Ok(())
    }

    fn size_classes(n: usize, pass: &mut Pass) {
        pass.add_if(n == 0, "n=0 indexed and queried");
        pass.add_if(n >= 3 && !is_pow2(n) && !is_pow2(n + 1), "n not 2^k or 2^k-1");
        pass.add_if(n >= 2 && is_pow2(n), "n = 2^k");
        pass.add_if(n >= 3 && is_pow2(n + 1), "n = 2^k-1");
        pass.add_if(n >= 3 && is_pow2(n - 1), "n = 2^k+1");
        pass.add_if(n >= 16, "n>=16 (implicit tree above the leaf scan)");
        pass.add_if(n >= 128, "n>=128");
    }

    pub fn check(c: &Case) -> R {
        let mut pass = Pass::new(false);
        let mut tree: ArrayBackedIntervalTree<i64, u8> = ArrayBackedIntervalTree::new();
        let mut model: Vec<Triple> = Vec::new();
        refused(&tree, "fresh", 0)?;
        for &(s, w, d) in &c.first {
            ensure!(w >= 1, "harness: zero-width interval generated");
            tree.insert(s as i64..s as i64 + w as i64, d);
            model.push((s as i64, s as i64 + w as i64, d));
        }
        refused(&tree, "after the first inserts", model.len())?;
        tree.index();
        round(&tree, &model, &c.queries, "first index", &mut pass)?;
        tree.index(); // idempotent
        round(&tree, &model, &c.queries[..c.queries.len().min(2)], "second index() without inserts", &mut pass)?;
        size_classes(model.len(), &mut pass);
        // FromIterator indexes by itself
        let fresh: ArrayBackedIntervalTree<i64, u8> = model.iter().map(|&(s, e, d)| (s..e, d)).collect();
        round(&fresh, &model, &c.queries, "from_iter", &mut pass)?;
        if !c.more.is_empty() {
            for &(s, w, d) in &c.more {
                ensure!(w >= 1, "harness: zero-width interval generated");
                tree.insert(s as i64..s as i64 + w as i64, d);
                model.push((s as i64, s as i64 + w as i64, d));
            }
            refused(&tree, "after inserts that follow index()", model.len())?;
            tree.index();
            round(&tree, &model, &c.queries, "re-index after more inserts", &mut pass)?;
            size_classes(model.len(), &mut pass);
            pass.add("re-index after more inserts");
        }
        let mut st: Vec<i64> = model.iter().map(|m| m.0).collect();
        st.sort_unstable();
        pass.add_if(st.windows(2).any(|w| w[0] == w[1]), "equal starts");
        Ok(pass)
    }

    fn entries(r: u16, w: u16, n: impl Into<proptest::collection::SizeRange>) -> BoxedStrategy<Vec<(u16, u16, u8)>> {
        proptest::collection::vec((0..=r, prop_oneof![3 => 1..=w, 1 => Just(1u16), 1 => 1..=w.saturating_mul(8)], prop_oneof![0u8..3, any::<u8>()]), n).boxed()
    }

    pub fn strat(t: Tier) -> BoxedStrategy<Case> {
        let maxn = match t {
            Tier::Quick => 300usize,
            Tier::Thorough => 1100usize,
        };
        let around_pow2 = (1u32..=((maxn as f64).log2() as u32), 0usize..=4).prop_map(|(k, d)| ((1usize << k) + d).saturating_sub(2));
        let n = prop_oneof![2 => 0usize..=20, 3 => 0usize..=maxn, 3 => around_pow2];
        let geo = (prop_oneof![Just(10u16), Just(100), Just(2000), Just(2000)], prop_oneof![Just(1u16), Just(5), Just(40)]);
        (n, geo, prop_oneof![2 => Just(0usize), 3 => 1usize..=40, 1 => 1usize..=300])
            .prop_flat_map(|(n, (r, w), m)| {
                (
                    entries(r, w, n..=n),
                    entries(r, w, 0..=m),
                    proptest::collection::vec((0..=r + 5, prop_oneof![3 => 1..=w, 1 => Just(1u16), 1 => 1..=w.saturating_mul(20)]), 1..=12),
                )
            })
            .prop_map(|(first, more, queries)| Case { first, more, queries })
            .boxed()
    }
}

// ---------------------------------------------------------------------------
// C07/exhaustive: reuses the history check

fn exhaustive_case(ins: &[(u16, u16)], qmax: u16) -> Case {
    let mut ops: Vec<Op> = ins.iter().enumerate().map(|(i, &(s, w))| Op::Insert { start: s, width: w, data: i as u8, refid: (s % 2) as u8 }).collect();
    // un-indexed refusal once, then every query
    ops.push(Op::Find { start: 0, width: 1, refid: 0, index_first: false });
    for qs in 0..=qmax {
        for qw in [1u16, 2, 5] {
            ops.push(Op::Find { start: qs, width: qw, refid: (qs % 2) as u8, index_first: true });
        }
    }
    Case { key: KeyT::I64, offset: 0, ops }
}

fn permutations(n: usize) -> Vec<Vec<usize>> {
    fn rec(cur: &mut Vec<usize>, used: &mut Vec<bool>, out: &mut Vec<Vec<usize>>) {
        if cur.len() == used.len() {
            out.push(cur.clone());
            return;
        }
        for i in 0..used.len() {
            if !used[i] {
                used[i] = true;
                cur.push(i);
                rec(cur, used, out);
                cur.pop();
                used[i] = false;
            }
        }
    }
    let mut out = Vec::new();
    rec(&mut Vec::new(), &mut vec![false; n], &mut out);
    out
}

fn enumerate(t: Tier) -> Box<dyn Iterator<Item = Case>> {
    let (maxlen, perm_n) = match t {
        Tier::Quick => (4usize, 7usize),
        Tier::Thorough => (6usize, 8usize),
    };
    // part A: all sequences over 4 starts x 2 widths
    let symbols: Vec<(u16, u16)> = (0..4u16).flat_map(|s| [(s, 1u16), (s, 3u16)]).collect();
    let mut seqs: Vec<Vec<(u16, u16)>> = vec![vec![]];
    let mut layer: Vec<Vec<(u16, u16)>> = vec![vec![]];
    for _ in 0..maxlen {
        let mut next = Vec::with_capacity(layer.len() * symbols.len());
        for s in &layer {
            for sym in &symbols {
                let mut n = s.clone();
                n.push(*sym);
                next.push(n);
            }
        }
        seqs.extend(next.iter().cloned());
        layer = next;
    }
    let a = seqs.into_iter().map(|s| exhaustive_case(&s, 6));
    // part B: all insertion orders of perm_n distinct starts, two width patterns
    let wpat: [[u16; 8]; 2] = [[1, 1, 1, 1, 1, 1, 1, 1], [9, 1, 5, 1, 7, 1, 3, 2]];
    let perms = permutations(perm_n);
    let b = perms.into_iter().flat_map(move |p| {
        (0..2usize).map(move |wp| {
            let ins: Vec<(u16, u16)> = p.iter().map(|&i| (i as u16, wpat[wp][i])).collect();
            exhaustive_case(&ins, perm_n as u16 + 1)
        })
    });
    Box::new(a.chain(b))
}

// ---------------------------------------------------------------------------
// Large-scale sub-checks (`C07/large-*`): number of stored intervals (array-backed tree: every
// 2^k-1, 2^k, 2^k+1 up to 2^20+1 and the common ladder; AVL tree: up to 2^20+1 insertions with the
// structure observed at every ladder size up to 131073), number of results of one query, interval
// width, number of reference ids of the annotation map. Cases hold generator parameters and a seed.
//
// Oracle (near-linear): every entry carries a unique id as data. For a query [qs,qe) the expected
// NUMBER of overlapping entries is #(start < qe) - #(end <= qs) (two binary searches over sorted
// copies; valid because start < end for every entry). The returned entries are checked one by one:
// id known and currently inserted, reported interval = the interval inserted under that id, overlaps
// the query, no id twice. Right count + valid + distinct = exactly the expected multiset.

pub mod large {
    use super::*;
    use crate::oracles::scale::c071718::{intern, is_ladder, lab, labels, ladder_upto, leak_list, pow2_triples, sample_positions, watched, Rng, LADDER};
    use std::iter::FromIterator;

    #[derive(Serialize, Deserialize, Debug, Clone, Copy, PartialEq, Eq)]
    pub enum Target {
        /// ArrayBackedIntervalTree: new, n inserts, index, queries; `more` inserts, refusal, re-index, queries
        Array,
        /// the same, the first n entries through FromIterator (indexes by itself)
        ArrayFromIter,
        /// IntervalTree: inserts one by one, structure and queries at every ladder size, at n and at n+more
        Avl,
        /// IntervalTree::from_iter over the first n entries, then `more` single inserts
        AvlFromIter,
        /// AnnotMap (insert_at and insert_loc) with `refids` reference ids
        Annot,
    }

    #[derive(Serialize, Deserialize, Debug, Clone, Copy, PartialEq, Eq)]
    pub enum Pat {
        /// [i, i+1): a query of width m returns exactly m entries
        Unit,
        /// [i, i+w), w from {3, 1000, 70000} by seed
        Wide,
        /// [i, 2N-i): entry 0 contains everything; queries on the right reach only the left-most entries
        Nested,
        /// [2i, 2i+1) with a few hundred entries (first, last, around every ladder index and power of two) reaching far to the right
        Spikes,
        /// random starts in 0..2N, widths 1..=W (W from {1,30,5000} by seed), one in 64 up to 2^40
        Random,
        /// all starts equal, ends distinct
        EqualStarts,
        /// N copies of the same interval (ids differ)
        Identical,
        /// every interval 300 times
        Dups,
    }
    pub const PATS: [Pat; 8] = [Pat::Unit, Pat::Spikes, Pat::Random, Pat::Wide, Pat::Nested, Pat::Dups, Pat::EqualStarts, Pat::Identical];

    #[derive(Serialize, Deserialize, Debug, Clone, Copy, PartialEq, Eq)]
    pub enum Order {
        /// insertion in canonical order (ascending starts for most patterns)
        Asc,
        Desc,
        Shuffle,
    }
    pub const ORDERS: [Order; 3] = [Order::Asc, Order::Desc, Order::Shuffle];

    #[derive(Serialize, Deserialize, Debug, Clone, Copy, PartialEq, Eq)]
    pub enum Offset {
        Zero,
        /// coordinates straddle zero
        Straddle,
        /// smallest coordinate = i64::MIN
        Min,
        /// largest coordinate = i64::MAX
        Top,
    }

    #[derive(Serialize, Deserialize, Debug, Clone)]
    pub struct Case {
        pub target: Target,
        /// entries before the first round of queries
        pub n: u32,
        /// entries inserted afterwards
        pub more: u32,
        pub pat: Pat,
        pub order: Order,
        pub offset: Offset,
        /// AnnotMap only: number of reference ids (entry id goes to reference id mod refids)
        pub refids: u32,
        /// AVL only: observe the structure at every ladder size up to 131073 (otherwise at n, n+more and every sixth ladder size)
        pub observe_all: bool,
        pub seed: u64,
    }

    const LO: i64 = 10; // smallest relative start; [0, LO) is left of everything

    struct World {
        /// absolute (start, end) by canonical id
        iv: Vec<(i64, i64)>,
        /// canonical ids in insertion order
        order: Vec<u32>,
        /// rank of an id in the insertion order
        when: Vec<u32>,
        shift: i64,
        /// relative universe [0, u)
        u: i64,
        /// relative coordinate where the spike ends start (Spikes only)
        big: i64,
        nspikes: usize,
    }

    fn build(c: &Case) -> World {
        let nn = (c.n + c.more) as usize;
        let n64 = nn as i64;
        let mut rng = Rng::new(c.seed);
        let mut iv: Vec<(i64, i64)> = Vec::with_capacity(nn);
        let mut big = 0i64;
        let mut nspikes = 0usize;
        match c.pat {
            Pat::Unit => iv.extend((0..n64).map(|i| (LO + i, LO + i + 1))),
            Pat::Wide => {
                let w = [3i64, 1000, 70_000][(c.seed % 3) as usize];
                iv.extend((0..n64).map(|i| (LO + i, LO + i + w)));
            }
            Pat::Nested => iv.extend((0..n64).map(|i| (LO + i, LO + 2 * n64 - i))),
            Pat::Spikes => {
                big = LO + 2 * n64 + 1000;
                let pows: Vec<u64> = (1..=21).flat_map(|k| [(1u64 << k) - 1, 1 << k]).collect();
                let mut sp = sample_positions(nn as u64, &pows, &mut rng, 12);
                if sp.len() > 400 {
                    let step = sp.len().div_ceil(400);
                    let last = *sp.last().unwrap();
                    sp = sp.into_iter().step_by(step).collect();
                    if *sp.last().unwrap() != last {
                        sp.push(last);
                    }
                }
                nspikes = sp.len();
                // ends: distinct, in pseudo-random order relative to the index
                let mut ranks: Vec<i64> = (0..sp.len() as i64).collect();
                rng.shuffle(&mut ranks);
                iv.extend((0..n64).map(|i| (LO + 2 * i, LO + 2 * i + 1)));
                for (j, &p) in sp.iter().enumerate() {
                    iv[p as usize].1 = big + 1 + ranks[j];
                }
            }
            Pat::Random => {
                let w = [1u64, 30, 5000][(c.seed % 3) as usize];
                for _ in 0..nn {
                    let s = LO + rng.below(2 * nn as u64) as i64;
                    let width = if rng.below(64) == 0 { 1 + rng.below(1 << 40) } else { 1 + rng.below(w) } as i64;
                    iv.push((s, s + width));
                }
            }
            Pat::EqualStarts => iv.extend((0..n64).map(|i| (LO + 7, LO + 8 + i))),
            Pat::Identical => iv.extend((0..n64).map(|_| (LO + 5, LO + 9))),
            Pat::Dups => iv.extend((0..n64).map(|i| (LO + i / 300, LO + i / 300 + 2))),
        }
        let maxend = iv.iter().map(|x| x.1).max().unwrap_or(LO + 1);
        let u = maxend + 10;
        let shift = match c.offset {
            Offset::Zero => 0,
            Offset::Straddle => -(u / 2),
            Offset::Min => i64::MIN,
            Offset::Top => i64::MAX - u,
        };
        for x in iv.iter_mut() {
            *x = (x.0 + shift, x.1 + shift);
        }
        let mut order: Vec<u32> = (0..nn as u32).collect();
        match c.order {
            Order::Asc => {}
            Order::Desc => order.reverse(),
            Order::Shuffle => Rng::new(c.seed ^ 0x0dd).shuffle(&mut order),
        }
        let mut when = vec![0u32; nn];
        for (t, &id) in order.iter().enumerate() {
            when[id as usize] = t as u32;
        }
        World { iv, order, when, shift, u, big, nspikes }
    }

    /// sorted starts and ends of the first `cur` inserted entries
    struct Oracle {
        starts: Vec<i64>,
        ends: Vec<i64>,
    }
    impl Oracle {
        fn new(w: &World, cur: usize) -> Oracle {
            let mut starts: Vec<i64> = w.order[..cur].iter().map(|&id| w.iv[id as usize].0).collect();
            let mut ends: Vec<i64> = w.order[..cur].iter().map(|&id| w.iv[id as usize].1).collect();
            starts.sort_unstable();
            ends.sort_unstable();
            Oracle { starts, ends }
        }
        fn count(&self, qs: i64, qe: i64) -> usize {
            self.starts.partition_point(|&s| s < qe) - self.ends.partition_point(|&e| e <= qs)
        }
    }

    /// queries in absolute coordinates; the first `must` of them are always asked, the others while the result budget lasts
    fn queries(c: &Case, w: &World, or: &Oracle, cur: usize, rng: &mut Rng, light: bool) -> (Vec<(i64, i64)>, usize) {
        let sh = w.shift;
        let mut q: Vec<(i64, i64)> = Vec::new();
        let rel = |a: i64, b: i64| (a + sh, b + sh);
        q.push(rel(0, w.u)); // everything
        q.push(rel(0, 5)); // left of everything
        q.push(rel(w.u - 6, w.u - 1)); // right of everything
        q.push(rel(LO - 1, LO)); // abuts the smallest start
        if c.pat == Pat::Spikes {
            for r in [0i64, 1, 2, w.nspikes as i64 / 2, w.nspikes as i64 - 2, w.nspikes as i64 - 1, w.nspikes as i64] {
                if r >= 0 {
                    q.push(rel(w.big + r, w.big + r + 1));
                }
            }
            q.push(rel(w.big - 5, w.big - 4));
        }
        let must = q.len();
        // result-count ladder: a window over the sorted starts holding m starts (exactly m results for the unit
        // pattern); largest first, asked while the result budget lasts
        let counts: Vec<u64> = ladder_upto(cur as u64);
        let pick: Vec<u64> = if light { Vec::new() } else { counts.into_iter().rev().collect() };
        for &m in &pick {
            let m = m as usize;
            let a = rng.below((cur - m + 1) as u64) as usize;
            q.push((or.starts[a], or.starts[a + m - 1].saturating_add(1).max(or.starts[a] + 1)));
        }
        // around sampled entries (by rank of the start): left-most / right-most leaf blocks, the root, ladder indices
        let pows: Vec<u64> = (4..=21).flat_map(|k| [(1u64 << k) - 1, 1 << k]).collect();
        let mut pos = sample_positions(cur as u64, &pows, rng, if light { 4 } else { 40 });
        if light && pos.len() > 24 {
            let step = pos.len().div_ceil(24);
            pos = pos.into_iter().step_by(step).collect();
        }
        for p in pos {
            let s = or.starts[p as usize];
            let e = or.ends[p as usize];
            q.push((s, s.saturating_add(1)));
            if s > i64::MIN {
                q.push((s - 1, s));
            }
            q.push((e - 1, e));
            if e < i64::MAX {
                q.push((e, e + 1));
            }
        }
        // random windows
        for _ in 0..(if light { 6 } else { 40 }) {
            let a = rng.below(w.u as u64) as i64;
            let width = [1i64, 2, 17, 1000, 70_000][rng.below(5) as usize];
            let b = (a + width).min(w.u);
            if a < b {
                q.push(rel(a, b));
            }
        }
        (q, must)
    }

    struct Seen {
        stamp: Vec<u32>,
        now: u32,
    }

    /// validate one result list against the oracle
    #[allow(clippy::too_many_arguments)]
    fn validate(what: &str, c: &Case, w: &World, cur: usize, q: (i64, i64), expect: usize, got: &[(i64, i64, u32)], seen: &mut Seen) -> Result<(), Stop> {
        seen.now += 1;
        for &(s, e, id) in got {
            let idu = id as usize;
            ensure!(idu < w.iv.len() && (w.when[idu] as usize) < cur, "{}: query {}..{} on {} entries returned data {} which is not an inserted id; {:?}", what, q.0, q.1, cur, id, c);
            ensure!(w.iv[idu] == (s, e), "{}: query {}..{} on {} entries returned {}..{} with data {}, but id {} was inserted as {}..{}; {:?}", what, q.0, q.1, cur, s, e, id, id, w.iv[idu].0, w.iv[idu].1, c);
            ensure!(overlaps(s, e, q.0, q.1), "{}: query {}..{} on {} entries returned {}..{} (id {}), which does not overlap; {:?}", what, q.0, q.1, cur, s, e, id, c);
            ensure!(seen.stamp[idu] != seen.now, "{}: query {}..{} on {} entries returned id {} ({}..{}) twice; {:?}", what, q.0, q.1, cur, id, s, e, c);
            seen.stamp[idu] = seen.now;
        }
        if got.len() != expect {
            // name one missing entry
            let missing = w.order[..cur].iter().find(|&&id| {
                let (s, e) = w.iv[id as usize];
                overlaps(s, e, q.0, q.1) && seen.stamp[id as usize] != seen.now
            });
            fail!(
                "{}: query {}..{} on {} entries returned {} entries, expected {} (#start<qe - #end<=qs); first missing entry: {:?}; {:?}",
                what,
                q.0,
                q.1,
                cur,
                got.len(),
                expect,
                missing.map(|&id| (id, w.iv[id as usize])),
                c
            );
        }
        Ok(())
    }

    fn result_classes(pass: &mut Pass, cnt: usize, cur: usize) {
        if is_ladder(cnt as u64) {
            pass.add(lab("results of one query", cnt as u64));
        }
        pass.add_if(cnt > 512, "results of one query > 512");
        pass.add_if(cnt > 65_536, "results of one query > 65536");
        pass.add_if(cnt == cur && cur > 65_536, "query returns all of > 65536 entries");
        pass.add_if(cnt > 0 && cnt < cur, "query overlaps some, excludes some");
        pass.add_if(cnt == 0, "query overlaps none");
    }

    // -- structure of a large AVL tree -------------------------------------------------------

    struct BigWalk {
        count: usize,
        prev_start: Option<i64>,
        ids: Vec<u32>,
    }

    /// typed mirror of the derived Serialize output; `left`/`right`/`root` must be present explicitly (a missing key is
    /// an error, not `None`), unknown keys are an error: a changed shape is "observation lost", never a verdict
    #[derive(Deserialize, Debug)]
    #[serde(deny_unknown_fields)]
    struct LNode {
        interval: MRange,
        value: i64,
        max: i64,
        #[allow(dead_code)]
        height: i64,
        #[serde(deserialize_with = "req_child")]
        left: Option<Box<LNode>>,
        #[serde(deserialize_with = "req_child")]
        right: Option<Box<LNode>>,
    }
    #[derive(Deserialize, Debug)]
    #[serde(deny_unknown_fields)]
    struct LTree {
        #[serde(deserialize_with = "req_root")]
        root: Option<LNode>,
    }
    fn req_child<'de, D: serde::Deserializer<'de>>(d: D) -> Result<Option<Box<LNode>>, D::Error> {
        Option::<Box<LNode>>::deserialize(d)
    }
    fn req_root<'de, D: serde::Deserializer<'de>>(d: D) -> Result<Option<LNode>, D::Error> {
        Option::<LNode>::deserialize(d)
    }

    fn walk_big(n: &LNode, bw: &mut BigWalk, w: &World, cur: usize, c: &Case) -> Result<(i64, i64), Stop> {
        let (lh, lm) = match &n.left {
            Some(l) => {
                let (h, m) = walk_big(l, bw, w, cur, c)?;
                (h, Some(m))
            }
            None => (0, None),
        };
        bw.count += 1;
        if let Some(p) = bw.prev_start {
            ensure!(p <= n.interval.start, "AVL in-order starts decrease ({} before {}) after {} insertions; {:?}", p, n.interval.start, cur, c);
        }
        bw.prev_start = Some(n.interval.start);
        ensure!(n.value >= 0 && (n.value as usize) < w.iv.len() && (w.when[n.value as usize] as usize) < cur, "AVL node holds data {} which is not an inserted id ({} insertions); {:?}", n.value, cur, c);
        ensure!(w.iv[n.value as usize] == (n.interval.start, n.interval.end), "AVL node {}..{} holds id {}, inserted as {:?} ({} insertions); {:?}", n.interval.start, n.interval.end, n.value, w.iv[n.value as usize], cur, c);
        bw.ids.push(n.value as u32);
        let (rh, rm) = match &n.right {
            Some(r) => {
                let (h, m) = walk_big(r, bw, w, cur, c)?;
                (h, Some(m))
            }
            None => (0, None),
        };
        ensure!((lh - rh).abs() <= 1, "AVL balance violated at node {}..{} after {} insertions: height(left)={} height(right)={}; {:?}", n.interval.start, n.interval.end, cur, lh, rh, c);
        let mut m = n.interval.end;
        if let Some(x) = lm {
            m = m.max(x);
        }
        if let Some(x) = rm {
            m = m.max(x);
        }
        ensure!(n.max >= m, "AVL node {}..{} after {} insertions: stored max {} is smaller than the largest end {} in its subtree; {:?}", n.interval.start, n.interval.end, cur, n.max, m, c);
        Ok((1 + lh.max(rh), m))
    }

    fn structure(tree: &IntervalTree<i64, u32>, w: &World, cur: usize, c: &Case) -> Result<i64, Stop> {
        // same observation as C07/history (the derived Serialize impl), but through JSON text into a typed mirror:
        // a serde_json::Value of 10^5 nodes would cost several microseconds and a kilobyte per node
        let text = match serde_json::to_vec(tree) {
            Ok(v) => v,
            Err(e) => fail!("observation lost: IntervalTree does not serialise: {}", e),
        };
        let t: LTree = match serde_json::from_slice::<LTree>(&text) {
            Ok(t) => t,
            Err(e) if e.to_string().contains("recursion limit") => {
                // a tree deeper than serde_json's text parser accepts (far beyond any AVL height at these sizes):
                // take the slow path without a depth limit so that the walk below can report what is wrong
                let v = match serde_json::to_value(tree) {
                    Ok(v) => v,
                    Err(e) => fail!("observation lost: IntervalTree does not serialise: {}", e),
                };
                match LTree::deserialize(&v) {
                    Ok(t) => t,
                    Err(e) => fail!("observation lost: serialised IntervalTree has an unexpected shape ({})", e),
                }
            }
            Err(e) => {
                let s = String::from_utf8_lossy(&text[..text.len().min(300)]).into_owned();
                fail!("observation lost: serialised IntervalTree has an unexpected shape ({}): {}", e, s)
            }
        };
        drop(text);
        let mut bw = BigWalk { count: 0, prev_start: None, ids: Vec::with_capacity(cur) };
        let h = match &t.root {
            Some(r) => walk_big(r, &mut bw, w, cur, c)?.0,
            None => 0,
        };
        ensure!(bw.count == cur, "AVL tree has {} nodes after {} insertions; {:?}", bw.count, cur, c);
        bw.ids.sort_unstable();
        ensure!(bw.ids.windows(2).all(|p| p[0] != p[1]), "AVL tree holds an id twice after {} insertions; {:?}", cur, c);
        ensure!((bw.count as u64) >= min_nodes(h), "AVL height {} needs at least {} nodes but the tree has {}; {:?}", h, min_nodes(h), bw.count, c);
        Ok(h)
    }

    /// structure is observed up to this many nodes (the serde_json mirror of a larger tree costs too much memory)
    const STRUCT_MAX: usize = 131_073;

    macro_rules! arr_triples {
        ($v:expr) => {
            $v.iter().map(|e| (e.interval().start, e.interval().end, *e.data())).collect::<Vec<(i64, i64, u32)>>()
        };
    }

    fn arr_refused(tree: &ArrayBackedIntervalTree<i64, u32>, q: (i64, i64), when: &str, c: &Case) -> Result<(), Stop> {
        let r = catch(|| tree.find(q.0..q.1).len());
        ensure!(r.is_err(), "ArrayBackedIntervalTree::find on an un-indexed tree ({}) was not refused: returned {} entries; {:?}", when, r.unwrap_or(0), c);
        let r = catch(|| {
            let mut b = Vec::new();
            tree.find_into(q.0..q.1, &mut b);
            b.len()
        });
        ensure!(r.is_err(), "ArrayBackedIntervalTree::find_into on an un-indexed tree ({}) was not refused: returned {} entries; {:?}", when, r.unwrap_or(0), c);
        Ok(())
    }

    fn arr_round(tree: &ArrayBackedIntervalTree<i64, u32>, c: &Case, w: &World, cur: usize, rng: &mut Rng, seen: &mut Seen, pass: &mut Pass, what: &str) -> Result<(), Stop> {
        let or = Oracle::new(w, cur);
        let (qs, must) = queries(c, w, &or, cur, rng, false);
        let budget = 6 * cur + 200_000;
        let mut spent = 0usize;
        // one buffer reused by every find_into call of the round (the call must replace its content)
        let mut buf = tree.find(w.shift..w.shift + 5);
        for (qi, &q) in qs.iter().enumerate() {
            let expect = or.count(q.0, q.1);
            if qi >= must && spent + expect > budget {
                continue;
            }
            spent += expect;
            let got = arr_triples!(tree.find(q.0..q.1));
            validate(&format!("ArrayBackedIntervalTree::find ({})", what), c, w, cur, q, expect, &got, seen)?;
            tree.find_into(q.0..q.1, &mut buf);
            let got = arr_triples!(buf);
            validate(&format!("ArrayBackedIntervalTree::find_into ({})", what), c, w, cur, q, expect, &got, seen)?;
            result_classes(pass, expect, cur);
        }
        let n = cur as u64;
        if is_ladder(n) || (n >= 2 && (n.is_power_of_two() || (n + 1).is_power_of_two() || (n - 1).is_power_of_two())) {
            pass.add(lab("array n", n));
        }
        pass.add_if(cur > 65_536, "array: indexed and queried with n > 65536");
        pass.add_if(cur >= 1 << 20, "array: indexed and queried with n >= 2^20");
        Ok(())
    }

    fn avl_round(tree: &mut IntervalTree<i64, u32>, c: &Case, w: &World, cur: usize, rng: &mut Rng, seen: &mut Seen, pass: &mut Pass, light: bool) -> Result<(), Stop> {
        let or = Oracle::new(w, cur);
        let (qs, must) = queries(c, w, &or, cur, rng, light);
        let budget = if light { 2 * cur + 50_000 } else { 4 * cur + 200_000 };
        let mut spent = 0usize;
        for (qi, &q) in qs.iter().enumerate() {
            let expect = or.count(q.0, q.1);
            if qi >= must.min(if light { 6 } else { must }) && spent + expect > budget {
                continue;
            }
            spent += expect;
            let got: Vec<(i64, i64, u32)> = tree.find(q.0..q.1).take(cur + 2).map(|e| (e.interval().start, e.interval().end, *e.data())).collect();
            validate("IntervalTree::find", c, w, cur, q, expect, &got, seen)?;
            let mut got: Vec<(i64, i64, u32)> = Vec::with_capacity(expect);
            for mut e in tree.find_mut(q.0..q.1).take(cur + 2) {
                let (s, t) = (e.interval().start, e.interval().end);
                let d: u32 = *e.data();
                got.push((s, t, d));
            }
            validate("IntervalTree::find_mut", c, w, cur, q, expect, &got, seen)?;
            result_classes(pass, expect, cur);
        }
        Ok(())
    }

    pub fn check(c: &Case) -> R {
        watched(serde_json::to_string(c).unwrap_or_default(), || check_inner(c))
    }

    fn check_inner(c: &Case) -> R {
        let n = c.n as usize;
        let nn = n + c.more as usize;
        ensure!(n >= 1 && nn <= (1 << 20) + 64, "harness: n={} more={} outside the supported range", c.n, c.more);
        ensure!(c.target != Target::Annot || (c.refids >= 1 && nn <= 150_000), "harness: annotation map case too large or without reference ids");
        let w = build(c);
        let mut rng = Rng::new(c.seed ^ 0x9e7);
        let mut seen = Seen { stamp: vec![0u32; nn], now: 0 };
        let mut pass = Pass::new(true);
        match c.target {
            Target::Array | Target::ArrayFromIter => {
                let probe = (w.shift, w.shift + 5);
                let mut tree: ArrayBackedIntervalTree<i64, u32>;
                if c.target == Target::Array {
                    tree = ArrayBackedIntervalTree::new();
                    arr_refused(&tree, probe, "fresh", c)?;
                    for &id in &w.order[..n] {
                        let (s, e) = w.iv[id as usize];
                        tree.insert(s..e, id);
                    }
                    arr_refused(&tree, probe, "after the first inserts", c)?;
                    tree.index();
                } else {
                    tree = ArrayBackedIntervalTree::from_iter(w.order[..n].iter().map(|&id| {
                        let (s, e) = w.iv[id as usize];
                        (s..e, id)
                    }));
                    pass.add("array: from_iter");
                    pass.add_if(n > 65_536, "array: from_iter with n > 65536");
                }
                arr_round(&tree, c, &w, n, &mut rng, &mut seen, &mut pass, "first index")?;
                if c.more > 0 {
                    for &id in &w.order[n..nn] {
                        let (s, e) = w.iv[id as usize];
                        tree.insert(s..e, id);
                    }
                    arr_refused(&tree, probe, "after inserts that follow index()", c)?;
                    tree.index();
                    arr_round(&tree, c, &w, nn, &mut rng, &mut seen, &mut pass, "re-index after more inserts")?;
                    pass.add("array: re-index after more inserts");
                    pass.add_if(nn > 65_536, "array: re-index after more inserts, n > 65536");
                }
            }
            Target::Avl | Target::AvlFromIter => {
                let mut tree: IntervalTree<i64, u32>;
                let mut done = 0usize;
                if c.target == Target::AvlFromIter {
                    tree = IntervalTree::from_iter(w.order[..n].iter().map(|&id| {
                        let (s, e) = w.iv[id as usize];
                        (s..e, id)
                    }));
                    done = n;
                    pass.add("avl: from_iter");
                    pass.add_if(n > 65_536, "avl: from_iter with n > 65536");
                } else {
                    tree = IntervalTree::new();
                }
                let mut checkpoints: Vec<usize> = ladder_upto(nn as u64).into_iter().map(|v| v as usize).filter(|&v| v >= done.max(1)).collect();
                checkpoints.push(n);
                checkpoints.push(nn);
                checkpoints.sort_unstable();
                checkpoints.dedup();
                let mut height = 0i64;
                for (ci, cp) in checkpoints.into_iter().enumerate() {
                    if cp < done {
                        continue;
                    }
                    for &id in &w.order[done..cp] {
                        let (s, e) = w.iv[id as usize];
                        tree.insert(s..e, id);
                    }
                    done = cp;
                    if cp <= STRUCT_MAX && (c.observe_all || cp == n || cp == nn || (ci as u64 + c.seed) % 6 == 0) {
                        height = structure(&tree, &w, cp, c)?;
                        pass.add(lab("avl structure observed at n", cp as u64));
                    }
                    let light = cp != n && cp != nn;
                    avl_round(&mut tree, c, &w, cp, &mut rng, &mut seen, &mut pass, light)?;
                    if is_ladder(cp as u64) {
                        pass.add(lab("avl n", cp as u64));
                    }
                }
                pass.add_if(nn > 65_536, "avl: queried with n > 65536");
                pass.add_if(nn >= 1 << 20, "avl: queried with n >= 2^20");
                pass.add_if(height >= 12, "AVL height >= 12");
                pass.add_if(height >= 17, "AVL height >= 17");
            }
            Target::Annot => {
                let r = c.refids as usize;
                let name = |j: usize| format!("ref{}", j);
                let mut amap: AnnotMap<String, u32> = AnnotMap::new();
                let mut lmap: AnnotMap<String, Contig<String, ReqStrand>> = AnnotMap::new();
                let mut done = 0usize;
                for (round, cp) in [n, nn].into_iter().enumerate() {
                    if round == 1 && c.more == 0 {
                        break;
                    }
                    for &id in &w.order[done..cp] {
                        let (s, e) = w.iv[id as usize];
                        let loc = Contig::new(name(id as usize % r), s as isize, (e as i128 - s as i128) as usize, strand_of(id as u8));
                        amap.insert_at(id, &loc);
                        lmap.insert_loc(loc);
                    }
                    done = cp;
                    // group the inserted ids by reference
                    let mut refs: Vec<u64> = sample_positions(r as u64, &[], &mut rng, 8);
                    if refs.len() > 40 {
                        let step = refs.len().div_ceil(40);
                        refs = refs.into_iter().step_by(step).collect();
                    }
                    let or = Oracle::new(&w, cp);
                    let (qs, must) = queries(c, &w, &or, cp, &mut rng, true);
                    let mut spent = 0usize;
                    for &rj in &refs {
                        let rname = name(rj as usize);
                        let members: Vec<u32> = w.order[..cp].iter().copied().filter(|&id| id as usize % r == rj as usize).collect();
                        for (qi, &q) in qs.iter().enumerate() {
                            let expect: Vec<u32> = members.iter().copied().filter(|&id| overlaps(w.iv[id as usize].0, w.iv[id as usize].1, q.0, q.1)).collect();
                            if qi >= must.min(4) && (spent > 4 * cp + 100_000 || (refs.len() > 8 && qi % 5 != (rj % 5) as usize)) {
                                continue;
                            }
                            spent += expect.len() + members.len() / 8;
                            let ql = Contig::new(rname.clone(), q.0 as isize, (q.1 as i128 - q.0 as i128) as usize, ReqStrand::Forward);
                            let mut got: Vec<(i64, i64, u32)> = Vec::new();
                            for e in amap.find(&ql).take(cp + 2) {
                                ensure!(e.refid() == &rname, "AnnotMap::find: query {}..{} on {}: entry reports refid {:?}; {:?}", q.0, q.1, rname, e.refid(), c);
                                got.push((e.interval().start as i64, e.interval().end as i64, *e.data()));
                            }
                            validate(&format!("AnnotMap::find (insert_at, refid {})", rname), c, &w, cp, q, expect.len(), &got, &mut seen)?;
                            ensure!(got.iter().all(|g| g.2 as usize % r == rj as usize), "AnnotMap::find (insert_at): query {}..{} on {} returned an entry filed under another reference id; {:?}", q.0, q.1, rname, c);
                            // insert_loc map: entries carry their own location; compare as sorted (start, end, strand)
                            let mut gl: Vec<(i64, i64, bool)> = Vec::new();
                            for e in lmap.find(&ql).take(cp + 2) {
                                let d = e.data();
                                ensure!(
                                    e.refid() == &rname && d.refid() == &rname && d.start() as i64 == e.interval().start as i64 && (d.start() as i128 + d.length() as i128) == e.interval().end as i128,
                                    "AnnotMap::find (insert_loc): query {}..{} on {}: entry interval {:?} does not belong to its data {:?}; {:?}",
                                    q.0,
                                    q.1,
                                    rname,
                                    e.interval(),
                                    d,
                                    c
                                );
                                gl.push((e.interval().start as i64, e.interval().end as i64, d.strand() == ReqStrand::Forward));
                            }
                            gl.sort_unstable();
                            let mut el: Vec<(i64, i64, bool)> = expect.iter().map(|&id| (w.iv[id as usize].0, w.iv[id as usize].1, strand_of(id as u8) == ReqStrand::Forward)).collect();
                            el.sort_unstable();
                            ensure!(gl == el, "AnnotMap::find (insert_loc): query {}..{} on {} ({} entries there): got {} entries {}, expected {} {}; {:?}", q.0, q.1, rname, members.len(), gl.len(), brief(&gl), el.len(), brief(&el), c);
                            result_classes(&mut pass, expect.len(), members.len());
                            pass.add_if(expect.len() < or.count(q.0, q.1), "annot: overlaps on other reference ids excluded");
                        }
                    }
                    // a reference id without entries
                    let ql = Contig::new("none".to_string(), w.shift as isize, 5usize, ReqStrand::Forward);
                    ensure!(amap.find(&ql).next().is_none(), "AnnotMap::find on an unknown reference id returned an entry; {:?}", c);
                }
                if is_ladder(r as u64) || r <= 3 {
                    pass.add(lab("annot reference ids", r as u64));
                }
                pass.add_if(r > 255, "annot: more than 255 reference ids");
                pass.add_if(r > 65_536, "annot: more than 65536 reference ids");
                pass.add_if(nn > 65_536, "annot: more than 65536 entries");
                pass.add_if(nn / r > 65_536, "annot: more than 65536 entries under one reference id");
            }
        }
        pass.add(match c.pat {
            Pat::Unit => "pattern unit",
            Pat::Wide => "pattern wide",
            Pat::Nested => "pattern nested",
            Pat::Spikes => "pattern spikes",
            Pat::Random => "pattern random",
            Pat::EqualStarts => "pattern equal starts",
            Pat::Identical => "pattern identical intervals",
            Pat::Dups => "pattern 300-fold duplicates",
        });
        pass.add(match c.order {
            Order::Asc => "insertion order ascending",
            Order::Desc => "insertion order descending",
            Order::Shuffle => "insertion order shuffled",
        });
        pass.add(match c.offset {
            Offset::Zero => "offset zero",
            Offset::Straddle => "coordinates straddle zero",
            Offset::Min => "coordinates start at i64::MIN",
            Offset::Top => "coordinates end at i64::MAX",
        });
        let widest = w.iv.iter().map(|x| x.1 as i128 - x.0 as i128).max().unwrap_or(0);
        pass.add_if(widest > 65_536, "interval wider than 65536");
        pass.add_if(widest > 1 << 32, "interval wider than 2^32");
        Ok(pass)
    }

    fn offset_for(k: usize) -> Offset {
        [Offset::Zero, Offset::Zero, Offset::Straddle, Offset::Zero, Offset::Top, Offset::Zero, Offset::Min][k % 7]
    }

    pub fn array_sizes() -> Vec<u64> {
        let mut v = pow2_triples(8, 20);
        v.extend(LADDER.iter().copied());
        v.sort_unstable();
        v.dedup();
        v
    }

    pub fn enumerate_array(t: Tier) -> Box<dyn Iterator<Item = Case>> {
        let mut v = Vec::new();
        let mut k = 0usize;
        let reps = if t == Tier::Quick { 1 } else { 4 };
        for rep in 0..reps {
            for (i, &size) in array_sizes().iter().enumerate() {
                let size = size as u32;
                let big = size > 131_073;
                // (a) n = size in one go
                let na = if t == Tier::Thorough {
                    if big {
                        3
                    } else {
                        8
                    }
                } else if big {
                    1
                } else {
                    2
                };
                for j in 0..na {
                    k += 1;
                    // the largest size with the unit pattern: windows return every ladder count exactly
                    let pat = if size == 1_048_577 && j == 0 { Pat::Unit } else { PATS[(i + j * 3 + rep) % 8] };
                    let target = if (k + rep) % 4 == 0 { Target::ArrayFromIter } else { Target::Array };
                    v.push(Case { target, n: size, more: 0, pat, order: ORDERS[(i + 2 * j + rep) % 3], offset: offset_for(k), refids: 0, observe_all: false, seed: 0xa77 + k as u64 * 7919 + rep as u64 * 1_299_709 });
                }
                // (b) the same final size reached by inserts after a first index()
                if !big || i % 3 == rep % 3 {
                    k += 1;
                    let more = [1u32, 17, size / 2, 300][(k + rep) % 4].min(size - 1);
                    let target = if (k + rep) % 5 == 0 { Target::ArrayFromIter } else { Target::Array };
                    v.push(Case { target, n: size - more, more, pat: PATS[(i + 5 + rep) % 8], order: ORDERS[(i + 1 + rep) % 3], offset: offset_for(k), refids: 0, observe_all: false, seed: 0xb88 + k as u64 * 104_723 + rep as u64 * 15_485_867 });
                }
            }
        }
        Box::new(v.into_iter())
    }

    pub fn enumerate_avl(t: Tier) -> Box<dyn Iterator<Item = Case>> {
        let mut v = Vec::new();
        let mut k = 0usize;
        let reps = if t == Tier::Quick { 1 } else { 4 };
        for rep in 0..reps {
            // every (pattern, order) at 70001 or 131073 entries: checkpoints at every ladder value below
            for (pi, &pat) in PATS.iter().enumerate() {
                for (oi, &order) in ORDERS.iter().enumerate() {
                    k += 1;
                    let observe_all = pi == (oi + rep) % 8;
                    let total: u32 = if observe_all && oi == rep % 3 { 131_073 } else { 70_001 };
                    let (target, n) = if k % 6 == 0 && !observe_all { (Target::AvlFromIter, [65_537u32, 4097, 32_769][(k / 6) % 3]) } else { (Target::Avl, total - [0u32, 1, 300][k % 3]) };
                    v.push(Case { target, n, more: total - n, pat, order, offset: offset_for(k), refids: 0, observe_all, seed: 0xa51 + k as u64 * 3571 + rep as u64 * 179_424_673 });
                }
            }
        }
        Box::new(v.into_iter())
    }

    /// 2^19+-1 and 2^20+-1 insertions (structure observed up to 131073 nodes, queries at every ladder size). Quick tier:
    /// ascending / descending insertion only (a shuffled or random insertion order costs 2.5-6 s per case at these sizes:
    /// thorough tier)
    pub fn enumerate_avl_big(t: Tier) -> Box<dyn Iterator<Item = Case>> {
        let mut v = Vec::new();
        let mut k = 100usize;
        let bigs: &[(u32, Pat, Order)] = &[
            (524_287, Pat::Dups, Order::Asc),
            (524_288, Pat::Unit, Order::Desc),
            (524_289, Pat::Spikes, Order::Asc),
            (1_048_575, Pat::Spikes, Order::Desc),
            (1_048_576, Pat::Unit, Order::Asc),
            (1_048_577, Pat::EqualStarts, Order::Desc),
        ];
        for &(total, pat, order) in bigs.iter() {
            k += 1;
            v.push(Case { target: Target::Avl, n: total, more: 0, pat, order, offset: offset_for(k), refids: 0, observe_all: false, seed: 0xa52 + k as u64 * 3571 });
        }
        if t == Tier::Thorough {
            // every case must stay far below the per-case watchdog budget even on a loaded machine: at 2^20 no shuffled
            // insertion and no random starts (6 s per case when idle), at 2^19 those are allowed (2.5 s)
            for (j, &(total, _, _)) in bigs.iter().enumerate() {
                for rep in 0..3usize {
                    k += 1;
                    let (pat, order) = if total > 600_000 {
                        ([Pat::Unit, Pat::Spikes, Pat::Wide, Pat::Nested, Pat::Dups, Pat::EqualStarts, Pat::Identical][(j + rep * 3 + 2) % 7], [Order::Asc, Order::Desc][(j + rep) % 2])
                    } else {
                        (PATS[(j + rep * 3 + 2) % 8], ORDERS[(j + rep + 2) % 3])
                    };
                    v.push(Case { target: if k % 5 == 0 { Target::AvlFromIter } else { Target::Avl }, n: total - [0u32, 1, 70_001][rep], more: [0u32, 1, 70_001][rep], pat, order, offset: offset_for(k), refids: 0, observe_all: false, seed: 0xa53 + k as u64 * 3571 });
                }
            }
        }
        Box::new(v.into_iter())
    }

    pub fn annot_refids() -> Vec<u64> {
        let mut v = vec![1u64, 2, 3];
        v.extend(ladder_upto(70_001));
        v
    }

    pub fn enumerate_annot(t: Tier) -> Box<dyn Iterator<Item = Case>> {
        let mut v = Vec::new();
        let mut k = 0usize;
        let reps = if t == Tier::Quick { 1 } else { 4 };
        for rep in 0..reps {
            for &r in annot_refids().iter() {
                k += 1;
                let r = r as u32;
                // at least two entries per reference id, at least 20000 entries; the single-reference cases hold > 65536
                let total: u32 = if r <= 3 { [131_073u32, 70_001, 65_537][(k + rep) % 3] } else { (2 * r + 3).max(20_000) };
                let more = [0u32, 1, total / 3][(k + rep) % 3];
                v.push(Case { target: Target::Annot, n: total - more, more, pat: PATS[(k + rep * 3) % 8], order: ORDERS[(k + rep) % 3], offset: offset_for(k + 1), refids: r, observe_all: false, seed: 0xa99 + k as u64 * 2741 + rep as u64 * 32_452_867 });
            }
        }
        Box::new(v.into_iter())
    }

    pub fn strat(_t: Tier) -> BoxedStrategy<Case> {
        let near: Vec<u32> = ladder_upto(131_073).into_iter().map(|v| v as u32).collect();
        let total = prop_oneof![
            5 => 300u32..=30_000,
            4 => (proptest::sample::select(near), -3i32..=3).prop_map(|(v, d)| (v as i64 + d as i64) as u32),
            1 => 30_000u32..=200_000,
        ];
        let target = prop_oneof![3 => Just(Target::Array), 1 => Just(Target::ArrayFromIter), 3 => Just(Target::Avl), 1 => Just(Target::AvlFromIter), 2 => Just(Target::Annot)];
        let offset = prop_oneof![3 => Just(Offset::Zero), 1 => Just(Offset::Straddle), 1 => Just(Offset::Min), 1 => Just(Offset::Top)];
        (target, total, any::<u16>(), proptest::sample::select(PATS.to_vec()), proptest::sample::select(ORDERS.to_vec()), offset, prop_oneof![1u32..=4, 200u32..=300, 1u32..=70_000], any::<u64>())
            .prop_map(|(target, total, mf, pat, order, offset, refids, seed)| {
                let total = if target == Target::Annot { total.min(131_073) } else { total };
                // more: nothing (1/4), or a fraction of the total
                let more = if mf % 4 == 0 { 0 } else { ((total as u64 - 1) * (mf as u64) >> 16) as u32 };
                Case { target, n: total - more, more, pat, order, offset, refids: if target == Target::Annot { refids } else { 0 }, observe_all: seed % 8 == 0, seed }
            })
            .boxed()
    }

    pub fn must_array() -> &'static [&'static str] {
        let mut v = labels("array n", &array_sizes());
        v.extend(labels("results of one query", &LADDER));
        v.extend([
            "results of one query > 512",
            "results of one query > 65536",
            "query returns all of > 65536 entries",
            "array: indexed and queried with n >= 2^20",
            "array: from_iter with n > 65536",
            "array: re-index after more inserts, n > 65536",
            "insertion order ascending",
            "insertion order descending",
            "insertion order shuffled",
            "coordinates start at i64::MIN",
            "coordinates end at i64::MAX",
            "interval wider than 2^32",
            "pattern unit",
            "pattern wide",
            "pattern nested",
            "pattern spikes",
            "pattern random",
            "pattern equal starts",
            "pattern identical intervals",
            "pattern 300-fold duplicates",
        ]);
        leak_list(v)
    }

    pub fn must_avl() -> &'static [&'static str] {
        let mut v = labels("avl n", &ladder_upto(131_073));
        v.extend(labels("avl structure observed at n", &ladder_upto(131_073)));
        v.extend(labels("results of one query", &ladder_upto(131_073)));
        v.extend([
            "results of one query > 65536",
            "avl: queried with n > 65536",
            "avl: from_iter with n > 65536",
            "AVL height >= 17",
            "insertion order ascending",
            "insertion order descending",
            "insertion order shuffled",
            "pattern equal starts",
            "pattern identical intervals",
            "coordinates start at i64::MIN",
            "coordinates end at i64::MAX",
        ]);
        leak_list(v)
    }

    pub fn must_avl_big() -> &'static [&'static str] {
        let mut v = labels("avl n", &LADDER);
        v.extend(labels("avl structure observed at n", &[131_071, 131_072, 131_073]));
        v.extend(["results of one query > 65536", "query returns all of > 65536 entries", "avl: queried with n >= 2^20", "insertion order ascending", "insertion order descending"]);
        leak_list(v)
    }

    pub fn must_annot() -> &'static [&'static str] {
        let mut v = labels("annot reference ids", &annot_refids());
        v.extend([
            "annot: more than 65536 reference ids",
            "annot: more than 65536 entries",
            "annot: more than 65536 entries under one reference id",
            "annot: overlaps on other reference ids excluded",
            "results of one query > 512",
            "coordinates end at i64::MAX",
        ]);
        let _ = intern;
        leak_list(v)
    }
}

pub fn property() -> Property {
    Property {
        id: "C07",
        rule: "history: vec of insert/find/index operations (0..40, 0..120 or 100..320 ops; starts in 0..=5/25/200, widths 1..=1/3/12/55, data mostly from 3 values so that exact duplicates occur, 1-3 reference ids; insertion starts as generated, sorted ascending, descending or zig-zag; keys i64 at offsets 0, -100, 2^40, i64::MIN, i64::MAX-255, or u8) run in lock-step on IntervalTree, ArrayBackedIntervalTree, AnnotMap (insert_at and insert_loc) and a Vec model. Every find compares the sorted (start,end,data) multisets of IntervalTree::find, find_mut, ArrayBackedIntervalTree::find and find_into (indexed; an un-indexed query must panic) and AnnotMap::find on the queried refid with the model filtered by s<qe && qs<e. After every insertion the AVL tree is read through its derived Serialize impl: |h(left)-h(right)|<=1 at every node, stored subtree maximum >= the largest end in the subtree, in-order starts non-decreasing, node multiset = inserted entries. array-sizes: n entries (uniform 0..=300 and 2^k-2..2^k+2), index, 1-12 queries, more inserts, refusal, re-index, from_iter. exhaustive: all insertion sequences up to the stated length over 4 starts x 2 widths and all permutations of 7 (8) distinct starts with two width patterns, all queries. Non-trivial = at least 8 entries and a query that overlaps at least one entry and excludes at least one; distinct = distinct serialised case. Large-scale sub-checks (large-*): cases are generator parameters {target, n, more, pattern, insertion order, coordinate offset, reference ids, seed} expanded with splitmix64; every entry carries a unique id; the expected number of results of a query is #(start<qe) - #(end<=qs) from sorted copies, every returned entry is checked (known id, interval as inserted, overlaps, not twice). Array-backed tree: n = every 2^k-1, 2^k, 2^k+1 for k=8..20 and the ladder 255..257, ..., 65535..65537, 70001, 131071..131073, 2^19+-1, 2^20+-1, in one go and reached by further inserts after a first index() (refusal while un-indexed, re-index), through new+insert+index and through from_iter; queries: everything, left/right of everything, windows returning every ladder count, point queries around the entries of rank first/last, 2^k-1, 2^k, ladder +-2 (left-most and right-most leaf blocks, root), spike ends, random windows; find and find_into with one reused buffer. AVL tree: up to 2^20+1 insertions (ascending, descending, shuffled; eight interval patterns incl. all starts equal, identical intervals, 300-fold duplicates, nested, far-reaching spikes); at every ladder size the structure is observed (balance, stored max, order, node set; up to 131073 nodes) and queried through find and find_mut; IntervalTree::from_iter. AnnotMap: 1..70001 reference ids (ladder), >= 20000 entries, up to 131073 under one reference id, insert_at and insert_loc, queries on sampled reference ids and an unknown one. Coordinates at offset 0, straddling 0, starting at i64::MIN, ending at i64::MAX; widths up to 2^40.",
        assumptions: &[
            "intervals and queries have positive width (start < end); zero-width and reversed ranges are outside the property",
            "AnnotMap positions stay within isize so that start+length does not overflow",
            "the AVL structure is observed through IntervalTree's derived Serialize impl (root/{interval,value,max,height,left,right}); a changed shape is reported as 'observation lost', not as a violation",
        ],
        subs: vec![
            // the enumerated ladders are single long jobs: queued first so that they overlap with everything else
            Box::new(ExhSub { name: "C07/large-array-ladder", enumerate: large::enumerate_array, check: large::check, must_reach: large::must_array() }),
            Box::new(ExhSub { name: "C07/large-avl-ladder", enumerate: large::enumerate_avl, check: large::check, must_reach: large::must_avl() }),
            Box::new(ExhSub { name: "C07/large-avl-big", enumerate: large::enumerate_avl_big, check: large::check, must_reach: large::must_avl_big() }),
            Box::new(ExhSub { name: "C07/large-annot-ladder", enumerate: large::enumerate_annot, check: large::check, must_reach: large::must_annot() }),
            Box::new(PropSub {
                name: "C07/large-random",
                quick: 320,
                thorough: 6_400,
                shards_quick: 16,
                shards_thorough: 16,
                strat: large::strat,
                check: large::check,
                must_reach: &["array: re-index after more inserts", "array: from_iter", "avl: from_iter", "annot: more than 255 reference ids", "results of one query > 512"],
                watch: true,
            }),
            Box::new(PropSub {
                name: "C07/history",
                quick: 16_000,
                thorough: 160_000,
                shards_quick: 16,
                shards_thorough: 16,
                strat,
                check,
                must_reach: &[
                    "duplicate (interval,data) entry",
                    "equal starts, different ends",
                    "insertion order: ascending starts",
                    "insertion order: descending starts",
                    "insertion order: mixed",
                    "rotation: single left",
                    "rotation: single right",
                    "rotation: double right-left",
                    "rotation: double left-right",
                    "array: queried with n not 2^k or 2^k-1",
                    "array: queried with n>=16 (implicit tree above the leaf scan)",
                    "array: re-index after more inserts",
                    "array: un-indexed query refused",
                    "annot: >=2 refids populated",
                    "annot: query hits its refid and must exclude overlaps on another refid",
                    "query overlaps some, excludes some",
                    "query abuts an entry (half-open boundary)",
                    "key type u8",
                ],
                watch: false,
            }),
            Box::new(PropSub {
                name: "C07/array-sizes",
                quick: 96_000,
                thorough: 800_000,
                shards_quick: 16,
                shards_thorough: 16,
                strat: array::strat,
                check: array::check,
                must_reach: &["n not 2^k or 2^k-1", "n = 2^k", "n = 2^k+1", "n>=128", "re-index after more inserts", "n=0 indexed and queried"],
                watch: false,
            }),
            Box::new(ExhSub { name: "C07/exhaustive", enumerate, check, must_reach: &["rotation: double right-left", "rotation: double left-right"] }),
        ],
    }
}
