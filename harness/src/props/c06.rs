//! C06 — FMD-index: smems / all_smems report exactly the supermaximal exact matches
//! (both strands), bi-interval extension yields the bi-interval of the extended string.

use crate::engine::gen::idx;
use crate::engine::*;
use crate::ensure;
use crate::oracles::fm::{brute_smems, comp, fmd_text, occurrences, revcomp};
use bio::alphabets::dna;
use bio::data_structures::bwt::{bwt, less, Occ};
use bio::data_structures::fmindex::{BiInterval, FMDIndex, FMIndex};
use bio::data_structures::suffix_array::{suffix_array, RawSuffixArray};
use proptest::prelude::*;
use serde::{Deserialize, Serialize};

const DNA10: &[u8; 10] = b"ACGTNacgtn";

#[derive(Serialize, Deserialize, Debug, Clone, Copy, PartialEq, Eq)]
pub enum Init {
    /// `init_interval_with(first)`
    With,
    /// `forward_ext(init_interval(), first)`
    EmptyForward,
    /// `backward_ext(init_interval(), first)`
    EmptyBackward,
}

#[derive(Serialize, Deserialize, Debug, Clone)]
pub struct Step {
    /// true: forward_ext (append), false: backward_ext (prepend)
    pub fwd: bool,
    pub sym: char,
}

#[derive(Serialize, Deserialize, Debug, Clone)]
pub struct Walk {
    pub init: Init,
    pub first: char,
    pub steps: Vec<Step>,
}

#[derive(Serialize, Deserialize, Debug, Clone)]
pub struct Case {
    /// DNA sequences (ACGTNacgtn), each non-empty; indexed text = concat(s $ revcomp(s) $)
    pub seqs: Vec<B>,
    /// Occ sampling rate
    pub k: u32,
    /// pattern over ACGTNacgtn, non-empty; smems is checked at every position of it
    pub pattern: B,
    /// minimum SMEM length, >= 1
    pub l: usize,
    pub walks: Vec<Walk>,
}

fn sorted(mut v: Vec<usize>) -> Vec<usize> {
    v.sort_unstable();
    v
}

struct Ctx<'a> {
    c: &'a Case,
    text: &'a [u8],
    sa: &'a RawSuffixArray,
}

impl<'a> Ctx<'a> {
    fn head(&self) -> String {
        format!("seqs {:?} (text {:?}) k={}", self.c.seqs, lossy(self.text), self.c.k)
    }

    /// both intervals of `bi` must be exactly the occurrences of `s` and of revcomp(s)
    fn check_bi(&self, bi: &BiInterval, s: &[u8], what: &str) -> Result<(), Stop> {
        let n = self.text.len();
        let (f, r) = (bi.forward(), bi.revcomp());
        // (where an empty interval sits is the implementation's business: only non-empty ones are rows of the index)
        ensure!(
            f.lower <= f.upper && r.lower <= r.upper && (f.lower == f.upper || f.upper <= n) && (r.lower == r.upper || r.upper <= n),
            "{}: {}: bi-interval of {:?} has intervals {:?}/{:?} outside 0..{}",
            self.head(), what, lossy(s), f, r, n
        );
        let exp_f = occurrences(s, self.text);
        let got_f = sorted(f.occ(self.sa));
        ensure!(
            got_f == exp_f,
            "{}: {}: forward interval {:?} of {:?} maps to {:?}, the string occurs at {:?}",
            self.head(), what, f, lossy(s), got_f, exp_f
        );
        let rc = revcomp(s);
        let exp_r = occurrences(&rc, self.text);
        let got_r = sorted(r.occ(self.sa));
        ensure!(
            got_r == exp_r,
            "{}: {}: revcomp interval {:?} of {:?} maps to {:?}, its reverse complement {:?} occurs at {:?}",
            self.head(), what, r, lossy(s), got_r, lossy(&rc), exp_r
        );
        Ok(())
    }
}

pub fn check(c: &Case) -> R {
    // ---- domain (harness self-check)
    ensure!(!c.seqs.is_empty() && c.seqs.iter().all(|s| !s.is_empty() && s.iter().all(|&a| comp(a).is_some())), "harness: sequences {:?} outside the domain", c.seqs);
    ensure!(!c.pattern.is_empty() && c.pattern.iter().all(|&a| comp(a).is_some()), "harness: pattern {:?} outside the domain", c.pattern);
    ensure!(c.l >= 1 && c.k >= 1, "harness: l/k");
    for w in &c.walks {
        ensure!(w.first.is_ascii() && comp(w.first as u8).is_some() && w.steps.iter().all(|s| s.sym.is_ascii() && comp(s.sym as u8).is_some()), "harness: walk {:?} outside the domain", w);
    }

    let seqs: Vec<Vec<u8>> = c.seqs.iter().map(|s| s.0.clone()).collect();
    let text = fmd_text(&seqs);
    let alphabet = dna::n_alphabet();
    let sa = suffix_array(&text);
    let bw = bwt(&text, &sa);
    let le = less(&bw, &alphabet);
    let oc = Occ::new(&bw, c.k, &alphabet);
    let fmd = FMDIndex::from(FMIndex::new(&bw, &le, &oc));
    let cx = Ctx { c, text: &text, sa: &sa };

    // the FMD index is an `FMIndexable` as well: plain backward search through it (pattern, its substrings'
    // worth of suffixes, the walk strings) must classify and locate like the FM index (oracle of C05)
    {
        let mut pats: Vec<Vec<u8>> = vec![c.pattern.0.clone()];
        for w in &c.walks {
            let mut s: Vec<u8> = vec![w.first as u8];
            for st in &w.steps {
                if st.fwd {
                    s.push(st.sym as u8);
                } else {
                    s.insert(0, st.sym as u8);
                }
            }
            pats.push(s);
        }
        let syms: Vec<u8> = alphabet.symbols.iter().map(|b| b as u8).collect();
        crate::props::c05::check_implementor(&fmd, &text, &syms, c.k, &pats).map_err(|e| match e {
            Stop::Fail(m) => Stop::Fail(format!("FMDIndex::backward_search (FMIndexable): {}", m)),
            o => o,
        })?;
    }

    let p: &[u8] = &c.pattern;
    let m = p.len();
    let l = c.l;
    let all = brute_smems(p, &text); // sorted (start, len)

    let mut pass = Pass::new(all.iter().any(|&(_, len)| len >= 2 && len >= l));

    // ---- smems at every position
    for i in 0..m {
        let got = fmd.smems(p, i, l);
        let mut keys: Vec<(usize, usize)> = got.iter().map(|&(_, s, len)| (s, len)).collect();
        keys.sort();
        let expect: Vec<(usize, usize)> = all.iter().cloned().filter(|&(s, len)| s <= i && i < s + len && len >= l).collect();
        ensure!(
            keys == expect,
            "{} pattern {:?}: smems(i={}, l={}) returned (start,len) {:?}; the supermaximal matches covering {} of length >= {} are {:?} (all SMEMs of the pattern: {:?})",
            cx.head(), c.pattern, i, l, keys, i, l, expect, all
        );
        for (bi, s, len) in &got {
            cx.check_bi(bi, &p[*s..*s + *len], &format!("pattern {:?}: smems(i={}, l={}) result (start {}, len {})", c.pattern, i, l, s, len))?;
        }
        let covering = all.iter().filter(|&&(s, len)| s <= i && i < s + len).count();
        pass.add_if(covering >= 2, "several SMEMs cover one position");
        pass.add_if(covering == 0, "position covered by no SMEM");
        pass.add_if(expect.len() >= 2, "smems returns >=2 matches");
    }

    // ---- all_smems
    let got = fmd.all_smems(p, l);
    let mut keys: Vec<(usize, usize)> = got.iter().map(|&(_, s, len)| (s, len)).collect();
    keys.sort();
    let with_dups = keys.len();
    keys.dedup();
    let expect: Vec<(usize, usize)> = all.iter().cloned().filter(|&(_, len)| len >= l).collect();
    ensure!(
        keys == expect,
        "{} pattern {:?}: all_smems(l={}) returned (start,len) {:?} (deduplicated); the supermaximal matches of length >= {} are {:?} (all SMEMs: {:?})",
        cx.head(), c.pattern, l, keys, l, expect, all
    );
    for (bi, s, len) in &got {
        cx.check_bi(bi, &p[*s..*s + *len], &format!("pattern {:?}: all_smems(l={}) result (start {}, len {})", c.pattern, l, s, len))?;
    }
    pass.add_if(with_dups > keys.len(), "all_smems reports a match more than once");

    // ---- extension walks
    for (wi, w) in c.walks.iter().enumerate() {
        let first = w.first as u8;
        let mut s: Vec<u8> = vec![first];
        let mut bi = match w.init {
            Init::With => fmd.init_interval_with(first),
            Init::EmptyForward => fmd.forward_ext(&fmd.init_interval(), first),
            Init::EmptyBackward => fmd.backward_ext(&fmd.init_interval(), first),
        };
        cx.check_bi(&bi, &s, &format!("walk #{} start {:?}", wi, w.init))?;
        let mut steps_done = 0usize;
        let mut both = (false, false);
        for st in &w.steps {
            if bi.forward().lower == bi.forward().upper {
                // the string no longer occurs: every further extension is the bi-interval of a string that
                // does not occur either, i.e. empty again (the SMEM search itself relies on this)
                pass.add("walk reaches the empty bi-interval");
                pass.add("extension of an empty bi-interval");
            }
            let a = st.sym as u8;
            // a bi-interval is a plain value: one that went through a serde round trip (every third step) is
            // the bi-interval of the same string and extends like it
            if steps_done % 3 == 1 {
                bi = crate::props::extra3::serde_copy("BiInterval", &bi)?;
                pass.add("bi-interval passed through a serde round trip before the extension");
            }
            if st.fwd {
                s.push(a);
                bi = fmd.forward_ext(&bi, a);
                both.0 = true;
            } else {
                s.insert(0, a);
                bi = fmd.backward_ext(&bi, a);
                both.1 = true;
            }
            steps_done += 1;
            cx.check_bi(&bi, &s, &format!("walk #{} ({:?}) after step {} ({} {:?})", wi, w, steps_done, if st.fwd { "forward_ext" } else { "backward_ext" }, st.sym))?;
        }
        let nonempty = bi.forward().lower < bi.forward().upper;
        pass.add_if(nonempty && s.len() >= 4, "walk: string of length>=4 still occurs");
        pass.add_if(nonempty && both.0 && both.1, "walk: both directions, still occurs");
        pass.add_if(w.init != Init::With, "walk starts from init_interval()");
        pass.add_if(nonempty && s.len() >= 2 && revcomp(&s) == s, "walk: reverse-palindromic string");
    }

    // ---- classes
    let lower = |a: &u8| a.is_ascii_lowercase();
    let is_n = |a: &u8| *a == b'N' || *a == b'n';
    pass.add_if(text.iter().any(lower), "lowercase symbols in the text");
    pass.add_if(text.iter().any(is_n), "N/n in the text");
    pass.add_if(text.iter().any(lower) && text.iter().any(|a| a.is_ascii_uppercase()), "mixed case text");
    pass.add_if(c.seqs.len() >= 2, "several sequences");
    pass.add_if(all.iter().any(|&(_, len)| len >= 2), "SMEM of length>=2");
    pass.add_if(all.iter().any(|&(_, len)| len >= 5), "SMEM of length>=5");
    pass.add_if(all.len() >= 3, ">=3 SMEMs in the pattern");
    pass.add_if(all.iter().any(|&(_, len)| len < l), "l filters out a SMEM");
    pass.add_if(all.iter().any(|&(_, len)| len >= l), "a SMEM passes l");
    pass.add_if(p.iter().any(|a| !text.contains(a)), "pattern symbol absent from the text");
    pass.add_if(p.iter().any(lower) || p.iter().any(is_n), "pattern has lowercase/N");
    pass.add_if(
        all.iter().any(|&(s, len)| {
            let o = occurrences(&p[s..s + len], &text);
            o.iter().any(|&q| q == 0 || text[q - 1] == b'$') || o.iter().any(|&q| text[q + len] == b'$')
        }),
        "SMEM occurrence touches a sentinel",
    );
    pass.add_if(all.iter().any(|&(s, len)| occurrences(&p[s..s + len], &text).len() >= 3), "SMEM with >=3 occurrences");
    pass.add_if(c.k > 64, "k>64");
    pass.add_if(c.k == 1, "k=1");
    Ok(pass)
}

// ---------------------------------------------------------------------------
// generator

fn alphabet() -> BoxedStrategy<Vec<u8>> {
    prop_oneof![
        2 => Just(b"AC".to_vec()),
        2 => Just(b"ACGT".to_vec()),
        1 => Just(b"ACGTN".to_vec()),
        2 => Just(DNA10.to_vec()),
        1 => Just(b"ACac".to_vec()),
        1 => Just(b"ANTn".to_vec()),
        4 => proptest::sample::subsequence(DNA10.to_vec(), 2..=4),
        1 => proptest::sample::subsequence(DNA10.to_vec(), 1..=1),
    ]
    .boxed()
}

#[derive(Debug, Clone)]
struct Sym {
    f: u16,
    /// draw from all ten symbols instead of the case's own alphabet
    wide: bool,
}

fn sym() -> BoxedStrategy<Sym> {
    (any::<u16>(), proptest::bool::weighted(0.2)).prop_map(|(f, wide)| Sym { f, wide }).boxed()
}

fn pick(s: &Sym, own: &[u8]) -> u8 {
    if s.wide {
        DNA10[idx(s.f, 9)]
    } else {
        own[idx(s.f, own.len() - 1)]
    }
}

#[derive(Debug, Clone)]
enum PSpec {
    /// concatenation of 1-2 substrings of the text (sentinels dropped) with 0-2 substitutions
    Derived { parts: Vec<(u16, usize)>, substs: Vec<(u16, Sym)> },
    Rand(Vec<Sym>),
}

fn pspec(pmax: usize) -> BoxedStrategy<PSpec> {
    prop_oneof![
        3 => (proptest::collection::vec((any::<u16>(), 1usize..=pmax), 1..=2), proptest::collection::vec((any::<u16>(), sym()), 0..=2))
            .prop_map(|(parts, substs)| PSpec::Derived { parts, substs }),
        2 => proptest::collection::vec(sym(), 1..=pmax).prop_map(PSpec::Rand),
    ]
    .boxed()
}

fn build_pattern(ps: &PSpec, text: &[u8], own: &[u8], pmax: usize) -> Vec<u8> {
    match ps {
        PSpec::Rand(v) => v.iter().map(|s| pick(s, own)).collect(),
        PSpec::Derived { parts, substs } => {
            let flat: Vec<u8> = text.iter().cloned().filter(|&a| a != b'$').collect();
            let mut p = Vec::new();
            for (start, len) in parts {
                let s = idx(*start, flat.len() - 1);
                let e = (s + len).min(flat.len());
                p.extend_from_slice(&flat[s..e]);
            }
            p.truncate(pmax);
            for (at, s) in substs {
                let i = idx(*at, p.len() - 1);
                p[i] = pick(s, own);
            }
            p
        }
    }
}

#[derive(Debug, Clone)]
struct WalkSpec {
    init: Init,
    center: u16,
    first_rand: Option<Sym>,
    /// (forward?, follow the text if possible, alternative symbol)
    steps: Vec<(bool, bool, Sym)>,
}

fn walkspec() -> BoxedStrategy<WalkSpec> {
    (
        prop_oneof![3 => Just(Init::With), 1 => Just(Init::EmptyForward), 1 => Just(Init::EmptyBackward)],
        any::<u16>(),
        proptest::option::weighted(0.15, sym()),
        proptest::collection::vec((any::<bool>(), proptest::bool::weighted(0.9), sym()), 0..=10),
    )
        .prop_map(|(init, center, first_rand, steps)| WalkSpec { init, center, first_rand, steps })
        .boxed()
}

fn build_walk(ws: &WalkSpec, text: &[u8], own: &[u8]) -> Walk {
    let n = text.len();
    let pos = idx(ws.center, n - 1);
    // (lo, hi): the walk string equals text[lo..hi] while `on` is true
    let (mut lo, mut hi, mut on) = (pos, pos + 1, true);
    let first = match (&ws.first_rand, text[pos]) {
        (Some(s), _) => {
            on = false;
            pick(s, own)
        }
        (None, b'$') => {
            on = false;
            own[0]
        }
        (None, a) => a,
    };
    let mut steps = Vec::new();
    for (fwd, follow, alt) in &ws.steps {
        let neighbour = if !on {
            None
        } else if *fwd {
            if hi < n && text[hi] != b'$' { Some(text[hi]) } else { None }
        } else if lo > 0 && text[lo - 1] != b'$' {
            Some(text[lo - 1])
        } else {
            None
        };
        let a = match (follow, neighbour) {
            (true, Some(x)) => x,
            _ => pick(alt, own),
        };
        if neighbour == Some(a) {
            if *fwd { hi += 1 } else { lo -= 1 }
        } else {
            on = false;
        }
        steps.push(Step { fwd: *fwd, sym: a as char });
    }
    Walk { init: ws.init, first: first as char, steps }
}

pub fn strat(t: Tier) -> BoxedStrategy<Case> {
    // quick: the sizes of DESIGN.md; thorough: also longer sequences and patterns
    let (smax, pmax) = match t {
        Tier::Quick => (14usize, 12usize),
        Tier::Thorough => (40, 20),
    };
    (
        alphabet(),
        proptest::collection::vec(prop_oneof![3 => proptest::collection::vec(any::<u16>(), 1..=14), 1 => proptest::collection::vec(any::<u16>(), 1..=smax)], 1..=3),
        prop_oneof![5 => 1u32..=8, 1 => 9u32..=64, 1 => 65u32..=130],
        pspec(pmax),
        prop_oneof![2 => Just(1usize), 3 => 2usize..=4, 1 => 5usize..=13],
        proptest::collection::vec(walkspec(), 1..=2),
    )
        .prop_map(move |(own, seqf, k, ps, l, wss)| {
            let seqs: Vec<Vec<u8>> = seqf.iter().map(|s| s.iter().map(|&f| own[idx(f, own.len() - 1)]).collect()).collect();
            let text = fmd_text(&seqs);
            let pattern = build_pattern(&ps, &text, &own, pmax);
            let walks = wss.iter().map(|w| build_walk(w, &text, &own)).collect();
            Case { seqs: seqs.into_iter().map(B).collect(), k, pattern: B(pattern), l, walks }
        })
        .boxed()
}

// ---------------------------------------------------------------------------
// bounded exhaustive: one sequence over a 3-letter alphabet up to length L, every pattern up to
// length 4 over those letters and their complements; extension walks spell the pattern forwards and backwards

fn strings(sigma: &[u8], max_len: usize) -> Vec<Vec<u8>> {
    let mut out = Vec::new();
    let mut layer: Vec<Vec<u8>> = vec![vec![]];
    for _ in 0..max_len {
        let mut next = Vec::new();
        for s in &layer {
            for &c in sigma {
                let mut x = s.clone();
                x.push(c);
                next.push(x);
            }
        }
        out.extend(next.iter().cloned());
        layer = next;
    }
    out
}

fn enumerate(t: Tier) -> Box<dyn Iterator<Item = Case>> {
    let (sl, pl) = match t {
        Tier::Quick => (5usize, 4usize),
        Tier::Thorough => (6, 5),
    };
    let families: Vec<(&'static [u8], usize, &'static [u8], usize)> = vec![(b"ACG", sl, b"ACGT", pl), (b"Anc", sl - 1, b"ATncg", pl - 1)];
    let mut v = Vec::new();
    for (ss, sl, ps, pl) in families {
        v.push((strings(ss, sl), std::sync::Arc::new(strings(ps, pl))));
    }
    Box::new(v.into_iter().flat_map(|(seqs, pats)| {
        seqs.into_iter().enumerate().flat_map(move |(j, s)| {
            let pats = pats.clone();
            (0..pats.len()).map(move |pi| {
                let p = pats[pi].clone();
                let m = p.len();
                let fw = Walk { init: Init::With, first: p[0] as char, steps: p[1..].iter().map(|&a| Step { fwd: true, sym: a as char }).collect() };
                let bw = Walk { init: Init::EmptyBackward, first: p[m - 1] as char, steps: p[..m - 1].iter().rev().map(|&a| Step { fwd: false, sym: a as char }).collect() };
                Case { seqs: vec![B(s.clone())], k: 1 + ((j + pi) % 3) as u32, pattern: B(p), l: 1 + (pi % 2), walks: vec![fw, bw] }
            })
        })
    }))
}

// ---------------------------------------------------------------------------
// LARGE-SCALE sub-check: text length, number of sequences (sentinel occurrences), pattern length,
// position i, minimum length l, bi-interval size, number of candidate intervals kept by smems, number of
// reported matches and Occ rate across the ladder 255 .. 2^20 (see oracles/scale.rs).
// Oracle: suffix automaton of the two-strand text (matching statistics -> all supermaximal matches with
// their occurrence counts, O(n + m)), cross-checked against the brute-force SMEM oracle on a truncated
// copy inside every case. Intervals are checked exactly through their boundary rows: the first and last
// row start with the string, the rows just outside do not (the suffix array itself is verified first).

pub mod large {
    use super::*;
    use crate::c0306_ladder_labels;
    use crate::fail;
    use crate::oracles::sa as sao;
    use crate::oracles::scale::c0306::{self as sc, add_group, body_ranks, ladder, mix, Kind, LadderSub, Sam, Sm64};
    use bio::data_structures::bwt::{Less, BWT};
    use bio::data_structures::fmindex::{FMIndexable, Interval};
    use std::borrow::Borrow;
    use std::sync::Arc;

    pub const N_LABELS: [&str; 12] = c0306_ladder_labels!("n");
    pub const SEQ_LABELS: [&str; 12] = c0306_ladder_labels!("sentinel occurrences");
    pub const M_LABELS: [&str; 12] = c0306_ladder_labels!("pattern length");
    pub const I_LABELS: [&str; 12] = c0306_ladder_labels!("position i");
    pub const L_LABELS: [&str; 12] = c0306_ladder_labels!("minimum length l");
    pub const LEN_LABELS: [&str; 12] = c0306_ladder_labels!("SMEM length");
    pub const IV_LABELS: [&str; 12] = c0306_ladder_labels!("bi-interval size");
    pub const CAND_LABELS: [&str; 12] = c0306_ladder_labels!("candidate intervals");
    pub const RES_LABELS: [&str; 12] = c0306_ladder_labels!("matches returned");
    pub const WALK_LABELS: [&str; 12] = c0306_ladder_labels!("walk length");
    pub const K_LABELS: [&str; 12] = c0306_ladder_labels!("Occ rate k");

    const ALPHAS: [&[u8]; 5] = [b"ACGT", b"AC", b"ACGTNacgtn", b"AT", b"A"];

    #[derive(Serialize, Deserialize, Debug, Clone)]
    pub struct Seqs {
        pub kind: Kind,
        /// number of sequences (the text has 2*count sentinel occurrences)
        pub count: usize,
        /// length of each sequence
        pub len: usize,
        /// index into ACGT / AC / ACGTNacgtn / AT / A
        pub alpha: u8,
        /// all sequences equal (identical reads)
        pub identical: bool,
        pub seed: u64,
    }

    impl Seqs {
        pub fn n(&self) -> usize {
            2 * self.count * (self.len + 1)
        }
        fn build(&self) -> Vec<Vec<u8>> {
            let tab = ALPHAS[(self.alpha as usize).min(4)];
            (0..self.count)
                .map(|j| {
                    let sd = if self.identical { self.seed } else { mix(self.seed, j as u64) };
                    body_ranks(self.kind, self.len, tab.len() as u16, sd).into_iter().map(|r| tab[r as usize]).collect()
                })
                .collect()
        }
    }

    #[derive(Serialize, Deserialize, Debug, Clone)]
    pub enum PatKind {
        /// `len` symbols of sequence `seq` from `start` (fractions), reverse-complemented when `rc`;
        /// afterwards every `every`-th symbol (0 = none) is replaced by another symbol of the sequence alphabet
        Sub { seq: u16, start: u16, len: usize, rc: bool, every: usize },
        /// copies of one symbol (rank in ACGTNacgtn)
        Homo { sym: u8, len: usize },
        /// the unit (ranks in ACGTNacgtn) repeated up to `len`
        Periodic { unit: Vec<u8>, len: usize },
        Rand { len: usize, seed: u64 },
    }

    #[derive(Serialize, Deserialize, Debug, Clone)]
    pub struct Pat {
        pub kind: PatKind,
        /// positions (clamped to the pattern) at which smems is called
        pub is: Vec<usize>,
        pub l: usize,
        /// also call all_smems
        pub all: bool,
    }

    #[derive(Serialize, Deserialize, Debug, Clone)]
    pub struct LWalk {
        pub init: Init,
        /// which sequence / where in it the walk starts (fractions)
        pub seq: u16,
        pub start: u16,
        /// number of extension steps that follow the text
        pub steps: usize,
        /// 0 = forward, 1 = backward, 2 = alternate, 3 = blocks of 100
        pub mode: u8,
        /// one more step with this symbol (rank in ACGTNacgtn) at the end, forwards if `tail_fwd`
        pub tail: u8,
        pub tail_fwd: bool,
    }

    #[derive(Serialize, Deserialize, Debug, Clone)]
    pub struct Case {
        pub seqs: Seqs,
        pub k: u32,
        /// 0 = borrowed (From), 1 = owned, 2 = Arc, 3 = borrowed via from_fmindex_unchecked
        pub own: u8,
        pub patterns: Vec<Pat>,
        pub walks: Vec<LWalk>,
    }

    fn build_pat(k: &PatKind, seqs: &[Vec<u8>], own: &[u8]) -> Vec<u8> {
        let mut v: Vec<u8> = match k {
            PatKind::Homo { sym, len } => vec![DNA10[(*sym as usize).min(9)]; *len],
            PatKind::Periodic { unit, len } => (0..*len).map(|i| DNA10[(unit[i % unit.len()] as usize).min(9)]).collect(),
            PatKind::Rand { len, seed } => {
                let mut rng = Sm64::new(*seed);
                (0..*len).map(|_| own[rng.below(own.len())]).collect()
            }
            PatKind::Sub { seq, start, len, rc, every } => {
                let sq = &seqs[idx(*seq, seqs.len() - 1)];
                let st = idx(*start, sq.len() - 1);
                let e = (st + len).min(sq.len());
                let mut v = sq[st..e].to_vec();
                if *rc {
                    v = revcomp(&v);
                }
                if *every > 0 {
                    let mut j = *every - 1;
                    while j < v.len() {
                        let cur = own.iter().position(|&a| a == v[j]).unwrap_or(0);
                        v[j] = if own.len() > 1 { own[(cur + 1) % own.len()] } else { b'N' };
                        j += *every;
                    }
                }
                v
            }
        };
        if v.is_empty() {
            v.push(own[0]);
        }
        v
    }

    struct Ctx<'a> {
        c: &'a Case,
        text: &'a [u8],
        sa: &'a RawSuffixArray,
        sam: &'a Sam,
        max_iv: usize,
    }

    impl<'a> Ctx<'a> {
        fn starts_with(&self, row: usize, s: &[u8]) -> bool {
            let p = self.sa[row];
            p + s.len() <= self.text.len() && &self.text[p..p + s.len()] == s
        }

        /// exact check of one interval: `iv` must be the block of rows whose suffixes start with `s`
        fn check_block(&self, iv: &Interval, s: &[u8], cnt: usize, what: &str, which: &str) -> Result<(), Stop> {
            let n = self.text.len();
            ensure!(iv.lower <= iv.upper && iv.upper <= n, "{:?}: {}: {} interval {:?} of a string of length {} is not inside 0..{}", self.c.seqs, what, which, iv, s.len(), n);
            let size = iv.upper - iv.lower;
            ensure!(
                size == cnt,
                "{:?} k={}: {}: {} interval {:?} has {} rows but the string {} (length {}) occurs {} times in the text",
                self.c.seqs, self.c.k, what, which, iv, size, sao::show(s), s.len(), cnt
            );
            if size > 0 {
                ensure!(
                    self.starts_with(iv.lower, s) && self.starts_with(iv.upper - 1, s),
                    "{:?} k={}: {}: {} interval {:?}: its first or last row (text positions {} / {}) does not start with the string {} (length {})",
                    self.c.seqs, self.c.k, what, which, iv, self.sa[iv.lower], self.sa[iv.upper - 1], sao::show(s), s.len()
                );
                ensure!(
                    (iv.lower == 0 || !self.starts_with(iv.lower - 1, s)) && (iv.upper == n || !self.starts_with(iv.upper, s)),
                    "{:?} k={}: {}: {} interval {:?} misses a neighbouring row that also starts with the string {} (length {})",
                    self.c.seqs, self.c.k, what, which, iv, sao::show(s), s.len()
                );
            }
            Ok(())
        }

        /// both intervals of `bi`: occurrences of `s` and of its reverse complement (the text holds both
        /// strands of every sequence, so both strings occur equally often)
        fn check_bi(&mut self, bi: &BiInterval, s: &[u8], cnt: usize, what: &str) -> Result<(), Stop> {
            self.check_block(&bi.forward(), s, cnt, what, "forward")?;
            self.check_block(&bi.revcomp(), &revcomp(s), cnt, what, "revcomp")?;
            self.max_iv = self.max_iv.max(cnt);
            Ok(())
        }

        /// number of occurrences of an arbitrary string (O(len))
        fn count(&self, s: &[u8]) -> usize {
            let ms = self.sam.matching_statistics(s);
            let (l, c) = ms[s.len()];
            if l as usize == s.len() {
                c as usize
            } else {
                0
            }
        }
    }

    struct Seen {
        max_m: usize,
        max_len: usize,
        max_cand: usize,
        max_res: usize,
        is: Vec<usize>,
        ls: Vec<usize>,
        filtered: bool,
        dup: bool,
        walk_steps: usize,
        empty_walk: bool,
    }

    fn run<DBWT: Borrow<BWT>, DLess: Borrow<Less>, DOcc: Borrow<Occ>>(fmd: &FMDIndex<DBWT, DLess, DOcc>, cx: &mut Ctx, seqs: &[Vec<u8>], own: &[u8], seen: &mut Seen) -> Result<(), Stop> {
        let c = cx.c;
        for (pi, ps) in c.patterns.iter().enumerate() {
            let p = build_pat(&ps.kind, seqs, own);
            let m = p.len();
            let l = ps.l;
            ensure!(l >= 1, "harness: l = 0");
            let all = cx.sam.smems(&p); // (start, len, occurrences), sorted
            seen.max_m = seen.max_m.max(m);
            seen.max_len = seen.max_len.max(all.iter().map(|x| x.1).max().unwrap_or(0));
            seen.filtered |= all.iter().any(|x| x.1 < l) && all.iter().any(|x| x.1 >= l);
            // number of candidate intervals smems keeps after the forward sweep from i: distinct occurrence
            // counts of p[i..e) over e (computed by the oracle for the class label only)
            let mut is: Vec<usize> = ps.is.iter().map(|&i| i.min(m - 1)).collect();
            is.dedup();
            for &i in &is {
                let got = fmd.smems(&p, i, l);
                let mut keys: Vec<(usize, usize)> = got.iter().map(|&(_, s, len)| (s, len)).collect();
                keys.sort();
                let expect: Vec<(usize, usize, usize)> = all.iter().cloned().filter(|&(s, len, _)| s <= i && i < s + len && len >= l).collect();
                let ekeys: Vec<(usize, usize)> = expect.iter().map(|&(s, len, _)| (s, len)).collect();
                ensure!(
                    keys == ekeys,
                    "{:?} k={} pattern #{} {:?} (length {}): smems(i={}, l={}) returned (start,len) {}; the supermaximal matches covering {} of length >= {} are {}",
                    c.seqs, c.k, pi, ps.kind, m, i, l, sao::show_vec(&keys), i, l, sao::show_vec(&ekeys)
                );
                for (bi, s, len) in &got {
                    let cnt = expect.iter().find(|x| x.0 == *s && x.1 == *len).map(|x| x.2).unwrap_or(0);
                    cx.check_bi(bi, &p[*s..*s + *len], cnt, &format!("pattern #{} {:?}: smems(i={}, l={}) result (start {}, len {})", pi, ps.kind, i, l, s, len))?;
                }
                seen.is.push(i);
                seen.ls.push(l);
                seen.max_res = seen.max_res.max(got.len());
                // class label: candidates after the forward sweep
                let ms_from_i = {
                    // occurrence counts of p[i..e) for growing e, until it stops occurring
                    let st = cx.sam.matching_statistics(&p[i..]);
                    let mut distinct = 0usize;
                    let mut last = usize::MAX;
                    for e in 1..st.len() {
                        if st[e].0 as usize != e {
                            break;
                        }
                        if st[e].1 as usize != last {
                            distinct += 1;
                            last = st[e].1 as usize;
                        }
                    }
                    distinct
                };
                seen.max_cand = seen.max_cand.max(ms_from_i);
            }
            if ps.all {
                let got = fmd.all_smems(&p, l);
                let mut keys: Vec<(usize, usize)> = got.iter().map(|&(_, s, len)| (s, len)).collect();
                keys.sort();
                let with_dups = keys.len();
                keys.dedup();
                seen.dup |= with_dups > keys.len();
                let expect: Vec<(usize, usize, usize)> = all.iter().cloned().filter(|&(_, len, _)| len >= l).collect();
                let ekeys: Vec<(usize, usize)> = expect.iter().map(|&(s, len, _)| (s, len)).collect();
                ensure!(
                    keys == ekeys,
                    "{:?} k={} pattern #{} {:?} (length {}): all_smems(l={}) returned {} distinct (start,len) {}; the {} supermaximal matches of length >= {} are {}",
                    c.seqs, c.k, pi, ps.kind, m, l, keys.len(), sao::show_vec(&keys), ekeys.len(), l, sao::show_vec(&ekeys)
                );
                // intervals of at most 400 results, spread evenly
                let stride = (got.len() / 400).max(1);
                for (bi, s, len) in got.iter().step_by(stride) {
                    let cnt = expect.iter().find(|x| x.0 == *s && x.1 == *len).map(|x| x.2).unwrap_or(0);
                    cx.check_bi(bi, &p[*s..*s + *len], cnt, &format!("pattern #{} {:?}: all_smems(l={}) result (start {}, len {})", pi, ps.kind, l, s, len))?;
                }
                seen.max_res = seen.max_res.max(got.len());
            }
        }

        for (wi, w) in c.walks.iter().enumerate() {
            let sq = &seqs[idx(w.seq, seqs.len() - 1)];
            let at = idx(w.start, sq.len() - 1);
            let (mut lo, mut hi) = (at, at + 1);
            let first = sq[at];
            let mut bi = match w.init {
                Init::With => fmd.init_interval_with(first),
                Init::EmptyForward => fmd.forward_ext(&fmd.init_interval(), first),
                Init::EmptyBackward => fmd.backward_ext(&fmd.init_interval(), first),
            };
            let cnt = cx.count(&sq[lo..hi]);
            cx.check_bi(&bi, &sq[lo..hi], cnt, &format!("walk #{} {:?} start", wi, w))?;
            let marks = ladder(w.steps);
            let mut done = 0usize;
            for step in 0..w.steps {
                let want_fwd = match w.mode {
                    0 => true,
                    1 => false,
                    2 => step % 2 == 0,
                    _ => (step / 100) % 2 == 0,
                };
                let fwd = if want_fwd { hi < sq.len() || lo == 0 } else { !(lo > 0 || hi == sq.len()) };
                if fwd {
                    if hi == sq.len() {
                        break;
                    }
                    bi = fmd.forward_ext(&bi, sq[hi]);
                    hi += 1;
                } else {
                    if lo == 0 {
                        break;
                    }
                    bi = fmd.backward_ext(&bi, sq[lo - 1]);
                    lo -= 1;
                }
                done += 1;
                let len = hi - lo;
                if done <= 3 || done == w.steps || marks.binary_search(&done).is_ok() || marks.binary_search(&len).is_ok() {
                    let cnt = cx.count(&sq[lo..hi]);
                    cx.check_bi(&bi, &sq[lo..hi], cnt, &format!("walk #{} {:?} after {} steps (string = sequence[{}..{}])", wi, w, done, lo, hi))?;
                }
            }
            seen.walk_steps = seen.walk_steps.max(done);
            // one more step with an arbitrary symbol: the bi-interval of the extended string, empty iff it does not occur
            let a = DNA10[(w.tail as usize).min(9)];
            let mut s: Vec<u8> = sq[lo..hi].to_vec();
            if w.tail_fwd {
                s.push(a);
                bi = fmd.forward_ext(&bi, a);
            } else {
                s.insert(0, a);
                bi = fmd.backward_ext(&bi, a);
            }
            let cnt = cx.count(&s);
            seen.empty_walk |= cnt == 0;
            cx.check_bi(&bi, &s, cnt, &format!("walk #{} {:?} final step with {:?}", wi, w, a as char))?;
        }
        // FMIndexable of the FMD-index: backward search gives the same answers as on the FM-index
        if let Some(ps) = c.patterns.first() {
            let p = build_pat(&ps.kind, seqs, own);
            let q = &p[..p.len().min(300)];
            let (best, occ) = sc::longest_suffix_occurrences(q, cx.text);
            let got = fmd.backward_search(q.iter());
            let ok = match got {
                bio::data_structures::fmindex::BackwardSearchResult::Complete(iv) => best == q.len() && sorted(iv.occ(cx.sa)) == occ,
                bio::data_structures::fmindex::BackwardSearchResult::Partial(iv, l) => best > 0 && best < q.len() && l == best && sorted(iv.occ(cx.sa)) == occ,
                bio::data_structures::fmindex::BackwardSearchResult::Absent => best == 0,
            };
            ensure!(ok, "{:?} k={}: FMDIndex::backward_search({}) = {:?}; the longest occurring suffix has length {} and occurs at {}", c.seqs, c.k, sao::show(q), got, best, sao::show_vec(&occ));
            ensure!(fmd.bwt().len() == cx.text.len(), "{:?}: FMDIndex::bwt() has length {}", c.seqs, fmd.bwt().len());
        }
        Ok(())
    }

    /// suffix-automaton SMEMs against the brute-force oracle on a truncated copy
    fn selfcheck(seqs: &[Vec<u8>], pats: &[Vec<u8>]) -> Result<(), Stop> {
        let small: Vec<Vec<u8>> = seqs.iter().take(2).map(|s| s[..s.len().min(12)].to_vec()).collect();
        let text = fmd_text(&small);
        let sam = Sam::new(&text);
        for p in pats {
            for q in [&p[..p.len().min(10)], &p[p.len() - p.len().min(10)..]] {
                let fast: Vec<(usize, usize)> = sam.smems(q).into_iter().map(|x| (x.0, x.1)).collect();
                let slow = brute_smems(q, &text);
                ensure!(fast == slow, "harness: oracle self-check: suffix automaton says {:?}, brute force says {:?} for pattern {:?} in text {:?}", fast, slow, lossy(q), lossy(&text));
                for &(s, len, cnt) in &sam.smems(q) {
                    let o = occurrences(&q[s..s + len], &text).len();
                    ensure!(o == cnt, "harness: oracle self-check: suffix automaton counts {} occurrences of {:?}, the scan {}", cnt, lossy(&q[s..s + len]), o);
                }
            }
        }
        Ok(())
    }

    pub fn check(c: &Case) -> R {
        ensure!(c.seqs.count >= 1 && c.seqs.len >= 1 && c.k >= 1 && !c.patterns.is_empty(), "harness: {:?} outside the domain", c);
        let seqs = c.seqs.build();
        let own: Vec<u8> = ALPHAS[(c.seqs.alpha as usize).min(4)].to_vec();
        let text = fmd_text(&seqs);
        let n = text.len();
        let pats: Vec<Vec<u8>> = c.patterns.iter().map(|p| build_pat(&p.kind, &seqs, &own)).collect();
        for p in &pats {
            ensure!(!p.is_empty() && p.iter().all(|&a| comp(a).is_some()), "harness: pattern outside the domain in {:?}", c);
        }
        selfcheck(&seqs, &pats)?;

        let alphabet = dna::n_alphabet();
        let sa = suffix_array(&text);
        // a wrong suffix array is C03's finding; every interval below is judged through it
        let (t, m) = match sc::int_view(&text, &sa) {
            Ok(x) => x,
            Err(e) => fail!("suffix_array: {:?}: {}", c.seqs, e),
        };
        if let Err(e) = sc::verify_sorted(&t, &sa) {
            fail!("suffix_array: {:?}: {}", c.seqs, e);
        }
        let bw = bwt(&text, &sa);
        let le = less(&bw, &alphabet);
        let oc = Occ::new(&bw, c.k, &alphabet);
        let sam = Sam::new(&text);
        let mut cx = Ctx { c, text: &text, sa: &sa, sam: &sam, max_iv: 0 };
        let mut seen = Seen { max_m: 0, max_len: 0, max_cand: 0, max_res: 0, is: vec![], ls: vec![], filtered: false, dup: false, walk_steps: 0, empty_walk: false };
        match c.own {
            0 => run(&FMDIndex::from(FMIndex::new(&bw, &le, &oc)), &mut cx, &seqs, &own, &mut seen)?,
            1 => run(&FMDIndex::from(FMIndex::new(bw.clone(), le.clone(), oc.clone())), &mut cx, &seqs, &own, &mut seen)?,
            2 => run(&FMDIndex::from(FMIndex::new(Arc::new(bw.clone()), Arc::new(le.clone()), Arc::new(oc.clone()))), &mut cx, &seqs, &own, &mut seen)?,
            _ => {
                // the text is over the DNA alphabet with N and `$`, which is all the unchecked constructor asks for
                let fmd = unsafe { FMDIndex::from_fmindex_unchecked(FMIndex::new(&bw, &le, &oc)) };
                run(&fmd, &mut cx, &seqs, &own, &mut seen)?
            }
        }

        let mut pass = Pass::new(seen.max_len >= 2);
        add_group(&mut pass, &N_LABELS, n);
        add_group(&mut pass, &SEQ_LABELS, m);
        add_group(&mut pass, &M_LABELS, seen.max_m);
        for p in &pats {
            add_group(&mut pass, &M_LABELS, p.len());
        }
        for &i in &seen.is {
            add_group(&mut pass, &I_LABELS, i);
        }
        for &l in &seen.ls {
            add_group(&mut pass, &L_LABELS, l);
        }
        add_group(&mut pass, &LEN_LABELS, seen.max_len);
        add_group(&mut pass, &IV_LABELS, cx.max_iv);
        add_group(&mut pass, &CAND_LABELS, seen.max_cand);
        add_group(&mut pass, &RES_LABELS, seen.max_res);
        add_group(&mut pass, &WALK_LABELS, seen.walk_steps);
        add_group(&mut pass, &K_LABELS, c.k as usize);
        pass.add_if(cx.max_iv > 255, "bi-interval of >255 rows");
        pass.add_if(cx.max_iv > 65_535, "bi-interval of >65535 rows");
        pass.add_if(seen.max_cand > 255, ">255 candidate intervals after the forward sweep");
        pass.add_if(seen.max_cand > 65_535, ">65535 candidate intervals after the forward sweep");
        pass.add_if(seen.max_res > 255, ">255 matches returned");
        pass.add_if(seen.max_len > 255, "SMEM longer than 255");
        pass.add_if(seen.max_len > 65_535, "SMEM longer than 65535");
        pass.add_if(seen.filtered, "l filters out a SMEM");
        pass.add_if(seen.dup, "all_smems reports a match more than once");
        pass.add_if(seen.empty_walk, "walk reaches the empty bi-interval");
        pass.add_if(c.seqs.count >= 2, "several sequences");
        pass.add_if(c.seqs.identical && c.seqs.count >= 2, "identical reads");
        pass.add_if(text.iter().any(|a| a.is_ascii_lowercase()), "lowercase symbols in the text");
        pass.add_if(text.iter().any(|&a| a == b'N' || a == b'n'), "N/n in the text");
        pass.add(["borrowed", "owned", "Arc", "from_fmindex_unchecked"][(c.own as usize).min(3)]);
        Ok(pass)
    }

    pub fn weight(c: &Case) -> u64 {
        let n = c.seqs.n() as u64;
        let mut w = n * 6 + 5000;
        for p in &c.patterns {
            let m = match &p.kind {
                PatKind::Sub { len, .. } | PatKind::Homo { len, .. } | PatKind::Periodic { len, .. } | PatKind::Rand { len, .. } => *len as u64,
            };
            w += m * (p.is.len() as u64 + p.all as u64) * (c.k as u64 / 48 + 15) / 2;
        }
        for wk in &c.walks {
            w += wk.steps as u64 * 40;
        }
        w
    }

    fn is_for(m: usize) -> Vec<usize> {
        let mut v = vec![0usize, 1, m / 2, m.saturating_sub(2), m.saturating_sub(1)];
        v.extend(ladder(m.saturating_sub(1)));
        v.sort_unstable();
        v.dedup();
        // at most 14 positions: the ends and the largest ladder values
        if v.len() > 14 {
            let keep: Vec<usize> = v[..3].iter().chain(v[v.len() - 11..].iter()).cloned().collect();
            v = keep;
        }
        v
    }

    pub fn cases(t: Tier, seed: u64) -> Vec<Case> {
        let mut v: Vec<Case> = Vec::new();
        let reps = if t == Tier::Quick { 1 } else { 6 };
        let ks: [u32; 10] = [1, 2, 3, 8, 64, 65, 128, 257, 4097, 65_537];
        let sq = |kind: Kind, count: usize, len: usize, alpha: u8, identical: bool, s: u64| Seqs { kind, count, len, alpha, identical, seed: s };
        let walk = |j: usize, steps: usize| LWalk { init: [Init::With, Init::EmptyForward, Init::EmptyBackward][j % 3], seq: (j * 7919 % 65536) as u16, start: [100u16, 30000, 65000][j % 3], steps, mode: (j % 4) as u8, tail: (j % 10) as u8, tail_fwd: j % 2 == 0 };
        for rep in 0..reps {
            let sd = |x: u64| mix(seed, 0xc06_0 + x * 1000 + rep as u64);
            let mut i = 0usize;
            // (1) text length ladder (n = 2*count*(len+1) is even: the middle value of each group), one and several sequences
            for (vi, &n) in ladder(1 << 21).iter().filter(|&&n| n % 2 == 0).enumerate() {
                let s = sd(vi as u64);
                let huge = n > 131_073;
                let mut specs = vec![sq(Kind::Random, 1, n / 2 - 1, 0, false, s)];
                if !huge || t == Tier::Thorough {
                    specs.push(sq(Kind::Homo, 1, n / 2 - 1, 4, false, s));
                    specs.push(sq(Kind::Period(2), 1, n / 2 - 1, 1, false, s));
                    specs.push(sq(Kind::Random, 8, n / 16 - 1, 2, false, s));
                    specs.push(sq(Kind::Period(2), 1, n / 2 - 1, 3, false, s));
                    specs.push(sq(Kind::Random, n / 64, 31, 0, true, s));
                }
                for spec in specs {
                    i += 1;
                    let m = 300.min(spec.len);
                    let pats = vec![
                        Pat { kind: PatKind::Sub { seq: 0, start: 20000, len: m, rc: false, every: 0 }, is: is_for(m), l: 1, all: true },
                        Pat { kind: PatKind::Sub { seq: 40000, start: 5000, len: m, rc: true, every: 37 }, is: is_for(m), l: 1 + i % 40, all: true },
                        Pat { kind: PatKind::Rand { len: 40, seed: s }, is: vec![0, 7, 39], l: 1 + i % 3, all: true },
                        Pat { kind: PatKind::Homo { sym: 0, len: 300.min(spec.len) }, is: vec![0, 1, 298, 299], l: 2, all: true },
                    ];
                    let walks = vec![walk(i, 300.min(spec.len)), walk(i + 1, 40)];
                    v.push(Case { seqs: spec, k: if huge { 64 } else { ks[i % 10] }, own: (i % 4) as u8, patterns: pats, walks });
                }
            }
            // (2) number of sequences: 2*count sentinel occurrences
            for (vi, &sn) in ladder(131_073).iter().enumerate() {
                let s = sd(200 + vi as u64);
                let count = (sn + 1) / 2;
                for spec in [sq(Kind::Random, count, 3, 0, false, s), sq(Kind::Random, count, 7, 0, true, s)] {
                    i += 1;
                    let pats = vec![
                        Pat { kind: PatKind::Sub { seq: 30000, start: 0, len: 7, rc: false, every: 0 }, is: vec![0, 3, 6], l: 1, all: true },
                        Pat { kind: PatKind::Rand { len: 30, seed: s }, is: vec![0, 15, 29], l: 2, all: true },
                    ];
                    v.push(Case { seqs: spec, k: ks[i % 9], own: (i % 4) as u8, patterns: pats, walks: vec![walk(i, 6)] });
                }
            }
            // (3) pattern length / SMEM length / position i ladder on random sequences: whole-pattern match, mismatches
            for (vi, &m) in ladder(1 << 19).iter().enumerate() {
                let s = sd(400 + vi as u64);
                i += 1;
                let spec = sq(Kind::Random, 2, m + 500, 0, false, s);
                let k = if m > 20_000 { [16u32, 64, 128][i % 3] } else { ks[i % 10] };
                // all_smems is quadratic when l filters out long matches (it restarts at every position), so it
                // is only called with a small l
                let pats = vec![
                    Pat { kind: PatKind::Sub { seq: 0, start: 0, len: m, rc: false, every: 0 }, is: is_for(m), l: 1, all: true },
                    Pat { kind: PatKind::Sub { seq: 65535, start: 0, len: m, rc: true, every: m / 2 }, is: is_for(m), l: m / 2 - 1, all: false },
                    Pat { kind: PatKind::Sub { seq: 65535, start: 0, len: m, rc: true, every: m / 2 }, is: vec![0, m / 2, m - 1], l: 5, all: true },
                    Pat { kind: PatKind::Sub { seq: 0, start: 0, len: m.min(40_000), rc: false, every: 23 }, is: vec![0, m.min(40_000) / 2, m.min(40_000) - 1], l: 12, all: true },
                ];
                v.push(Case { seqs: spec, k, own: (i % 4) as u8, patterns: pats, walks: vec![walk(i, m), walk(i + 2, m.min(3000))] });
            }
            // (4) minimum length l on the ladder with SMEM lengths l-1, l, l+1 (segments between planted mismatches)
            for (vi, &l) in ladder(131_073).iter().enumerate() {
                let s = sd(600 + vi as u64);
                i += 1;
                let spec = sq(Kind::Random, 1, 4 * l + 500, 0, false, s);
                let pats = vec![
                    Pat { kind: PatKind::Sub { seq: 0, start: 100, len: 3 * l + 200, rc: false, every: l }, is: vec![0, l - 1, l, l + 1, 2 * l], l, all: l <= 1100 },
                    Pat { kind: PatKind::Sub { seq: 0, start: 900, len: 3 * l + 200, rc: true, every: l + 1 }, is: vec![0, l, 2 * l + 1], l, all: l <= 1100 },
                    Pat { kind: PatKind::Sub { seq: 0, start: 500, len: 3 * l + 200, rc: false, every: l - 1 }, is: vec![0, l - 2, l], l, all: l <= 1100 },
                ];
                v.push(Case { seqs: spec, k: [8u32, 64, 100][i % 3], own: (i % 4) as u8, patterns: pats, walks: vec![] });
            }
            // (5) bi-interval size and number of candidate intervals: homopolymers, dinucleotide repeats, identical reads
            for (vi, &sz) in ladder(131_073).iter().enumerate() {
                let s = sd(800 + vi as u64);
                // A^sz: the bi-interval of A has sz rows; the forward sweep over A^m keeps one candidate per length
                i += 1;
                let m = sz.min(70_000);
                v.push(Case {
                    seqs: sq(Kind::Homo, 1, sz, 4, false, s),
                    k: [3u32, 64, 128, 1000][i % 4],
                    own: (i % 4) as u8,
                    patterns: vec![
                        Pat { kind: PatKind::Homo { sym: 0, len: m }, is: vec![0, 1, m - 1], l: 1, all: true },
                        Pat { kind: PatKind::Homo { sym: 3, len: m.min(600) }, is: vec![0, m.min(600) / 2, m.min(600) - 1], l: 3, all: true },
                        Pat { kind: PatKind::Periodic { unit: vec![0, 0, 0, 1], len: 200 }, is: vec![0, 3, 100], l: 1, all: true },
                    ],
                    walks: vec![walk(i, sz.min(5000))],
                });
                // (AC)^(sz): A, AC, ACA .. ; candidates change every second symbol
                i += 1;
                let m2 = (2 * sz).min(60_000);
                v.push(Case {
                    seqs: sq(Kind::Period(2), 1, 2 * sz, 1, false, s),
                    k: [2u32, 65, 257][i % 3],
                    own: (i % 4) as u8,
                    patterns: vec![
                        Pat { kind: PatKind::Sub { seq: 0, start: 0, len: m2, rc: false, every: 0 }, is: vec![0, 1, m2 - 1], l: 1, all: true },
                        Pat { kind: PatKind::Sub { seq: 0, start: 0, len: m2.min(800), rc: true, every: 0 }, is: vec![0, m2.min(800) / 2, m2.min(800) - 1], l: 2, all: true },
                    ],
                    walks: vec![walk(i, 300)],
                });
                // identical reads: every substring of the read occurs sz times on each strand
                if sz <= 32_769 || t == Tier::Thorough {
                    i += 1;
                    v.push(Case {
                        seqs: sq(Kind::Random, sz, 15, 0, true, s),
                        k: ks[i % 9],
                        own: (i % 4) as u8,
                        patterns: vec![
                            Pat { kind: PatKind::Sub { seq: 0, start: 0, len: 15, rc: false, every: 0 }, is: vec![0, 7, 14], l: 1, all: true },
                            Pat { kind: PatKind::Sub { seq: 0, start: 0, len: 15, rc: true, every: 6 }, is: vec![0, 5, 14], l: 2, all: true },
                        ],
                        walks: vec![walk(i, 14)],
                    });
                }
            }
            // (6) homopolymer pattern longer than the homopolymer in the text: quadratic candidate bookkeeping, moderate sizes
            for (vi, &run) in [255usize, 256, 257, 511, 512, 513, 1023, 1024, 1025].iter().enumerate() {
                if run > 600 && t == Tier::Quick {
                    continue;
                }
                i += 1;
                v.push(Case {
                    seqs: sq(Kind::Homo, 1, run, 4, false, sd(900 + vi as u64)),
                    k: ks[i % 8],
                    own: (i % 4) as u8,
                    patterns: vec![Pat { kind: PatKind::Homo { sym: 0, len: 2 * run + 7 }, is: vec![0, run, 2 * run + 6], l: 1 + (i % 2) * (run - 1), all: true }],
                    walks: vec![],
                });
            }
        }
        v
    }

    pub fn sub() -> LadderSub<Case> {
        LadderSub {
            name: "C06/large",
            cases,
            weight,
            check,
            shards_quick: 16,
            shards_thorough: 16,
            must_reach: &[
                N_LABELS[0], N_LABELS[1], N_LABELS[2], N_LABELS[3], N_LABELS[4], N_LABELS[5], N_LABELS[6], N_LABELS[7], N_LABELS[8], N_LABELS[9], N_LABELS[10], N_LABELS[11],
                SEQ_LABELS[0], SEQ_LABELS[1], SEQ_LABELS[2], SEQ_LABELS[3], SEQ_LABELS[4], SEQ_LABELS[5], SEQ_LABELS[6], SEQ_LABELS[7], SEQ_LABELS[8], SEQ_LABELS[9],
                M_LABELS[0], M_LABELS[1], M_LABELS[2], M_LABELS[3], M_LABELS[4], M_LABELS[5], M_LABELS[6], M_LABELS[7], M_LABELS[8], M_LABELS[9], M_LABELS[10],
                I_LABELS[0], I_LABELS[1], I_LABELS[2], I_LABELS[3], I_LABELS[4], I_LABELS[5], I_LABELS[6], I_LABELS[7], I_LABELS[8], I_LABELS[9], I_LABELS[10],
                L_LABELS[0], L_LABELS[1], L_LABELS[2], L_LABELS[3], L_LABELS[4], L_LABELS[5], L_LABELS[6], L_LABELS[7], L_LABELS[8], L_LABELS[9],
                LEN_LABELS[0], LEN_LABELS[1], LEN_LABELS[2], LEN_LABELS[3], LEN_LABELS[4], LEN_LABELS[5], LEN_LABELS[6], LEN_LABELS[7], LEN_LABELS[8], LEN_LABELS[9], LEN_LABELS[10],
                IV_LABELS[0], IV_LABELS[1], IV_LABELS[2], IV_LABELS[3], IV_LABELS[4], IV_LABELS[5], IV_LABELS[6], IV_LABELS[7], IV_LABELS[8], IV_LABELS[9],
                CAND_LABELS[0], CAND_LABELS[1], CAND_LABELS[2], CAND_LABELS[3], CAND_LABELS[4], CAND_LABELS[5], CAND_LABELS[6], CAND_LABELS[7],
                WALK_LABELS[0], WALK_LABELS[1], WALK_LABELS[2], WALK_LABELS[3], WALK_LABELS[4], WALK_LABELS[5], WALK_LABELS[6], WALK_LABELS[7], WALK_LABELS[8], WALK_LABELS[9],
                K_LABELS[0], K_LABELS[3], K_LABELS[7],
                "bi-interval of >255 rows", "bi-interval of >65535 rows", ">255 candidate intervals after the forward sweep", ">65535 candidate intervals after the forward sweep",
                ">255 matches returned", "SMEM longer than 255", "SMEM longer than 65535", "l filters out a SMEM", "walk reaches the empty bi-interval",
                "several sequences", "identical reads", "lowercase symbols in the text", "N/n in the text",
                "borrowed", "owned", "Arc", "from_fmindex_unchecked",
            ],
        }
    }
}

pub fn property() -> Property {
    Property {
        id: "C06",
        rule: "random: 1-3 sequences of length 1..=14 (thorough: up to 40) over {AC}, {ACGT}, {ACGTN}, all ten symbols ACGTNacgtn, {ACac}, {ANTn} or a random 1-4 symbol subset; text = concat(s$revcomp(s)$) with the reverse complement computed by the harness; index alphabet dna::n_alphabet(); Occ rate 1..=130; pattern of length 1..=12 (thorough: up to 20; concatenated text substrings with 0-2 substitutions, or random); minimum length l in 1..=13; smems is called at EVERY pattern position and compared as a sorted (start,len) list (duplicates count as a mismatch) with the brute-force supermaximal matches covering that position of length >= l, all_smems (deduplicated) with all of them; every returned bi-interval's forward / revcomp interval must map through the suffix array to exactly the occurrences of the match / of its reverse complement; 1-2 extension walks (start init_interval_with(c) or init_interval() extended by c, then up to 10 forward_ext/backward_ext steps that mostly follow the text) are compared with the naive occurrence sets after every step, stopping once the bi-interval is empty. exhaustive: every sequence over {A,C,G} / {A,n,c} up to the stated length against every pattern over those letters and their complements. Non-trivial = the pattern has a supermaximal match of length >= max(2,l); distinct = distinct serialised case. LARGE-SCALE (C06/large; enumerated parameter cases): text length, number of sequences, pattern length, position i, minimum length l, SMEM length, bi-interval size, number of candidate intervals after the forward sweep (homopolymer / dinucleotide patterns), number of matches returned, walk length and Occ rate on the ladder 255..2^20; oracle = suffix automaton of the two-strand text (matching statistics -> every supermaximal match with its occurrence count), cross-checked against the brute-force SMEM oracle on a truncated copy inside every case; each returned interval must be exactly the block of rows starting with the match / its reverse complement (first and last row start with it, the neighbouring rows do not, size = occurrence count; the suffix array is verified first); owned / Arc / from_fmindex_unchecked constructions and FMDIndex::backward_search are exercised as well.",
        assumptions: &[
            "sequences are non-empty and over ACGTNacgtn; the index is built with dna::n_alphabet() from s$revcomp(s)$ per sequence",
            "patterns and extension symbols are over ACGTNacgtn; l >= 1",
            "extension is only checked from non-empty bi-intervals (the walk stops at the first empty one)",
        ],
        subs: vec![
            Box::new(PropSub {
                name: "C06/random",
                quick: 800_000,
                thorough: 12_000_000,
                shards_quick: 16,
                shards_thorough: 16,
                strat,
                check,
                must_reach: &[
                    "lowercase symbols in the text",
                    "N/n in the text",
                    "several sequences",
                    "SMEM of length>=2",
                    "several SMEMs cover one position",
                    "walk reaches the empty bi-interval",
                    "walk: both directions, still occurs",
                    "l filters out a SMEM",
                    "SMEM occurrence touches a sentinel",
                ],
                watch: false,
            }),
            Box::new(ExhSub { name: "C06/exhaustive", enumerate, check, must_reach: &["several SMEMs cover one position", "N/n in the text"] }),
            Box::new(large::sub()),
        ],
    }
}
