//! C06 — FMD-index: smems / all_smems report exactly the supermaximal exact matches
//! (both strands), bi-interval extension yields the bi-interval of the extended string.

use crate::engine::gen::idx;
use crate::engine::*;
use crate::ensure;
use crate::oracles::fm::{brute_smems, comp, fmd_text, occurrences, revcomp};
use bio::alphabets::dna;
use bio::data_structures::bwt::{bwt, less, Occ};
use bio::data_structures::fmindex::{BiInterval, FMDIndex, FMIndex};
use bio::data_structures::suffix_array::{suffix_array, RawSuffixArray};
use proptest::prelude::*;
use serde::{Deserialize, Serialize};

const DNA10: &[u8; 10] = b"ACGTNacgtn";

#[derive(Serialize, Deserialize, Debug, Clone, Copy, PartialEq, Eq)]
pub enum Init {
    /// `init_interval_with(first)`
    With,
    /// `forward_ext(init_interval(), first)`
    EmptyForward,
    /// `backward_ext(init_interval(), first)`
    EmptyBackward,
}

#[derive(Serialize, Deserialize, Debug, Clone)]
pub struct Step {
    /// true: forward_ext (append), false: backward_ext (prepend)
    pub fwd: bool,
    pub sym: char,
}

#[derive(Serialize, Deserialize, Debug, Clone)]
pub struct Walk {
    pub init: Init,
    pub first: char,
    pub steps: Vec<Step>,
}

#[derive(Serialize, Deserialize, Debug, Clone)]
pub struct Case {
    /// DNA sequences (ACGTNacgtn), each non-empty; indexed text = concat(s $ revcomp(s) $)
    pub seqs: Vec<B>,
    /// Occ sampling rate
    pub k: u32,
    /// pattern over ACGTNacgtn, non-empty; smems is checked at every position of it
    pub pattern: B,
    /// minimum SMEM length, >= 1
    pub l: usize,
    pub walks: Vec<Walk>,
}

fn sorted(mut v: Vec<usize>) -> Vec<usize> {
    v.sort_unstable();
    v
}

struct Ctx<'a> {
    c: &'a Case,
    text: &'a [u8],
    sa: &'a RawSuffixArray,
}

impl<'a> Ctx<'a> {
    fn head(&self) -> String {
        format!("seqs {:?} (text {:?}) k={}", self.c.seqs, lossy(self.text), self.c.k)
    }

    /// both intervals of `bi` must be exactly the occurrences of `s` and of revcomp(s)
    fn check_bi(&self, bi: &BiInterval, s: &[u8], what: &str) -> Result<(), Stop> {
        let n = self.text.len();
        let (f, r) = (bi.forward(), bi.revcomp());
        ensure!(
            f.lower <= f.upper && f.upper <= n && r.lower <= r.upper && r.upper <= n,
            "{}: {}: bi-interval of {:?} has intervals {:?}/{:?} outside 0..{}",
            self.head(), what, lossy(s), f, r, n
        );
        let exp_f = occurrences(s, self.text);
        let got_f = sorted(f.occ(self.sa));
        ensure!(
            got_f == exp_f,
            "{}: {}: forward interval {:?} of {:?} maps to {:?}, the string occurs at {:?}",
            self.head(), what, f, lossy(s), got_f, exp_f
        );
        let rc = revcomp(s);
        let exp_r = occurrences(&rc, self.text);
        let got_r = sorted(r.occ(self.sa));
        ensure!(
            got_r == exp_r,
            "{}: {}: revcomp interval {:?} of {:?} maps to {:?}, its reverse complement {:?} occurs at {:?}",
            self.head(), what, r, lossy(s), got_r, lossy(&rc), exp_r
        );
        Ok(())
    }
}

pub fn check(c: &Case) -> R {
    // ---- domain (harness self-check)
    ensure!(!c.seqs.is_empty() && c.seqs.iter().all(|s| !s.is_empty() && s.iter().all(|&a| comp(a).is_some())), "harness: sequences {:?} outside the domain", c.seqs);
    ensure!(!c.pattern.is_empty() && c.pattern.iter().all(|&a| comp(a).is_some()), "harness: pattern {:?} outside the domain", c.pattern);
    ensure!(c.l >= 1 && c.k >= 1, "harness: l/k");
    for w in &c.walks {
        ensure!(w.first.is_ascii() && comp(w.first as u8).is_some() && w.steps.iter().all(|s| s.sym.is_ascii() && comp(s.sym as u8).is_some()), "harness: walk {:?} outside the domain", w);
    }

    let seqs: Vec<Vec<u8>> = c.seqs.iter().map(|s| s.0.clone()).collect();
    let text = fmd_text(&seqs);
    let alphabet = dna::n_alphabet();
    let sa = suffix_array(&text);
    let bw = bwt(&text, &sa);
    let le = less(&bw, &alphabet);
    let oc = Occ::new(&bw, c.k, &alphabet);
    let fmd = FMDIndex::from(FMIndex::new(&bw, &le, &oc));
    let cx = Ctx { c, text: &text, sa: &sa };

    let p: &[u8] = &c.pattern;
    let m = p.len();
    let l = c.l;
    let all = brute_smems(p, &text); // sorted (start, len)

    let mut pass = Pass::new(all.iter().any(|&(_, len)| len >= 2 && len >= l));

    // ---- smems at every position
    for i in 0..m {
        let got = fmd.smems(p, i, l);
        let mut keys: Vec<(usize, usize)> = got.iter().map(|&(_, s, len)| (s, len)).collect();
        keys.sort();
        let expect: Vec<(usize, usize)> = all.iter().cloned().filter(|&(s, len)| s <= i && i < s + len && len >= l).collect();
        ensure!(
            keys == expect,
            "{} pattern {:?}: smems(i={}, l={}) returned (start,len) {:?}; the supermaximal matches covering {} of length >= {} are {:?} (all SMEMs of the pattern: {:?})",
            cx.head(), c.pattern, i, l, keys, i, l, expect, all
        );
        for (bi, s, len) in &got {
            cx.check_bi(bi, &p[*s..*s + *len], &format!("pattern {:?}: smems(i={}, l={}) result (start {}, len {})", c.pattern, i, l, s, len))?;
        }
        let covering = all.iter().filter(|&&(s, len)| s <= i && i < s + len).count();
        pass.add_if(covering >= 2, "several SMEMs cover one position");
        pass.add_if(covering == 0, "position covered by no SMEM");
        pass.add_if(expect.len() >= 2, "smems returns >=2 matches");
    }

    // ---- all_smems
    let got = fmd.all_smems(p, l);
    let mut keys: Vec<(usize, usize)> = got.iter().map(|&(_, s, len)| (s, len)).collect();
    keys.sort();
    let with_dups = keys.len();
    keys.dedup();
    let expect: Vec<(usize, usize)> = all.iter().cloned().filter(|&(_, len)| len >= l).collect();
    ensure!(
        keys == expect,
        "{} pattern {:?}: all_smems(l={}) returned (start,len) {:?} (deduplicated); the supermaximal matches of length >= {} are {:?} (all SMEMs: {:?})",
        cx.head(), c.pattern, l, keys, l, expect, all
    );
    for (bi, s, len) in &got {
        cx.check_bi(bi, &p[*s..*s + *len], &format!("pattern {:?}: all_smems(l={}) result (start {}, len {})", c.pattern, l, s, len))?;
    }
    pass.add_if(with_dups > keys.len(), "all_smems reports a match more than once");

    // ---- extension walks
    for (wi, w) in c.walks.iter().enumerate() {
        let first = w.first as u8;
        let mut s: Vec<u8> = vec![first];
        let mut bi = match w.init {
            Init::With => fmd.init_interval_with(first),
            Init::EmptyForward => fmd.forward_ext(&fmd.init_interval(), first),
            Init::EmptyBackward => fmd.backward_ext(&fmd.init_interval(), first),
        };
        cx.check_bi(&bi, &s, &format!("walk #{} start {:?}", wi, w.init))?;
        let mut steps_done = 0usize;
        let mut both = (false, false);
        for st in &w.steps {
            if bi.forward().lower == bi.forward().upper {
                pass.add("walk reaches the empty bi-interval");
                break; // extension is only checked from non-empty bi-intervals
            }
            let a = st.sym as u8;
            if st.fwd {
                s.push(a);
                bi = fmd.forward_ext(&bi, a);
                both.0 = true;
            } else {
                s.insert(0, a);
                bi = fmd.backward_ext(&bi, a);
                both.1 = true;
            }
            steps_done += 1;
            cx.check_bi(&bi, &s, &format!("walk #{} ({:?}) after step {} ({} {:?})", wi, w, steps_done, if st.fwd { "forward_ext" } else { "backward_ext" }, st.sym))?;
        }
        let nonempty = bi.forward().lower < bi.forward().upper;
        pass.add_if(nonempty && s.len() >= 4, "walk: string of length>=4 still occurs");
        pass.add_if(nonempty && both.0 && both.1, "walk: both directions, still occurs");
        pass.add_if(w.init != Init::With, "walk starts from init_interval()");
        pass.add_if(nonempty && s.len() >= 2 && revcomp(&s) == s, "walk: reverse-palindromic string");
    }

    // ---- classes
    let lower = |a: &u8| a.is_ascii_lowercase();
    let is_n = |a: &u8| *a == b'N' || *a == b'n';
    pass.add_if(text.iter().any(lower), "lowercase symbols in the text");
    pass.add_if(text.iter().any(is_n), "N/n in the text");
    pass.add_if(text.iter().any(lower) && text.iter().any(|a| a.is_ascii_uppercase()), "mixed case text");
    pass.add_if(c.seqs.len() >= 2, "several sequences");
    pass.add_if(all.iter().any(|&(_, len)| len >= 2), "SMEM of length>=2");
    pass.add_if(all.iter().any(|&(_, len)| len >= 5), "SMEM of length>=5");
    pass.add_if(all.len() >= 3, ">=3 SMEMs in the pattern");
    pass.add_if(all.iter().any(|&(_, len)| len < l), "l filters out a SMEM");
    pass.add_if(all.iter().any(|&(_, len)| len >= l), "a SMEM passes l");
    pass.add_if(p.iter().any(|a| !text.contains(a)), "pattern symbol absent from the text");
    pass.add_if(p.iter().any(lower) || p.iter().any(is_n), "pattern has lowercase/N");
    pass.add_if(
        all.iter().any(|&(s, len)| {
            let o = occurrences(&p[s..s + len], &text);
            o.iter().any(|&q| q == 0 || text[q - 1] == b'$') || o.iter().any(|&q| text[q + len] == b'$')
        }),
        "SMEM occurrence touches a sentinel",
    );
    pass.add_if(all.iter().any(|&(s, len)| occurrences(&p[s..s + len], &text).len() >= 3), "SMEM with >=3 occurrences");
    pass.add_if(c.k > 64, "k>64");
    pass.add_if(c.k == 1, "k=1");
    Ok(pass)
}

// ---------------------------------------------------------------------------
// generator

fn alphabet() -> BoxedStrategy<Vec<u8>> {
    prop_oneof![
        2 => Just(b"AC".to_vec()),
        2 => Just(b"ACGT".to_vec()),
        1 => Just(b"ACGTN".to_vec()),
        2 => Just(DNA10.to_vec()),
        1 => Just(b"ACac".to_vec()),
        1 => Just(b"ANTn".to_vec()),
        4 => proptest::sample::subsequence(DNA10.to_vec(), 2..=4),
        1 => proptest::sample::subsequence(DNA10.to_vec(), 1..=1),
    ]
    .boxed()
}

#[derive(Debug, Clone)]
struct Sym {
    f: u16,
    /// draw from all ten symbols instead of the case's own alphabet
    wide: bool,
}

fn sym() -> BoxedStrategy<Sym> {
    (any::<u16>(), proptest::bool::weighted(0.2)).prop_map(|(f, wide)| Sym { f, wide }).boxed()
}

fn pick(s: &Sym, own: &[u8]) -> u8 {
    if s.wide {
        DNA10[idx(s.f, 9)]
    } else {
        own[idx(s.f, own.len() - 1)]
    }
}

#[derive(Debug, Clone)]
enum PSpec {
    /// concatenation of 1-2 substrings of the text (sentinels dropped) with 0-2 substitutions
    Derived { parts: Vec<(u16, usize)>, substs: Vec<(u16, Sym)> },
    Rand(Vec<Sym>),
}

fn pspec(pmax: usize) -> BoxedStrategy<PSpec> {
    prop_oneof![
        3 => (proptest::collection::vec((any::<u16>(), 1usize..=pmax), 1..=2), proptest::collection::vec((any::<u16>(), sym()), 0..=2))
            .prop_map(|(parts, substs)| PSpec::Derived { parts, substs }),
        2 => proptest::collection::vec(sym(), 1..=pmax).prop_map(PSpec::Rand),
    ]
    .boxed()
}

fn build_pattern(ps: &PSpec, text: &[u8], own: &[u8], pmax: usize) -> Vec<u8> {
    match ps {
        PSpec::Rand(v) => v.iter().map(|s| pick(s, own)).collect(),
        PSpec::Derived { parts, substs } => {
            let flat: Vec<u8> = text.iter().cloned().filter(|&a| a != b'$').collect();
            let mut p = Vec::new();
            for (start, len) in parts {
                let s = idx(*start, flat.len() - 1);
                let e = (s + len).min(flat.len());
                p.extend_from_slice(&flat[s..e]);
            }
            p.truncate(pmax);
            for (at, s) in substs {
                let i = idx(*at, p.len() - 1);
                p[i] = pick(s, own);
            }
            p
        }
    }
}

#[derive(Debug, Clone)]
struct WalkSpec {
    init: Init,
    center: u16,
    first_rand: Option<Sym>,
    /// (forward?, follow the text if possible, alternative symbol)
    steps: Vec<(bool, bool, Sym)>,
}

fn walkspec() -> BoxedStrategy<WalkSpec> {
    (
        prop_oneof![3 => Just(Init::With), 1 => Just(Init::EmptyForward), 1 => Just(Init::EmptyBackward)],
        any::<u16>(),
        proptest::option::weighted(0.15, sym()),
        proptest::collection::vec((any::<bool>(), proptest::bool::weighted(0.9), sym()), 0..=10),
    )
        .prop_map(|(init, center, first_rand, steps)| WalkSpec { init, center, first_rand, steps })
        .boxed()
}

fn build_walk(ws: &WalkSpec, text: &[u8], own: &[u8]) -> Walk {
    let n = text.len();
    let pos = idx(ws.center, n - 1);
    // (lo, hi): the walk string equals text[lo..hi] while `on` is true
    let (mut lo, mut hi, mut on) = (pos, pos + 1, true);
    let first = match (&ws.first_rand, text[pos]) {
        (Some(s), _) => {
            on = false;
            pick(s, own)
        }
        (None, b'$') => {
            on = false;
            own[0]
        }
        (None, a) => a,
    };
    let mut steps = Vec::new();
    for (fwd, follow, alt) in &ws.steps {
        let neighbour = if !on {
            None
        } else if *fwd {
            if hi < n && text[hi] != b'$' { Some(text[hi]) } else { None }
        } else if lo > 0 && text[lo - 1] != b'$' {
            Some(text[lo - 1])
        } else {
            None
        };
        let a = match (follow, neighbour) {
            (true, Some(x)) => x,
            _ => pick(alt, own),
        };
        if neighbour == Some(a) {
            if *fwd { hi += 1 } else { lo -= 1 }
        } else {
            on = false;
        }
        steps.push(Step { fwd: *fwd, sym: a as char });
    }
    Walk { init: ws.init, first: first as char, steps }
}

pub fn strat(t: Tier) -> BoxedStrategy<Case> {
    // quick: the sizes of DESIGN.md; thorough: also longer sequences and patterns
    let (smax, pmax) = match t {
        Tier::Quick => (14usize, 12usize),
        Tier::Thorough => (40, 20),
    };
    (
        alphabet(),
        proptest::collection::vec(prop_oneof![3 => proptest::collection::vec(any::<u16>(), 1..=14), 1 => proptest::collection::vec(any::<u16>(), 1..=smax)], 1..=3),
        prop_oneof![5 => 1u32..=8, 1 => 9u32..=64, 1 => 65u32..=130],
        pspec(pmax),
        prop_oneof![2 => Just(1usize), 3 => 2usize..=4, 1 => 5usize..=13],
        proptest::collection::vec(walkspec(), 1..=2),
    )
        .prop_map(move |(own, seqf, k, ps, l, wss)| {
            let seqs: Vec<Vec<u8>> = seqf.iter().map(|s| s.iter().map(|&f| own[idx(f, own.len() - 1)]).collect()).collect();
            let text = fmd_text(&seqs);
            let pattern = build_pattern(&ps, &text, &own, pmax);
            let walks = wss.iter().map(|w| build_walk(w, &text, &own)).collect();
            Case { seqs: seqs.into_iter().map(B).collect(), k, pattern: B(pattern), l, walks }
        })
        .boxed()
}

// ---------------------------------------------------------------------------
// bounded exhaustive: one sequence over a 3-letter alphabet up to length L, every pattern up to
// length 4 over those letters and their complements; extension walks spell the pattern forwards and backwards

fn strings(sigma: &[u8], max_len: usize) -> Vec<Vec<u8>> {
    let mut out = Vec::new();
    let mut layer: Vec<Vec<u8>> = vec![vec![]];
    for _ in 0..max_len {
        let mut next = Vec::new();
        for s in &layer {
            for &c in sigma {
                let mut x = s.clone();
                x.push(c);
                next.push(x);
            }
        }
        out.extend(next.iter().cloned());
        layer = next;
    }
    out
}

fn enumerate(t: Tier) -> Box<dyn Iterator<Item = Case>> {
    let (sl, pl) = match t {
        Tier::Quick => (5usize, 4usize),
        Tier::Thorough => (6, 5),
    };
    let families: Vec<(&'static [u8], usize, &'static [u8], usize)> = vec![(b"ACG", sl, b"ACGT", pl), (b"Anc", sl - 1, b"ATncg", pl - 1)];
    let mut v = Vec::new();
    for (ss, sl, ps, pl) in families {
        v.push((strings(ss, sl), std::sync::Arc::new(strings(ps, pl))));
    }
    Box::new(v.into_iter().flat_map(|(seqs, pats)| {
        seqs.into_iter().enumerate().flat_map(move |(j, s)| {
            let pats = pats.clone();
            (0..pats.len()).map(move |pi| {
                let p = pats[pi].clone();
                let m = p.len();
                let fw = Walk { init: Init::With, first: p[0] as char, steps: p[1..].iter().map(|&a| Step { fwd: true, sym: a as char }).collect() };
                let bw = Walk { init: Init::EmptyBackward, first: p[m - 1] as char, steps: p[..m - 1].iter().rev().map(|&a| Step { fwd: false, sym: a as char }).collect() };
                Case { seqs: vec![B(s.clone())], k: 1 + ((j + pi) % 3) as u32, pattern: B(p), l: 1 + (pi % 2), walks: vec![fw, bw] }
            })
        })
    }))
}

pub fn property() -> Property {
    Property {
        id: "C06",
        rule: "random: 1-3 sequences of length 1..=14 (thorough: up to 40) over {AC}, {ACGT}, {ACGTN}, all ten symbols ACGTNacgtn, {ACac}, {ANTn} or a random 1-4 symbol subset; text = concat(s$revcomp(s)$) with the reverse complement computed by the harness; index alphabet dna::n_alphabet(); Occ rate 1..=130; pattern of length 1..=12 (thorough: up to 20; concatenated text substrings with 0-2 substitutions, or random); minimum length l in 1..=13; smems is called at EVERY pattern position and compared as a sorted (start,len) list (duplicates count as a mismatch) with the brute-force supermaximal matches covering that position of length >= l, all_smems (deduplicated) with all of them; every returned bi-interval's forward / revcomp interval must map through the suffix array to exactly the occurrences of the match / of its reverse complement; 1-2 extension walks (start init_interval_with(c) or init_interval() extended by c, then up to 10 forward_ext/backward_ext steps that mostly follow the text) are compared with the naive occurrence sets after every step, stopping once the bi-interval is empty. exhaustive: every sequence over {A,C,G} / {A,n,c} up to the stated length against every pattern over those letters and their complements. Non-trivial = the pattern has a supermaximal match of length >= max(2,l); distinct = distinct serialised case.",
        assumptions: &[
            "sequences are non-empty and over ACGTNacgtn; the index is built with dna::n_alphabet() from s$revcomp(s)$ per sequence",
            "patterns and extension symbols are over ACGTNacgtn; l >= 1",
            "extension is only checked from non-empty bi-intervals (the walk stops at the first empty one)",
        ],
        subs: vec![
            Box::new(PropSub {
                name: "C06/random",
                quick: 800_000,
                thorough: 12_000_000,
                shards_quick: 16,
                shards_thorough: 16,
                strat,
                check,
                must_reach: &[
                    "lowercase symbols in the text",
                    "N/n in the text",
                    "several sequences",
                    "SMEM of length>=2",
                    "several SMEMs cover one position",
                    "walk reaches the empty bi-interval",
                    "walk: both directions, still occurs",
                    "l filters out a SMEM",
                    "SMEM occurrence touches a sentinel",
                ],
                watch: false,
            }),
            Box::new(ExhSub { name: "C06/exhaustive", enumerate, check, must_reach: &["several SMEMs cover one position", "N/n in the text"] }),
        ],
    }
}
