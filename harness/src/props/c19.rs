//! C19 — k-mer indexing and chaining are exact: q-gram rank codes, QGramIndex,
//! k-mer match finding, LCSk++ / sdpkpp chaining, match expansion.

use crate::engine::gen::idx;
use crate::engine::*;
use crate::ensure;
use proptest::prelude::*;
use serde::{Deserialize, Serialize};
use std::collections::{BTreeMap, BTreeSet};

/// smallest b with 2^b >= n: the number of bits needed for ranks 0..n-1 (0 for a one-letter alphabet)
fn bits_for(n: usize) -> u32 {
    let mut b = 0;
    while (1usize << b) < n {
        b += 1;
    }
    b
}

fn check_alphabet(alphabet: &[u8], seqs: &[&[u8]]) -> Result<(), Stop> {
    let set: BTreeSet<u8> = alphabet.iter().copied().collect();
    ensure!(!alphabet.is_empty() && set.len() == alphabet.len(), "harness: alphabet {:?} empty or with duplicates", alphabet);
    for s in seqs {
        ensure!(s.iter().all(|c| set.contains(c)), "harness: sequence {:?} not over the alphabet {:?}", s, alphabet);
    }
    Ok(())
}

/// alphabets: size 1..=9, 16, 37, 256; mostly readable letters, sometimes arbitrary bytes in arbitrary order
fn alphabet_strat() -> BoxedStrategy<Vec<u8>> {
    let size = prop_oneof![
        2 => Just(1usize), 2 => Just(2usize), 4 => Just(3usize), 2 => Just(4usize), 4 => Just(5usize), 3 => Just(6usize),
        3 => Just(7usize), 2 => Just(8usize), 3 => Just(9usize), 2 => Just(16usize), 3 => Just(37usize), 2 => Just(256usize),
    ];
    (size, any::<u8>(), (0u8..128).prop_map(|s| s * 2 + 1), 0u8..4)
        .prop_map(|(n, off, stride, mode)| {
            if mode > 0 && n <= 26 {
                (0..n).map(|j| b'a' + j as u8).collect()
            } else if mode > 0 && n == 37 {
                (0..n).map(|j| b'0' + j as u8).collect()
            } else {
                // odd stride is coprime with 256: n distinct bytes, not in rank order
                (0..n).map(|j| off.wrapping_add((j as u8).wrapping_mul(stride))).collect()
            }
        })
        .boxed()
}

#[derive(Debug, Clone)]
enum Piece {
    /// fresh symbols (fractions into the palette)
    Rand(Vec<u16>),
    /// copy of a stretch of the reference sequence (start fraction, length 0..=12)
    Copy(u16, u8),
}

fn piece(max_rand: usize) -> BoxedStrategy<Piece> {
    prop_oneof![
        3 => proptest::collection::vec(any::<u16>(), 0..=max_rand).prop_map(Piece::Rand),
        2 => (any::<u16>(), 0u8..=12).prop_map(|(s, l)| Piece::Copy(s, l)),
    ]
    .boxed()
}

/// `palette`: the symbols fresh pieces draw from; `reference`: where Copy pieces copy from (None = the sequence built so far)
fn assemble(palette: &[u8], pieces: &[Piece], reference: Option<&[u8]>, max_len: usize) -> Vec<u8> {
    let mut out: Vec<u8> = Vec::new();
    for p in pieces {
        match p {
            Piece::Rand(fr) => out.extend(fr.iter().map(|f| palette[idx(*f, palette.len() - 1)])),
            Piece::Copy(s, l) => {
                let src: Vec<u8> = match reference {
                    Some(r) => r.to_vec(),
                    None => out.clone(),
                };
                if !src.is_empty() {
                    let st = idx(*s, src.len() - 1);
                    let en = (st + *l as usize).min(src.len());
                    out.extend_from_slice(&src[st..en]);
                }
            }
        }
    }
    out.truncate(max_len);
    out
}

/// the symbols a case draws from: the whole alphabet, or a few of its letters (repeats become likely;
/// the alphabet — and with it the code width — stays the same)
fn palette_strat(alphabet: Vec<u8>) -> BoxedStrategy<Vec<u8>> {
    let n = alphabet.len();
    let a2 = alphabet.clone();
    prop_oneof![
        2 => Just(alphabet),
        3 => proptest::collection::vec(prop_oneof![3 => any::<u16>(), 1 => Just(u16::MAX)], 1..=4)
            .prop_map(move |fr| fr.iter().map(|f| a2[idx(*f, n - 1)]).collect::<Vec<u8>>()),
    ]
    .boxed()
}

// ===========================================================================
// RankTransform::qgrams / rev_qgrams up to the full word width

pub mod codes {
    use super::*;
    use bio::alphabets::{Alphabet, RankTransform};

    #[derive(Serialize, Deserialize, Debug, Clone)]
    pub struct Case {
        pub alphabet: B,
        pub q: u32,
        pub text: B,
    }

    pub fn check(c: &Case) -> R {
        let text: &[u8] = &c.text;
        check_alphabet(&c.alphabet, &[text])?;
        let n = c.alphabet.len();
        let bits = bits_for(n);
        let q = c.q as usize;
        ensure!(q >= 1 && bits * c.q <= usize::BITS, "harness: q={} with {} bits per symbol exceeds the word", q, bits);
        let alphabet = Alphabet::new(&c.alphabet.0);
        ensure!(alphabet.len() == n, "harness: Alphabet::new kept {} of {} symbols", alphabet.len(), n);
        let ranks = RankTransform::new(&alphabet);
        let count = (text.len() + 1).saturating_sub(q);
        let fwd: Vec<usize> = ranks.qgrams(c.q, text).take(text.len() + 2).collect();
        ensure!(
            fwd.len() == count,
            "|A|={} q={} text {:?}: qgrams() yields {} codes, the text has {} q-grams",
            n, q, c.text, fwd.len(), count
        );
        // injective and well defined: equal codes <=> equal q-grams
        let mut by_code: BTreeMap<usize, &[u8]> = BTreeMap::new();
        let mut by_gram: BTreeMap<&[u8], usize> = BTreeMap::new();
        for (i, &code) in fwd.iter().enumerate() {
            let g = &text[i..i + q];
            if let Some(prev) = by_code.insert(code, g) {
                ensure!(
                    prev == g,
                    "|A|={} q={} text {:?}: q-grams {:?} and {:?} (position {}) share the code {}",
                    n, q, c.text, B(prev.to_vec()), B(g.to_vec()), i, code
                );
            }
            if let Some(prev) = by_gram.insert(g, code) {
                ensure!(
                    prev == code,
                    "|A|={} q={} text {:?}: q-gram {:?} got code {} and later (position {}) code {}",
                    n, q, c.text, B(g.to_vec()), prev, i, code
                );
            }
        }
        // a q-gram taken alone gets the same code as inside the text
        for (g, &code) in by_gram.iter().take(8) {
            let alone: Vec<usize> = ranks.qgrams(c.q, *g).take(3).collect();
            ensure!(
                alone == vec![code],
                "|A|={} q={}: q-gram {:?} alone has code(s) {:?}, inside text {:?} code {}",
                n, q, B(g.to_vec()), alone, c.text, code
            );
        }
        let mut rev: Vec<usize> = ranks.rev_qgrams(c.q, text).take(text.len() + 2).collect();
        rev.reverse();
        ensure!(
            rev == fwd,
            "|A|={} q={} text {:?}: rev_qgrams() reversed = {:?}, qgrams() = {:?}",
            n, q, c.text, rev, fwd
        );
        let distinct = by_gram.len();
        let mut pass = Pass::new(!n.is_power_of_two() && q >= 2 && distinct >= 2);
        pass.add_if(!n.is_power_of_two() && q >= 2, "|A| not a power of two, q>=2");
        pass.add_if(n == 1, "|A|=1");
        pass.add_if(n == 256, "|A|=256");
        pass.add_if(n.is_power_of_two() && n > 1, "|A| a power of two");
        pass.add_if(bits * c.q == usize::BITS, "q*bits = 64");
        pass.add_if(bits * c.q > 32 && bits * c.q < 64, "q*bits in 33..63");
        pass.add_if(q == 1, "q=1");
        pass.add_if(text.len() < q, "text shorter than q");
        pass.add_if(distinct < count, "repeated q-gram");
        pass.add_if(distinct >= 2, ">= 2 distinct q-grams");
        Ok(pass)
    }

    pub fn strat(_t: Tier) -> BoxedStrategy<Case> {
        alphabet_strat()
            .prop_flat_map(|alphabet| {
                let bits = bits_for(alphabet.len());
                let qmax = if bits == 0 { 70 } else { 64 / bits };
                let q = prop_oneof![
                    4 => 1u32..=qmax.min(6),
                    2 => Just(qmax),
                    1 => Just((qmax - 1).max(1)),
                    2 => 1u32..=qmax,
                ];
                (palette_strat(alphabet.clone()), Just(alphabet), q)
            })
            .prop_flat_map(|(palette, alphabet, q)| {
                // a lead of up to q+8 fresh symbols so that most texts have several q-grams
                let lead = proptest::collection::vec(any::<u16>(), 0..=(q as usize + 8)).prop_map(Piece::Rand);
                (Just(palette), Just(alphabet), Just(q), lead, proptest::collection::vec(piece(20), 0..=5))
            })
            .prop_map(|(palette, alphabet, q, lead, mut pieces)| {
                pieces.insert(0, lead);
                let text = assemble(&palette, &pieces, None, 100);
                Case { alphabet: B(alphabet), q, text: B(text) }
            })
            .boxed()
    }
}

// ===========================================================================
// QGramIndex

pub mod index {
    use super::*;
    use bio::alphabets::{Alphabet, RankTransform};
    use bio::data_structures::qgram_index::QGramIndex;

    #[derive(Serialize, Deserialize, Debug, Clone)]
    pub struct Case {
        pub alphabet: B,
        pub q: u32,
        /// None = no limit (QGramIndex::new); Some(c) = with_max_count(.., c)
        pub max_count: Option<usize>,
        pub min_count: usize,
        pub text: B,
        pub pattern: B,
        /// additional q-grams over the alphabet that are looked up
        pub probes: Vec<B>,
    }

    fn positions(g: &[u8], text: &[u8]) -> Vec<usize> {
        let q = g.len();
        (0..(text.len() + 1).saturating_sub(q)).filter(|&p| &text[p..p + q] == g).collect()
    }

    /// (pattern.start, pattern.stop, text.start, text.stop)
    type Iv = (usize, usize, usize, usize);

    pub fn check(c: &Case) -> R {
        let text: &[u8] = &c.text;
        let pattern: &[u8] = &c.pattern;
        let mut all: Vec<&[u8]> = vec![text, pattern];
        all.extend(c.probes.iter().map(|p| p.0.as_slice()));
        check_alphabet(&c.alphabet, &all)?;
        let n = c.alphabet.len();
        let bits = bits_for(n);
        let q = c.q as usize;
        ensure!(q >= 1 && bits * c.q <= 20, "harness: q={} with {} bits per symbol: table too large for this sub-check", q, bits);
        ensure!(c.min_count >= 1, "harness: min_count 0");
        ensure!(c.probes.iter().all(|p| p.len() == q), "harness: probe of the wrong length");
        let max_count = c.max_count.unwrap_or(usize::MAX);
        let alphabet = Alphabet::new(&c.alphabet.0);
        let ranks = RankTransform::new(&alphabet);
        let index = match c.max_count {
            None => QGramIndex::new(c.q, text, &alphabet),
            Some(mc) => QGramIndex::with_max_count(c.q, text, &alphabet, mc),
        };
        ensure!(index.q() == c.q, "q() = {} for an index built with q = {}", index.q(), c.q);
        let ctx = format!("|A|={} q={} max_count={:?} text {:?}", n, q, c.max_count, c.text);

        // ---- position lists: every q-gram of the text, of the pattern and the probes
        let mut grams: BTreeSet<&[u8]> = BTreeSet::new();
        for s in [text, pattern] {
            for i in 0..(s.len() + 1).saturating_sub(q) {
                grams.insert(&s[i..i + q]);
            }
        }
        for p in &c.probes {
            grams.insert(&p.0);
        }
        let mut exceeded = false;
        let mut code_of: BTreeMap<usize, &[u8]> = BTreeMap::new();
        for g in &grams {
            let code: Vec<usize> = ranks.qgrams(c.q, *g).take(3).collect();
            ensure!(code.len() == 1, "{}: qgrams() of the single q-gram {:?} yields {:?}", ctx, B(g.to_vec()), code);
            let code = code[0];
            if let Some(other) = code_of.insert(code, g) {
                ensure!(other == *g, "{}: q-grams {:?} and {:?} share the code {}", ctx, B(other.to_vec()), B(g.to_vec()), code);
            }
            let mut want = positions(g, text);
            if want.len() > max_count {
                exceeded = true;
                want.clear();
            }
            let got = index.qgram_matches(code).to_vec();
            ensure!(
                got == want,
                "{}: qgram_matches(code {} of {:?}) = {:?}, positions of the q-gram in the text: {:?}",
                ctx, code, B(g.to_vec()), got, want
            );
        }

        // ---- hits: pattern q-gram i equals text q-gram p and is not masked by max_count
        let np = (pattern.len() + 1).saturating_sub(q);
        let mut hits: Vec<(usize, usize)> = Vec::new();
        for i in 0..np {
            let pos = positions(&pattern[i..i + q], text);
            if pos.len() <= max_count {
                hits.extend(pos.into_iter().map(|p| (i, p)));
            }
        }
        let below = hits.iter().any(|&(i, p)| p < i);

        // ---- matches(pattern, min_count): per diagonal count and spans first..last hit
        let mut diag: BTreeMap<i64, (usize, usize, usize, usize, usize)> = BTreeMap::new();
        for &(i, p) in &hits {
            let d = p as i64 - i as i64;
            let e = diag.entry(d).or_insert((i, p, i, p, 0));
            e.2 = i;
            e.3 = p;
            e.4 += 1;
        }
        let mut want_m: Vec<(Iv, usize)> = diag
            .values()
            .filter(|e| e.4 >= c.min_count)
            .map(|e| ((e.0, e.2 + q, e.1, e.3 + q), e.4))
            .collect();
        want_m.sort();
        let mut got_m: Vec<(Iv, usize)> = index
            .matches(pattern, c.min_count)
            .iter()
            .map(|m| ((m.pattern.start, m.pattern.stop, m.text.start, m.text.stop), m.count))
            .collect();
        got_m.sort();
        ensure!(
            got_m == want_m,
            "{} pattern {:?}: matches(pattern, {}) = {:?} (pattern.start, pattern.stop, text.start, text.stop; count), expected per diagonal {:?}",
            ctx, c.pattern, c.min_count, got_m, want_m
        );

        // ---- exact_matches(pattern)
        let mut want_e: Vec<Iv> = Vec::new();
        let mut split_run = false;
        if c.max_count.is_none() {
            // maximal exact matches of length >= q, straight from the two sequences
            let (m, t) = (pattern.len() as i64, text.len() as i64);
            for d in -(m - 1).max(0)..t.max(1) {
                let mut i = (-d).max(0);
                let mut runs = 0;
                while i < m && i + d < t {
                    if pattern[i as usize] != text[(i + d) as usize] {
                        i += 1;
                        continue;
                    }
                    let st = i;
                    while i < m && i + d < t && pattern[i as usize] == text[(i + d) as usize] {
                        i += 1;
                    }
                    if (i - st) as usize >= q {
                        want_e.push((st as usize, i as usize, (st + d) as usize, (i + d) as usize));
                        runs += 1;
                    }
                }
                split_run |= runs >= 2;
            }
        } else {
            // with masked q-grams: maximal runs of consecutive hits on a diagonal
            let mut per: BTreeMap<i64, Vec<usize>> = BTreeMap::new();
            for &(i, p) in &hits {
                per.entry(p as i64 - i as i64).or_default().push(i);
            }
            for (d, is) in per {
                let mut k = 0;
                let mut runs = 0;
                while k < is.len() {
                    let st = is[k];
                    while k + 1 < is.len() && is[k + 1] == is[k] + 1 {
                        k += 1;
                    }
                    let en = is[k] + q;
                    want_e.push((st, en, (st as i64 + d) as usize, (en as i64 + d) as usize));
                    runs += 1;
                    k += 1;
                }
                split_run |= runs >= 2;
            }
        }
        want_e.sort();
        let mut got_e: Vec<Iv> = index
            .exact_matches(pattern)
            .iter()
            .map(|m| (m.pattern.start, m.pattern.stop, m.text.start, m.text.stop))
            .collect();
        got_e.sort();
        ensure!(
            got_e == want_e,
            "{} pattern {:?}: exact_matches = {:?} (pattern.start, pattern.stop, text.start, text.stop), expected the maximal matches {:?}",
            ctx, c.pattern, got_e, want_e
        );

        let npow2 = !n.is_power_of_two();
        let mut pass = Pass::new(npow2 && q >= 2 && !hits.is_empty());
        pass.add_if(npow2 && q >= 2, "|A| not a power of two, q>=2");
        pass.add_if(npow2 && q >= 2 && text.len() >= q, "|A| not a power of two, q>=2, non-empty index");
        pass.add_if(n == 1, "|A|=1");
        pass.add_if(n == 256, "|A|=256");
        pass.add_if(n == 37, "|A|=37");
        pass.add_if(n.is_power_of_two() && n > 1, "|A| a power of two");
        pass.add_if(exceeded, "max_count exceeded");
        pass.add_if(c.max_count == Some(0), "max_count=0");
        pass.add_if(c.max_count.is_some() && !exceeded && text.len() >= q, "max_count set, not exceeded");
        pass.add_if(below, "diagonal with text pos < pattern pos");
        pass.add_if(split_run, "two exact matches on one diagonal");
        pass.add_if(diag.values().any(|e| e.4 < e.2 - e.0 + 1), "matches: diagonal with a gap between hits");
        pass.add_if(diag.values().any(|e| e.4 < c.min_count), "min_count filters a diagonal");
        pass.add_if(diag.len() >= 3, ">= 3 diagonals with hits");
        pass.add_if(hits.is_empty(), "no hits");
        pass.add_if(!hits.is_empty(), "has hits");
        pass.add_if(pattern.len() < q, "pattern shorter than q");
        pass.add_if(text.len() < q, "text shorter than q");
        pass.add_if(text.is_empty(), "empty text");
        pass.add_if(q == 1, "q=1");
        pass.add_if(want_e.iter().any(|e| e.1 - e.0 > q), "exact match longer than q");
        Ok(pass)
    }

    pub fn strat(_t: Tier) -> BoxedStrategy<Case> {
        alphabet_strat()
            .prop_flat_map(|alphabet| {
                let n = alphabet.len();
                let bits = bits_for(n);
                // address table of 2^(q*bits) words: keep it <= 2^16
                let qmax = if bits == 0 { 6 } else { (16 / bits).min(6) };
                let q = prop_oneof![1 => Just(1u32), 4 => Just(2u32.min(qmax)), 3 => Just(3u32.min(qmax)), 2 => 1u32..=qmax];
                (Just(alphabet.clone()), palette_strat(alphabet), q)
            })
            .prop_flat_map(|(alphabet, palette, q)| {
                let n = alphabet.len();
                let a2 = alphabet.clone();
                let probe = proptest::collection::vec(prop_oneof![2 => any::<u16>(), 1 => Just(u16::MAX)], q as usize)
                    .prop_map(move |fr| B(fr.iter().map(|f| a2[idx(*f, n - 1)]).collect()));
                (
                    Just(alphabet),
                    Just(palette),
                    Just(q),
                    prop_oneof![6 => Just(None), 1 => Just(Some(0usize)), 3 => Just(Some(1usize)), 2 => Just(Some(2usize)), 1 => Just(Some(3usize))],
                    prop_oneof![3 => Just(1usize), 2 => Just(2usize), 1 => Just(3usize)],
                    // text: usually a fresh lead, then fresh pieces and copies of earlier stretches
                    (prop_oneof![1 => Just(0usize), 9 => 2usize..=12], proptest::collection::vec(piece(12), 0..=4)),
                    // pattern: stretches of the text and fresh symbols
                    proptest::collection::vec(prop_oneof![2 => piece(4), 3 => (any::<u16>(), 2u8..=10).prop_map(|(s, l)| Piece::Copy(s, l))], 0..=4),
                    proptest::collection::vec(probe, 0..=3),
                    proptest::collection::vec(any::<u16>(), 12),
                )
            })
            .prop_map(|(alphabet, palette, q, max_count, min_count, (lead, mut tp), pp, probes, lead_syms)| {
                tp.insert(0, Piece::Rand(lead_syms[..lead].to_vec()));
                let text = assemble(&palette, &tp, None, 40);
                let pattern = assemble(&palette, &pp, Some(&text), 16);
                Case { alphabet: B(alphabet), q, max_count, min_count, text: B(text), pattern: B(pattern), probes }
            })
            .boxed()
    }

    /// every (text, pattern) over a three-letter alphabet (not a power of two) up to the stated lengths, q = 2
    pub fn enumerate(t: Tier) -> Box<dyn Iterator<Item = Case>> {
        let (tl, pl) = match t {
            Tier::Quick => (5usize, 4usize),
            Tier::Thorough => (7, 5),
        };
        fn all(sigma: u8, max_len: usize) -> Vec<Vec<u8>> {
            let mut out = vec![vec![]];
            let mut cur: Vec<Vec<u8>> = vec![vec![]];
            for _ in 0..max_len {
                let mut next = Vec::new();
                for s in &cur {
                    for c in 0..sigma {
                        let mut x = s.clone();
                        x.push(b'a' + c);
                        next.push(x);
                    }
                }
                out.extend(next.iter().cloned());
                cur = next;
            }
            out
        }
        let texts = std::sync::Arc::new(all(3, tl));
        let pats = all(3, pl);
        Box::new(pats.into_iter().flat_map(move |p| {
            let texts = texts.clone();
            (0..texts.len()).map(move |i| Case {
                alphabet: B(b"abc".to_vec()),
                q: 2,
                max_count: if i % 3 == 2 { Some(1) } else { None },
                min_count: 1 + i % 2,
                text: B(texts[i].clone()),
                pattern: B(p.clone()),
                probes: vec![],
            })
        }))
    }
}

// ===========================================================================
// sparse: k-mer matches, LCSk++, sdpkpp, union path, expansion

pub mod sparse {
    use super::*;
    use bio::alignment::sparse::{
        expand_kmer_matches, find_kmer_matches, find_kmer_matches_seq1_hashed, find_kmer_matches_seq2_hashed, hash_kmers, lcskpp, sdpkpp,
        sdpkpp_union_lcskpp_path,
    };

    #[derive(Serialize, Deserialize, Debug, Clone)]
    pub struct Case {
        pub s1: B,
        pub s2: B,
        pub k: usize,
        /// the match list handed to the chaining functions: strictly sorted pairs (position in s1, position in s2)
        pub matches: Vec<(u32, u32)>,
        pub match_score: u32,
        pub gap_open: i32,
        pub gap_extend: i32,
        pub allowed_mismatches: usize,
    }

    pub fn true_matches(s1: &[u8], s2: &[u8], k: usize) -> Vec<(u32, u32)> {
        let mut v = Vec::new();
        if k == 0 || s1.len() < k || s2.len() < k {
            return v;
        }
        for i in 0..=(s1.len() - k) {
            for j in 0..=(s2.len() - k) {
                if s1[i..i + k] == s2[j..j + k] {
                    v.push((i as u32, j as u32));
                }
            }
        }
        v
    }

    /// textbook LCSk++ recurrence over the (sorted) match list, O(n^2)
    pub fn lcskpp_optimum(m: &[(u32, u32)], k: u32) -> u32 {
        let mut best = vec![0u32; m.len()];
        let mut opt = 0;
        for i in 0..m.len() {
            let (x, y) = m[i];
            let mut b = k;
            for j in 0..i {
                let (px, py) = m[j];
                if px + k <= x && py + k <= y {
                    b = b.max(best[j] + k);
                }
                if px + 1 == x && py + 1 == y {
                    b = b.max(best[j] + 1);
                }
            }
            best[i] = b;
            opt = opt.max(b);
        }
        opt
    }

    pub struct Chain {
        pub score: u32,
        pub jumps: usize,
        pub continuations: usize,
    }

    /// validity of a chain by the rule of the property; its LCSk++ score
    pub fn chain(m: &[(u32, u32)], path: &[usize], k: u32, what: &str, ctx: &str) -> Result<Chain, Stop> {
        let mut ch = Chain { score: 0, jumps: 0, continuations: 0 };
        for (n, &ix) in path.iter().enumerate() {
            ensure!(ix < m.len(), "{}: {} path {:?} has index {} but there are {} matches", ctx, what, path, ix, m.len());
            if n == 0 {
                ch.score += k;
                continue;
            }
            let (px, py) = m[path[n - 1]];
            let (x, y) = m[ix];
            let cont = x == px + 1 && y == py + 1;
            let jump = x >= px + k && y >= py + k;
            ensure!(
                cont || jump,
                "{}: {} path {:?}: match {:?} after {:?} neither continues it diagonally by one nor starts >= k={} later in both sequences",
                ctx, what, path, (x, y), (px, py), k
            );
            if cont {
                ch.score += 1;
                ch.continuations += 1;
            } else {
                ch.score += k;
                ch.jumps += 1;
            }
        }
        Ok(ch)
    }

    fn check_chains(c: &Case, m: &[(u32, u32)], label: &str, pass: &mut Pass) -> Result<(), Stop> {
        let k = c.k as u32;
        let ctx = format!("s1 {:?} s2 {:?} k={} {} matches {:?}", c.s1, c.s2, c.k, label, m);
        // LCSk++: valid, reported score = score of the path = optimum
        let r = lcskpp(m, c.k);
        let ch = chain(m, &r.path, k, "lcskpp", &ctx)?;
        let opt = lcskpp_optimum(m, k);
        ensure!(
            r.score == ch.score || (m.is_empty() && r.score == 0),
            "{}: lcskpp reports score {} but its path {:?} scores {} (k per start, +1 per continuation)",
            ctx, r.score, r.path, ch.score
        );
        ensure!(r.score == opt, "{}: lcskpp score {} (path {:?}), optimum by the quadratic recurrence {}", ctx, r.score, r.path, opt);
        if m.is_empty() {
            ensure!(r.path.is_empty(), "{}: lcskpp path {:?} over an empty match list", ctx, r.path);
        }
        pass.add_if(ch.jumps >= 1 && ch.continuations >= 1 && k >= 2, "lcskpp chain with >=1 jump and >=1 continuation");
        pass.add_if(ch.jumps >= 2, "lcskpp chain with >=2 jumps");
        if ch.jumps >= 1 && ch.continuations >= 1 && k >= 2 {
            pass.nontrivial = true;
        }
        // gap-penalised chain and the union path: valid chains
        let s = sdpkpp(m, c.k, c.match_score, c.gap_open, c.gap_extend);
        let what = format!("sdpkpp(match_score={}, gap_open={}, gap_extend={})", c.match_score, c.gap_open, c.gap_extend);
        chain(m, &s.path, k, &what, &ctx)?;
        pass.add_if(s.path != r.path, "sdpkpp path differs from the lcskpp path");
        let u = sdpkpp_union_lcskpp_path(m, c.k, c.match_score, c.gap_open, c.gap_extend);
        let what = format!("sdpkpp_union_lcskpp_path(match_score={}, gap_open={}, gap_extend={})", c.match_score, c.gap_open, c.gap_extend);
        chain(m, &u, k, &what, &ctx)?;
        pass.add_if(u.len() > s.path.len(), "union path longer than the sdpkpp path");
        Ok(())
    }

    pub fn check(c: &Case) -> R {
        let (s1, s2): (&[u8], &[u8]) = (&c.s1, &c.s2);
        let k = c.k;
        ensure!(k >= 1, "harness: k=0");
        ensure!(c.matches.windows(2).all(|w| w[0] < w[1]), "harness: match list {:?} not strictly sorted", c.matches);
        ensure!(c.gap_open <= 0 && c.gap_extend <= 0 && c.match_score >= 1, "harness: scoring outside the documented domain");
        let mut pass = Pass::new(false);

        // ---- k-mer match finding
        let truth = true_matches(s1, s2, k);
        let ctx = format!("s1 {:?} s2 {:?} k={}", c.s1, c.s2, k);
        let got = find_kmer_matches(s1, s2, k);
        ensure!(got == truth, "{}: find_kmer_matches = {:?}, all equal k-mer pairs sorted = {:?}", ctx, got, truth);
        let h1 = hash_kmers(s1, k);
        let got = find_kmer_matches_seq1_hashed(&h1, s2, k);
        ensure!(got == truth, "{}: find_kmer_matches_seq1_hashed = {:?}, all equal k-mer pairs sorted = {:?}", ctx, got, truth);
        let h2 = hash_kmers(s2, k);
        let got = find_kmer_matches_seq2_hashed(s1, &h2, k);
        ensure!(got == truth, "{}: find_kmer_matches_seq2_hashed = {:?}, all equal k-mer pairs sorted = {:?}", ctx, got, truth);

        // ---- chaining over the given list
        let m = &c.matches;
        let truth_set: BTreeSet<(u32, u32)> = truth.iter().copied().collect();
        let all_exact = m.iter().all(|p| truth_set.contains(p));
        let in_range = m.iter().all(|&(x, y)| x as usize + k <= s1.len() && y as usize + k <= s2.len());
        check_chains(c, m, "given", &mut pass)?;

        // ---- expansion, and chaining over the expanded list
        if in_range {
            let e = expand_kmer_matches(s1, s2, k, m, c.allowed_mismatches);
            let ectx = format!("{} allowed_mismatches={} matches {:?}: expand_kmer_matches = {:?}", ctx, c.allowed_mismatches, m, e);
            ensure!(e.windows(2).all(|w| w[0] < w[1]), "{}: not strictly sorted", ectx);
            let eset: BTreeSet<(u32, u32)> = e.iter().copied().collect();
            ensure!(m.iter().all(|p| eset.contains(p)), "{}: an input match is missing", ectx);
            for &(x, y) in &e {
                ensure!(x as usize + k <= s1.len() && y as usize + k <= s2.len(), "{}: ({}, {}) does not leave room for a k-mer", ectx, x, y);
                if all_exact {
                    let mm = (0..k).filter(|&d| s1[x as usize + d] != s2[y as usize + d]).count();
                    ensure!(
                        mm <= c.allowed_mismatches,
                        "{}: k-mers at ({}, {}) differ in {} positions although all input matches are exact",
                        ectx, x, y, mm
                    );
                }
            }
            check_chains(c, &e, "expanded", &mut pass)?;
            pass.add_if(e.len() > m.len(), "expansion added matches");
            pass.add_if(e.len() > m.len() && c.allowed_mismatches >= 1 && !e.iter().all(|p| truth_set.contains(p)), "expansion added inexact matches");
            pass.add_if(c.allowed_mismatches == 0, "allowed_mismatches=0");
        }

        pass.add_if(m.is_empty(), "empty match list");
        pass.add_if(!m.is_empty() && *m == truth, "the true match list");
        pass.add_if(all_exact && m.len() < truth.len(), "proper subset of the true matches");
        pass.add_if(!all_exact && in_range, "arbitrary in-range pairs");
        pass.add_if(!in_range, "pairs outside the sequences (chaining only)");
        pass.add_if(k == 1, "k=1");
        pass.add_if(k > s1.len().min(s2.len()), "k longer than a sequence");
        pass.add_if(s1.is_empty() || s2.is_empty(), "empty sequence");
        pass.add_if(s1.len() < s2.len(), "s1 shorter (seq1 hashed)");
        pass.add_if(truth.len() >= 20, ">= 20 true matches");
        pass.add_if(c.gap_open == 0 && c.gap_extend == 0, "no gap penalty");
        Ok(pass)
    }

    #[derive(Debug, Clone)]
    enum Src {
        True,
        /// keep mask, cycled over the true list
        Subset(Vec<bool>),
        /// fractions mapped to in-range positions
        InRange(Vec<(u16, u16)>),
        /// arbitrary coordinates
        Free(Vec<(u8, u8)>),
    }

    pub fn strat(_t: Tier) -> BoxedStrategy<Case> {
        let seqs = (1u8..=4, 0usize..6).prop_flat_map(|(sigma, mode)| {
            let len = || prop_oneof![1 => 0usize..=3, 7 => 4usize..=30];
            let s1 = len().prop_flat_map(move |l| gen::seq(sigma, b'a', l));
            match mode {
                0 => (s1, len().prop_flat_map(move |l| gen::seq(sigma, b'a', l))).boxed(),
                _ => (s1, proptest::collection::vec(gen::edit(sigma, b'a'), 0..=4), any::<u16>(), any::<u16>(), gen::seq(sigma, b'a', 0..=5))
                    .prop_map(move |(s1, ed, a, b, flank)| {
                        // the other sequence = flank + an edited stretch of s1 (so that diagonals with
                        // continuations and jumps exist); which of the two is longer varies
                        let (mut i, mut j) = (idx(a, s1.len()), idx(b, s1.len()));
                        if i > j {
                            std::mem::swap(&mut i, &mut j);
                        }
                        if mode >= 4 {
                            i = 0;
                            j = s1.len();
                        }
                        let mut s2 = flank;
                        s2.extend(gen::apply_edits(&s1[i..j], &ed));
                        s2.truncate(30);
                        if mode % 2 == 0 {
                            (s2, s1)
                        } else {
                            (s1, s2)
                        }
                    })
                    .boxed(),
            }
        });
        let k = prop_oneof![2 => Just(1usize), 4 => Just(2usize), 4 => Just(3usize), 2 => Just(4usize), 1 => Just(5usize), 1 => 6usize..=8];
        let src = prop_oneof![
            4 => Just(Src::True),
            3 => proptest::collection::vec(any::<bool>(), 1..=40).prop_map(Src::Subset),
            2 => proptest::collection::vec((any::<u16>(), any::<u16>()), 0..=25).prop_map(Src::InRange),
            1 => proptest::collection::vec((0u8..=40, 0u8..=40), 0..=25).prop_map(Src::Free),
        ];
        (seqs, k, src, 1u32..=3, -4i32..=0, -2i32..=0, 0usize..=3)
            .prop_map(|((s1, s2), k, src, match_score, gap_open, gap_extend, allowed_mismatches)| {
                let truth = true_matches(&s1, &s2, k);
                let mut matches: Vec<(u32, u32)> = match src {
                    Src::True => truth,
                    Src::Subset(mask) => truth.into_iter().enumerate().filter(|(i, _)| mask[i % mask.len()]).map(|(_, p)| p).collect(),
                    Src::InRange(fr) => {
                        if s1.len() >= k && s2.len() >= k {
                            fr.iter().map(|&(a, b)| (idx(a, s1.len() - k) as u32, idx(b, s2.len() - k) as u32)).collect()
                        } else {
                            vec![]
                        }
                    }
                    Src::Free(v) => v.into_iter().map(|(a, b)| (a as u32, b as u32)).collect(),
                };
                matches.sort_unstable();
                matches.dedup();
                Case { s1: B(s1), s2: B(s2), k, matches, match_score, gap_open, gap_extend, allowed_mismatches }
            })
            .boxed()
    }
}

// ===========================================================================
// LARGE-SCALE sub-checks (C19/large-*): the same statements on inputs whose sizes cross the ladder
// 255/256/257 .. 2^20+1. Cases are small parameter records expanded deterministically (splitmix64).
// Oracles are near-linear: sort-grouping of q-grams / k-mers, dense per-diagonal arrays, an
// O(n log n) LCSk++ recurrence over a BTreeMap staircase (cross-checked against the quadratic
// recurrence of `sparse::lcskpp_optimum` whenever the list is short enough).

pub mod large {
    use super::*;
    use crate::oracles::scale::*;
    use crate::{c1920_bands, c1920_over};
    use bio::alphabets::{Alphabet, RankTransform};
    use std::collections::{HashMap, HashSet};

    pub fn add_band(pass: &mut Pass, labels: &[&'static str; 12], v: usize) {
        if let Some(b) = c1920_band(v) {
            pass.add(labels[b]);
        }
    }
    pub fn add_over(pass: &mut Pass, labels: &[&'static str; 4], v: usize) {
        for (i, t) in C1920_OVER.iter().enumerate() {
            if v > *t {
                pass.add(labels[i]);
            }
        }
    }

    /// alphabet of `sigma` distinct bytes: with stride 0 the letters a, b, .. (sigma <= 26) or the bytes
    /// 0, 1, .. ; otherwise off + j*stride (stride odd, so the bytes are distinct and not in rank order)
    #[derive(Serialize, Deserialize, Debug, Clone)]
    pub struct Alpha {
        pub sigma: usize,
        pub off: u8,
        pub stride: u8,
    }

    impl Alpha {
        pub fn sorted(&self) -> Result<Vec<u8>, Stop> {
            ensure!(self.sigma >= 1 && self.sigma <= 256, "harness: alphabet size {}", self.sigma);
            ensure!(self.stride == 0 || self.stride % 2 == 1, "harness: even stride");
            let mut v: Vec<u8> = if self.stride == 0 {
                let base = if self.sigma <= 26 { b'a' } else { 0 };
                (0..self.sigma).map(|j| base.wrapping_add(j as u8)).collect()
            } else {
                (0..self.sigma).map(|j| self.off.wrapping_add((j as u8).wrapping_mul(self.stride))).collect()
            };
            v.sort_unstable();
            v.dedup();
            ensure!(v.len() == self.sigma, "harness: alphabet bytes not distinct");
            Ok(v)
        }
    }

    /// `pal` ranks spread over 0..sigma starting at `lo`
    fn palette(sorted: &[u8], pal: usize, lo: usize) -> Vec<u8> {
        let sigma = sorted.len();
        let lo = lo.min(sigma - 1);
        let avail = sigma - lo;
        let pal = pal.clamp(1, avail);
        if pal == 1 {
            return vec![sorted[lo + avail / 2]];
        }
        (0..pal).map(|j| sorted[lo + j * (avail - 1) / (pal - 1)]).collect()
    }

    #[derive(Serialize, Deserialize, Debug, Clone)]
    pub enum Base {
        /// uniform over `pal` symbols spread over the ranks lo..sigma
        Random { pal: usize, lo: usize },
        /// a random unit of `period` symbols (over `pal` symbols) repeated: short tandem repeat
        Periodic { period: usize, pal: usize },
        /// ranks 0,1,..,sigma-1,0,1,..
        Ascending,
        /// ranks sigma-1,..,0,sigma-1,..
        Descending,
        Homopolymer { rank: usize },
    }

    #[derive(Serialize, Deserialize, Debug, Clone)]
    pub enum Overlay {
        /// a run of one symbol written over the text
        Run { at: usize, len: usize, rank: usize },
        /// text[from..from+len] copied over text[to..to+len]
        Copy { from: usize, to: usize, len: usize },
    }

    #[derive(Serialize, Deserialize, Debug, Clone)]
    pub struct TextSpec {
        pub n: usize,
        pub base: Base,
        pub overlays: Vec<Overlay>,
        pub seed: u64,
    }

    impl TextSpec {
        pub fn build(&self, sorted: &[u8]) -> Vec<u8> {
            let sigma = sorted.len();
            let n = self.n;
            let mut rng = C1920Rng::new(self.seed);
            let mut t: Vec<u8> = match &self.base {
                Base::Random { pal, lo } => rng.fill(&palette(sorted, *pal, *lo), n),
                Base::Periodic { period, pal } => {
                    let unit = rng.fill(&palette(sorted, *pal, 0), (*period).max(1));
                    (0..n).map(|i| unit[i % unit.len()]).collect()
                }
                Base::Ascending => (0..n).map(|i| sorted[i % sigma]).collect(),
                Base::Descending => (0..n).map(|i| sorted[sigma - 1 - i % sigma]).collect(),
                Base::Homopolymer { rank } => vec![sorted[rank % sigma]; n],
            };
            for o in &self.overlays {
                match *o {
                    Overlay::Run { at, len, rank } => {
                        let at = at.min(n);
                        let len = len.min(n - at);
                        for x in &mut t[at..at + len] {
                            *x = sorted[rank % sigma];
                        }
                    }
                    Overlay::Copy { from, to, len } => {
                        let from = from.min(n);
                        let to = to.min(n);
                        let len = len.min(n - from).min(n - to);
                        let seg = t[from..from + len].to_vec();
                        t[to..to + len].copy_from_slice(&seg);
                    }
                }
            }
            t
        }
    }

    // -----------------------------------------------------------------------
    // C19/large-codes: RankTransform::qgrams / rev_qgrams on long texts

    pub mod codes {
        use super::*;

        #[derive(Serialize, Deserialize, Debug, Clone)]
        pub struct Case {
            pub alpha: Alpha,
            pub q: u32,
            pub text: TextSpec,
        }

        pub fn check(c: &Case) -> R {
            let sorted = c.alpha.sorted()?;
            let sigma = sorted.len();
            let bits = bits_for(sigma);
            let q = c.q as usize;
            ensure!(q >= 1 && bits * c.q <= usize::BITS, "harness: q={} with {} bits per symbol exceeds the word", q, bits);
            let text = c.text.build(&sorted);
            let n = text.len();
            let alphabet = Alphabet::new(&sorted);
            ensure!(alphabet.len() == sigma, "harness: Alphabet::new kept {} of {} symbols", alphabet.len(), sigma);
            let ranks = RankTransform::new(&alphabet);
            let count = (n + 1).saturating_sub(q);
            let fwd: Vec<usize> = ranks.qgrams(c.q, &text).take(n + 2).collect();
            ensure!(fwd.len() == count, "|A|={} q={} text of length {}: qgrams() yields {} codes, the text has {} q-grams", sigma, q, n, fwd.len(), count);
            // an injective encoding of our own: base-|A| numbers of the ranks (|A|^q <= 2^(q*bits) <= 2^64)
            let mut rank_of = [0u64; 256];
            for (r, &b) in sorted.iter().enumerate() {
                rank_of[b as usize] = r as u64;
            }
            let top: u128 = (sigma as u128).pow(c.q - 1);
            let mut own: Vec<u64> = Vec::with_capacity(count);
            let mut cur: u128 = 0;
            for (i, &b) in text.iter().enumerate() {
                cur = (cur % top) * sigma as u128 + rank_of[b as usize] as u128;
                if i + 1 >= q {
                    own.push(cur as u64);
                }
            }
            // equal code <=> equal q-gram
            let mut lib2own: HashMap<usize, (u64, usize)> = HashMap::new();
            let mut own2lib: HashMap<u64, (usize, usize)> = HashMap::new();
            for i in 0..count {
                let e = lib2own.entry(fwd[i]).or_insert((own[i], i));
                ensure!(
                    e.0 == own[i],
                    "|A|={} q={} text of length {} ({:?}): the different q-grams at positions {} ({:?}) and {} ({:?}) share the code {}",
                    sigma, q, n, c.text, e.1, B(text[e.1..e.1 + q].to_vec()), i, B(text[i..i + q].to_vec()), fwd[i]
                );
                let e = own2lib.entry(own[i]).or_insert((fwd[i], i));
                ensure!(
                    e.0 == fwd[i],
                    "|A|={} q={} text of length {} ({:?}): the q-gram {:?} got code {} at position {} and code {} at position {}",
                    sigma, q, n, c.text, B(text[i..i + q].to_vec()), e.0, e.1, fwd[i], i
                );
            }
            // a q-gram taken alone gets the same code as inside the text (sampled positions)
            let mut rng = C1920Rng::new(c.text.seed ^ 0xc0de);
            for i in c1920_sample_positions(count, 24, &mut rng) {
                let alone: Vec<usize> = ranks.qgrams(c.q, &text[i..i + q]).take(3).collect();
                ensure!(alone == vec![fwd[i]], "|A|={} q={}: q-gram {:?} alone has code(s) {:?}, at position {} of the text ({:?}) code {}", sigma, q, B(text[i..i + q].to_vec()), alone, i, c.text, fwd[i]);
            }
            let rev: Vec<usize> = ranks.rev_qgrams(c.q, &text).take(n + 2).collect();
            ensure!(rev.len() == count, "|A|={} q={} text of length {}: rev_qgrams() yields {} codes, qgrams() {}", sigma, q, n, rev.len(), count);
            if let Some(i) = (0..count).find(|&i| rev[count - 1 - i] != fwd[i]) {
                crate::fail!("|A|={} q={} text of length {} ({:?}): rev_qgrams() reversed differs from qgrams() at q-gram {}: {} vs {}", sigma, q, n, c.text, i, rev[count - 1 - i], fwd[i]);
            }
            let distinct = own2lib.len();
            let mut pass = Pass::new(distinct >= 2 && n >= 255);
            add_band(&mut pass, &c1920_bands!("text length"), n);
            add_over(&mut pass, &c1920_over!("distinct q-grams"), distinct);
            pass.add_if(bits * c.q == 64, "q*bits = 64");
            pass.add_if(bits * c.q == 32, "q*bits = 32");
            pass.add_if(bits * c.q == 16, "q*bits = 16");
            pass.add_if(bits * c.q > 32 && bits * c.q < 64, "q*bits in 33..63");
            pass.add_if(sigma == 256, "|A|=256");
            pass.add_if(sigma == 1, "|A|=1");
            pass.add_if(!sigma.is_power_of_two(), "|A| not a power of two");
            pass.add_if(matches!(c.text.base, Base::Homopolymer { .. }), "homopolymer");
            pass.add_if(matches!(c.text.base, Base::Periodic { .. }), "tandem repeat");
            pass.add_if(matches!(c.text.base, Base::Ascending | Base::Descending), "ascending/descending cycle");
            Ok(pass)
        }

        pub fn cases(t: Tier, seed: u64) -> Vec<Case> {
            let mut out = Vec::new();
            let reps = if t == Tier::Quick { 1 } else { 6 };
            for rep in 0..reps {
                for (li, &v) in c1920_ladder().iter().enumerate() {
                    let mut rng = C1920Rng::new(seed ^ ((rep as u64) << 32) ^ (li as u64 * 0x9e37) ^ 0xc19c0de5);
                    // (sigma, q): word-filling, 32-bit, 16-bit and odd combinations
                    let combos: [(usize, u32); 12] = [(2, 64), (4, 32), (16, 16), (256, 8), (3, 32), (37, 10), (5, 21), (256, 4), (4, 8), (2, 16), (1, 70), (200, 2)];
                    let (sigma, q) = combos[(li + rep * 5) % combos.len()];
                    let base = match (li + rep) % 5 {
                        0 => Base::Random { pal: sigma, lo: 0 },
                        1 => Base::Periodic { period: 2 + rng.below(9), pal: sigma.min(4) },
                        2 => Base::Ascending,
                        3 => Base::Homopolymer { rank: rng.below(sigma) },
                        _ => Base::Random { pal: 2, lo: 0 },
                    };
                    let alpha = if sigma == 256 || rng.below(3) == 0 { Alpha { sigma, off: 0, stride: 0 } } else { Alpha { sigma, off: rng.next() as u8, stride: (rng.below(128) * 2 + 1) as u8 } };
                    out.push(Case { alpha, q, text: TextSpec { n: v, base, overlays: vec![], seed: rng.next() } });
                }
            }
            out
        }
    }

    // -----------------------------------------------------------------------
    // C19/large-index: QGramIndex on long texts, long patterns, dense hits

    pub mod index {
        use super::*;
        use bio::data_structures::qgram_index::QGramIndex;

        #[derive(Serialize, Deserialize, Debug, Clone)]
        pub enum PatBase {
            /// text[at..at+len]
            FromText { at: usize, len: usize },
            Random { len: usize, pal: usize },
            Homopolymer { len: usize, rank: usize },
        }

        #[derive(Serialize, Deserialize, Debug, Clone)]
        pub struct PatSpec {
            pub base: PatBase,
            /// every `subs_every`-th symbol is replaced by the next symbol of the alphabet (0 = never)
            pub subs_every: usize,
            pub seed: u64,
        }

        impl PatSpec {
            pub fn build(&self, sorted: &[u8], text: &[u8]) -> Vec<u8> {
                let sigma = sorted.len();
                let mut rng = C1920Rng::new(self.seed);
                let mut p: Vec<u8> = match self.base {
                    PatBase::FromText { at, len } => {
                        let at = at.min(text.len());
                        let len = len.min(text.len() - at);
                        text[at..at + len].to_vec()
                    }
                    PatBase::Random { len, pal } => rng.fill(&palette(sorted, pal, 0), len),
                    PatBase::Homopolymer { len, rank } => vec![sorted[rank % sigma]; len],
                };
                if self.subs_every > 0 {
                    let mut j = self.subs_every - 1;
                    while j < p.len() {
                        let r = sorted.binary_search(&p[j]).unwrap();
                        p[j] = sorted[(r + 1) % sigma];
                        j += self.subs_every;
                    }
                }
                p
            }
        }

        #[derive(Serialize, Deserialize, Debug, Clone, PartialEq)]
        pub enum Bound {
            /// max_count only: no limit (QGramIndex::new)
            None,
            Abs(usize),
            /// the largest value present (occurrences of one q-gram in the text / unmasked hits on one
            /// diagonal) - 1 + d
            NearTop(usize),
        }

        #[derive(Serialize, Deserialize, Debug, Clone)]
        pub struct Case {
            pub alpha: Alpha,
            pub q: u32,
            pub text: TextSpec,
            pub pattern: PatSpec,
            pub max_count: Bound,
            pub min_count: Bound,
            /// build the index from `text.iter()` instead of the slice
            pub via_iter: bool,
            /// additionally send the index through serde (JSON) and query the restored copy
            pub serde: bool,
        }

        /// (pattern.start, pattern.stop, text.start, text.stop)
        type Iv = (usize, usize, usize, usize);

        const HIT_CAP: u64 = 8_000_000;

        fn diff<T: std::fmt::Debug + PartialEq>(got: &[T], want: &[T]) -> String {
            let i = (0..got.len().min(want.len())).find(|&i| got[i] != want[i]).unwrap_or(got.len().min(want.len()));
            format!(
                "{} entries returned, {} expected; first difference at sorted rank {}: returned {:?}, expected {:?}",
                got.len(), want.len(), i, got.get(i), want.get(i)
            )
        }

        pub fn check(c: &Case) -> R {
            let sorted = c.alpha.sorted()?;
            let sigma = sorted.len();
            let bits = bits_for(sigma);
            let q = c.q as usize;
            ensure!(q >= 1 && bits * c.q <= 24, "harness: q={} with {} bits per symbol: table too large for this sub-check", q, bits);
            ensure!(c.min_count != Bound::None && c.min_count != Bound::Abs(0), "harness: min_count must be >= 1");
            let text = c.text.build(&sorted);
            let pattern = c.pattern.build(&sorted, &text);
            let (n, m) = (text.len(), pattern.len());
            ensure!(n + m < (1 << 28), "harness: sizes");
            let alphabet = Alphabet::new(&sorted);
            let ranks = RankTransform::new(&alphabet);
            let mut rank_of = [0u64; 256];
            for (r, &b) in sorted.iter().enumerate() {
                rank_of[b as usize] = r as u64;
            }
            let top = (sigma as u64).pow(c.q - 1);
            let own_codes = |s: &[u8]| -> Vec<u64> {
                let mut v = Vec::with_capacity((s.len() + 1).saturating_sub(q));
                let mut cur = 0u64;
                for (i, &b) in s.iter().enumerate() {
                    cur = (cur % top) * sigma as u64 + rank_of[b as usize];
                    if i + 1 >= q {
                        v.push(cur);
                    }
                }
                v
            };
            let ctx = format!("|A|={} q={} text {:?} (length {}) pattern {:?} (length {}) max_count {:?} min_count {:?}", sigma, q, c.text, n, c.pattern, m, c.max_count, c.min_count);

            // ---- our own position lists: q-gram positions sorted by (q-gram, position)
            let tcodes = own_codes(&text);
            let cnt = tcodes.len();
            let mut order: Vec<u32> = (0..cnt as u32).collect();
            order.sort_unstable_by_key(|&i| (tcodes[i as usize], i));
            let mut gkey: Vec<u64> = Vec::new();
            let mut gstart: Vec<u32> = Vec::new();
            for (r, &i) in order.iter().enumerate() {
                if r == 0 || tcodes[i as usize] != tcodes[order[r - 1] as usize] {
                    gkey.push(tcodes[i as usize]);
                    gstart.push(r as u32);
                }
            }
            gstart.push(cnt as u32);
            let groups = gkey.len();
            let top_occ = (0..groups).map(|g| (gstart[g + 1] - gstart[g]) as usize).max().unwrap_or(0);
            let max_count = match c.max_count {
                Bound::None => usize::MAX,
                Bound::Abs(v) => v,
                Bound::NearTop(d) => (top_occ + d).saturating_sub(1),
            };
            fn lookup<'a>(gkey: &[u64], gstart: &[u32], order: &'a [u32], code: u64) -> &'a [u32] {
                match gkey.binary_search(&code) {
                    Ok(g) => &order[gstart[g] as usize..gstart[g + 1] as usize],
                    Err(_) => &[],
                }
            }
            let positions = |code: u64| lookup(&gkey, &gstart, &order, code);

            // ---- the hits the pattern will produce; refuse (as a skipped case) what would be too expensive
            let pcodes = own_codes(&pattern);
            let mut total_hits: u64 = 0;
            for &pc in &pcodes {
                let occ = positions(pc).len();
                if occ <= max_count {
                    total_hits += occ as u64;
                }
            }
            if total_hits > HIT_CAP {
                return Ok(Pass::new(false).class("skipped: more hits than the budget of this sub-check"));
            }

            // ---- build
            let index = match (&c.max_count, c.via_iter) {
                (Bound::None, false) => QGramIndex::new(c.q, &text[..], &alphabet),
                (Bound::None, true) => QGramIndex::new(c.q, text.iter(), &alphabet),
                (_, false) => QGramIndex::with_max_count(c.q, &text[..], &alphabet, max_count),
                (_, true) => QGramIndex::with_max_count(c.q, text.iter(), &alphabet, max_count),
            };
            ensure!(index.q() == c.q, "q() = {} for an index built with q = {}", index.q(), c.q);
            let restored: Option<QGramIndex> = if c.serde {
                let js = serde_json::to_string(&index).map_err(|e| Stop::Fail(format!("{}: the index does not serialise: {}", ctx, e)))?;
                let back: QGramIndex = serde_json::from_str(&js).map_err(|e| Stop::Fail(format!("{}: the serialised index does not deserialise: {}", ctx, e)))?;
                Some(back)
            } else {
                None
            };

            // ---- qgram_matches for every q-gram of the text
            let lib_codes: Vec<usize> = ranks.qgrams(c.q, &text).take(n + 2).collect();
            ensure!(lib_codes.len() == cnt, "{}: qgrams() yields {} codes for {} q-grams", ctx, lib_codes.len(), cnt);
            let mut seen_lib: HashSet<usize> = HashSet::with_capacity(groups);
            let mut exceeded = false;
            for g in 0..groups {
                let pos = &order[gstart[g] as usize..gstart[g + 1] as usize];
                let lib = lib_codes[pos[0] as usize];
                if let Some(&j) = pos.iter().find(|&&j| lib_codes[j as usize] != lib) {
                    crate::fail!("{}: the q-gram {:?} has code {} at position {} and code {} at position {}", ctx, B(text[j as usize..j as usize + q].to_vec()), lib, pos[0], lib_codes[j as usize], j);
                }
                ensure!(seen_lib.insert(lib), "{}: the q-gram {:?} (position {}) shares its code {} with a different q-gram", ctx, B(text[pos[0] as usize..pos[0] as usize + q].to_vec()), pos[0], lib);
                let masked = pos.len() > max_count;
                exceeded |= masked;
                for ix in std::iter::once(&index).chain(restored.iter()) {
                    let got = ix.qgram_matches(lib);
                    let ok = if masked { got.is_empty() } else { got.len() == pos.len() && got.iter().zip(pos).all(|(a, b)| *a == *b as usize) };
                    if !ok {
                        let j = got.iter().zip(pos).position(|(a, b)| *a != *b as usize).unwrap_or(got.len().min(pos.len()));
                        crate::fail!(
                            "{}: qgram_matches(code {} of {:?}){} has {} entries, the q-gram occurs {} times in the text (effective max_count {}); first difference at entry {}: {:?} vs position {:?}",
                            ctx, lib, B(text[pos[0] as usize..pos[0] as usize + q].to_vec()), if std::ptr::eq(ix, &index) { "" } else { " on the index restored through serde" },
                            got.len(), pos.len(), max_count, j, got.get(j), pos.get(j)
                        );
                    }
                }
            }
            // ---- and for random q-grams (mostly absent from the text when the code space is large)
            let mut rng = C1920Rng::new(c.text.seed ^ c.pattern.seed ^ 0x9b0be);
            let mut absent_probe = false;
            for _ in 0..200 {
                let g = rng.fill(&sorted, q);
                let lib: Vec<usize> = ranks.qgrams(c.q, &g).take(3).collect();
                ensure!(lib.len() == 1, "{}: qgrams() of the single q-gram {:?} yields {:?}", ctx, B(g.clone()), lib);
                let pos = positions(own_codes(&g)[0]);
                absent_probe |= pos.is_empty();
                let masked = pos.len() > max_count;
                let got = index.qgram_matches(lib[0]);
                let ok = if masked { got.is_empty() } else { got.len() == pos.len() && got.iter().zip(pos).all(|(a, b)| *a == *b as usize) };
                ensure!(ok, "{}: qgram_matches(code {} of the probe {:?}) has {} entries {:?}.., the q-gram occurs {} times in the text (effective max_count {})", ctx, lib[0], B(g.clone()), got.len(), &got[..got.len().min(4)], pos.len(), max_count);
            }

            // ---- per diagonal: first / last hit, number of hits, maximal runs of consecutive hits
            let nd = n + m + 1;
            let mut first_i = vec![u32::MAX; nd];
            let mut last_i = vec![0u32; nd];
            let mut count = vec![0u32; nd];
            let mut run_start = vec![0u32; nd];
            let mut touched: Vec<u32> = Vec::new();
            let mut want_e: Vec<Iv> = Vec::new();
            let emit = |want_e: &mut Vec<Iv>, d: usize, st: u32, en: u32| {
                // diagonal index d = p + m - i
                let (st, en) = (st as usize, en as usize + q);
                want_e.push((st, en, st + d - m, en + d - m));
            };
            let mut below = false;
            for (i, &pc) in pcodes.iter().enumerate() {
                let pos = positions(pc);
                if pos.len() > max_count {
                    continue;
                }
                for &p in pos {
                    let d = p as usize + m - i;
                    below |= (p as usize) < i;
                    if first_i[d] == u32::MAX {
                        first_i[d] = i as u32;
                        run_start[d] = i as u32;
                        touched.push(d as u32);
                    } else if last_i[d] + 1 != i as u32 {
                        emit(&mut want_e, d, run_start[d], last_i[d]);
                        run_start[d] = i as u32;
                    }
                    last_i[d] = i as u32;
                    count[d] += 1;
                }
            }
            let mut split_run = false;
            let before = want_e.len();
            for &d in &touched {
                emit(&mut want_e, d as usize, run_start[d as usize], last_i[d as usize]);
            }
            split_run |= before > 0;
            let top_diag = touched.iter().map(|&d| count[d as usize] as usize).max().unwrap_or(0);
            let min_count = match c.min_count {
                Bound::None => 1,
                Bound::Abs(v) => v,
                Bound::NearTop(d) => (top_diag + d).saturating_sub(1).max(1),
            };
            let mut want_m: Vec<(Iv, usize)> = Vec::new();
            let mut filtered = false;
            let mut gap_diag = false;
            for &d in &touched {
                let d = d as usize;
                let (fi, li, ct) = (first_i[d] as usize, last_i[d] as usize, count[d] as usize);
                gap_diag |= ct < li - fi + 1;
                if ct >= min_count {
                    want_m.push(((fi, li + q, fi + d - m, li + d - m + q), ct));
                } else {
                    filtered = true;
                }
            }
            want_m.sort_unstable();
            want_e.sort_unstable();

            // ---- cross-check of the run oracle against a direct scan of the two sequences (small products only)
            if c.max_count == Bound::None && (n as u64) * (m as u64) <= 1 << 22 {
                let mut direct: Vec<Iv> = Vec::new();
                let (mi, ti) = (m as i64, n as i64);
                for d in -(mi - 1).max(0)..ti.max(1) {
                    let mut i = (-d).max(0);
                    while i < mi && i + d < ti {
                        if pattern[i as usize] != text[(i + d) as usize] {
                            i += 1;
                            continue;
                        }
                        let st = i;
                        while i < mi && i + d < ti && pattern[i as usize] == text[(i + d) as usize] {
                            i += 1;
                        }
                        if (i - st) as usize >= q {
                            direct.push((st as usize, i as usize, (st + d) as usize, (i + d) as usize));
                        }
                    }
                }
                direct.sort_unstable();
                ensure!(direct == want_e, "harness: the run oracle and the direct scan disagree for {}: {}", ctx, diff(&want_e, &direct));
            }

            // ---- matches / exact_matches of the library
            for ix in std::iter::once(&index).chain(restored.iter()) {
                let tag = if std::ptr::eq(ix, &index) { "" } else { " (index restored through serde)" };
                let mut got_m: Vec<(Iv, usize)> = ix.matches(&pattern, min_count).iter().map(|x| ((x.pattern.start, x.pattern.stop, x.text.start, x.text.stop), x.count)).collect();
                got_m.sort_unstable();
                ensure!(
                    got_m == want_m,
                    "{}: matches(pattern, {}){} as ((pattern.start, pattern.stop, text.start, text.stop), count): {} (expected: per diagonal with >= min_count hits the span from the first to the last hit and the number of hits; {} hits on {} diagonals)",
                    ctx, min_count, tag, diff(&got_m, &want_m), total_hits, touched.len()
                );
                let em = ix.exact_matches(&pattern);
                let mut got_e: Vec<Iv> = em.iter().map(|x| (x.pattern.start, x.pattern.stop, x.text.start, x.text.stop)).collect();
                got_e.sort_unstable();
                ensure!(
                    got_e == want_e,
                    "{}: exact_matches(pattern){} as (pattern.start, pattern.stop, text.start, text.stop): {} (expected: the maximal runs of consecutive unmasked q-gram hits on each diagonal, i.e. the maximal exact matches of length >= q)",
                    ctx, tag, diff(&got_e, &want_e)
                );
                for x in em.iter().take(40) {
                    ensure!(x.pattern.get(&pattern) == x.text.get(&text), "{}: exact match {:?}{}: Interval::get on pattern and text give different strings", ctx, x, tag);
                }
            }

            let longest = want_e.iter().map(|e| e.1 - e.0).max().unwrap_or(0);
            let mut pass = Pass::new(total_hits > 0 && (n > 255 || m > 255));
            add_band(&mut pass, &c1920_bands!("text length"), n);
            add_band(&mut pass, &c1920_bands!("pattern length"), m);
            add_band(&mut pass, &c1920_bands!("occurrences of one q-gram"), top_occ);
            add_band(&mut pass, &c1920_bands!("longest exact match"), longest);
            add_band(&mut pass, &c1920_bands!("hits on one diagonal"), top_diag);
            if max_count != usize::MAX {
                add_band(&mut pass, &c1920_bands!("max_count"), max_count);
                pass.add_if(top_occ == max_count + 1, "max_count = top occurrences - 1 (just masked)");
                pass.add_if(top_occ == max_count, "max_count = top occurrences (just kept)");
            }
            add_band(&mut pass, &c1920_bands!("min_count"), min_count);
            pass.add_if(min_count > 1 && top_diag == min_count, "min_count = top diagonal count (just kept)");
            pass.add_if(min_count > 1 && top_diag + 1 == min_count, "min_count = top diagonal count + 1 (just filtered)");
            add_over(&mut pass, &c1920_over!("distinct diagonals with hits"), touched.len());
            add_over(&mut pass, &c1920_over!("hits"), total_hits as usize);
            add_over(&mut pass, &c1920_over!("occurrences of one q-gram"), top_occ);
            add_over(&mut pass, &c1920_over!("exact matches returned"), want_e.len());
            add_over(&mut pass, &c1920_over!("distinct q-grams in the text"), groups);
            for o in &c.text.overlays {
                if let Overlay::Copy { from, to, len } = *o {
                    if len >= q && to > from {
                        add_band(&mut pass, &c1920_bands!("distance between two hit diagonals"), to - from);
                    }
                }
            }
            pass.add_if(bits * c.q == 16, "q*bits = 16");
            pass.add_if(bits * c.q > 16 && bits * c.q <= 20, "q*bits in 17..20");
            pass.add_if(bits * c.q > 20, "q*bits in 21..24");
            pass.add_if(!sigma.is_power_of_two() && q >= 2, "|A| not a power of two, q>=2");
            pass.add_if(sigma == 256, "|A|=256");
            pass.add_if(sigma == 1, "|A|=1");
            pass.add_if(exceeded, "max_count exceeded");
            pass.add_if(below, "diagonal with text pos < pattern pos");
            pass.add_if(split_run, "two exact matches on one diagonal");
            pass.add_if(gap_diag, "matches: diagonal with a gap between hits");
            pass.add_if(filtered, "min_count filters a diagonal");
            pass.add_if(absent_probe, "probe of a q-gram that is absent from the text");
            pass.add_if(c.via_iter, "index built from an iterator");
            pass.add_if(c.serde, "index restored through serde");
            pass.add_if(matches!(c.text.base, Base::Homopolymer { .. }), "homopolymer text");
            pass.add_if(matches!(c.text.base, Base::Periodic { .. }), "tandem-repeat text");
            pass.add_if(matches!(c.text.base, Base::Ascending | Base::Descending), "ascending/descending text");
            Ok(pass)
        }

        /// rough cost for balancing the shards: text length, pattern length (hits grow with it), dense texts
        pub fn cost(c: &Case) -> u64 {
            let m = match c.pattern.base {
                PatBase::FromText { len, .. } | PatBase::Random { len, .. } | PatBase::Homopolymer { len, .. } => len,
            } as u64;
            let dense = if bits_for(c.alpha.sigma) * c.q <= 6 || !matches!(c.text.base, Base::Random { .. }) { 3 } else { 1 };
            c.text.n as u64 * dense + 6 * m.min(c.text.n as u64) + 2000
        }

        struct Mk {
            rng: C1920Rng,
        }

        impl Mk {
            fn alpha(&mut self, sigma: usize) -> Alpha {
                if sigma == 256 || self.rng.below(3) == 0 {
                    Alpha { sigma, off: 0, stride: 0 }
                } else {
                    Alpha { sigma, off: self.rng.next() as u8, stride: (self.rng.below(128) * 2 + 1) as u8 }
                }
            }
            fn seed(&mut self) -> u64 {
                self.rng.next() >> 11
            }
        }

        pub fn cases(t: Tier, seed: u64) -> Vec<Case> {
            let mut out: Vec<Case> = Vec::new();
            let reps = if t == Tier::Quick { 1 } else { 5 };
            let ladder = c1920_ladder();
            for rep in 0..reps {
                for (li, &v) in ladder.iter().enumerate() {
                    let mut k = Mk { rng: C1920Rng::new(seed ^ ((rep as u64) << 40) ^ ((li as u64) << 20) ^ 0x1dec5) };
                    let big = v > 140_000;
                    // the heavy scenarios (million-symbol patterns, millions of hits) run for every ladder value up to
                    // 131073; in the quick tier the bands 2^19 and 2^20 get one value above the power of two each
                    let heavy_ok = !big || t == Tier::Thorough || v == (1 << 19) + 1 || v == (1 << 20) + 1;
                    // patterns of 2^20 symbols (millions of hits through the library's hash map) cost several seconds
                    // each: thorough tier only
                    let long_pattern_ok = !big || t == Tier::Thorough || v == (1 << 19) + 1;
                    let flip = |k: &mut Mk| k.rng.below(2) == 0;

                    // (1) text length = v, dense: few symbols and q in 1..=2, so that (nearly) every diagonal is hit
                    if !big {
                        let sigma = 2 + k.rng.below(3);
                        let q = 1 + k.rng.below(2) as u32;
                        let len = 16 + k.rng.below(24);
                        out.push(Case {
                            alpha: k.alpha(sigma),
                            q,
                            text: TextSpec { n: v, base: Base::Random { pal: sigma, lo: 0 }, overlays: vec![], seed: k.seed() },
                            pattern: PatSpec { base: PatBase::FromText { at: k.rng.below(v), len }, subs_every: [0, 5, 9][k.rng.below(3)], seed: k.seed() },
                            max_count: Bound::None,
                            min_count: Bound::Abs(1 + k.rng.below(3)),
                            via_iter: flip(&mut k),
                            serde: v <= 70_000 && flip(&mut k),
                        });
                    }
                    // (2) text length = v over a 16..20-bit code space, pattern of ~300 symbols cut from the text,
                    //     with a second copy of that stretch planted 2^j further right
                    {
                        let (sigma, q) = [(4usize, 8u32), (16, 4), (4, 10), (37, 3), (256, 2), (5, 6)][k.rng.below(6)];
                        let plen = 300.min(v / 2);
                        let at = k.rng.below(v - plen + 1);
                        out.push(Case {
                            alpha: k.alpha(sigma),
                            q,
                            text: TextSpec { n: v, base: Base::Random { pal: sigma, lo: 0 }, overlays: vec![], seed: k.seed() },
                            pattern: PatSpec { base: PatBase::FromText { at, len: plen }, subs_every: [0, 0, 40, 101][k.rng.below(4)], seed: k.seed() },
                            max_count: if flip(&mut k) { Bound::None } else { Bound::NearTop(k.rng.below(3)) },
                            min_count: Bound::NearTop(k.rng.below(3)),
                            via_iter: flip(&mut k),
                            serde: false,
                        });
                    }
                    // (3) pattern length = longest exact match = v (pattern cut from the text), and the same with
                    //     a substitution every ~1000 symbols (many exact matches on one diagonal, gaps between hits)
                    for subs in [0usize, 997 + k.rng.below(10)] {
                        if !long_pattern_ok || (big && t == Tier::Quick && subs != 0) {
                            continue;
                        }
                        let (sigma, q) = if v > 70_000 { [(16usize, 5u32), (4, 10), (32, 4)][k.rng.below(3)] } else { [(16usize, 4u32), (4, 8), (256, 2), (37, 3)][k.rng.below(4)] };
                        let n = v + 700 + v / 3;
                        out.push(Case {
                            alpha: k.alpha(sigma),
                            q,
                            text: TextSpec { n, base: Base::Random { pal: sigma, lo: 0 }, overlays: vec![], seed: k.seed() },
                            pattern: PatSpec { base: PatBase::FromText { at: k.rng.below(n - v + 1), len: v }, subs_every: subs, seed: k.seed() },
                            max_count: Bound::None,
                            min_count: Bound::NearTop(k.rng.below(3)),
                            via_iter: false,
                            serde: false,
                        });
                    }
                    // (4) hits on one diagonal = min_count = v exactly (pattern of v+q-1 symbols cut from the text),
                    //     and one fewer (the diagonal must disappear)
                    for short in [0usize, 1] {
                        if !long_pattern_ok {
                            continue;
                        }
                        let (sigma, q) = if v > 70_000 { (16usize, 5u32) } else { (16usize, 4u32) };
                        let plen = v + q as usize - 1 - short;
                        let n = plen + 900 + v / 4;
                        out.push(Case {
                            alpha: k.alpha(sigma),
                            q,
                            text: TextSpec { n, base: Base::Random { pal: sigma, lo: 0 }, overlays: vec![], seed: k.seed() },
                            pattern: PatSpec { base: PatBase::FromText { at: k.rng.below(n - plen + 1), len: plen }, subs_every: 0, seed: k.seed() },
                            max_count: Bound::None,
                            min_count: Bound::Abs(v),
                            via_iter: false,
                            serde: false,
                        });
                    }
                    // (5) occurrences of one q-gram = v exactly: a run of v+q-1 equal symbols in a text that
                    //     otherwise avoids that symbol; max_count = v-1 (masked), v, v+1 (kept) in turn, or v as
                    //     an absolute bound with v and v+1 occurrences
                    for variant in 0..3usize {
                        if !heavy_ok || (big && t == Tier::Quick && variant != li % 3) {
                            continue;
                        }
                        let (sigma, q) = [(5usize, 3u32), (4, 4), (3, 5), (9, 2)][k.rng.below(4)];
                        let extra = if variant == 2 { 1 } else { 0 };
                        let run = v + q as usize - 1 + extra;
                        let n = run + 1500 + k.rng.below(500);
                        let at = 600 + k.rng.below(300);
                        let bound = match variant {
                            0 => Bound::NearTop((li + rep) % 3),
                            _ => Bound::Abs(v),
                        };
                        out.push(Case {
                            alpha: k.alpha(sigma),
                            q,
                            text: TextSpec { n, base: Base::Random { pal: sigma - 1, lo: 1 }, overlays: vec![Overlay::Run { at, len: run, rank: 0 }], seed: k.seed() },
                            // the pattern enters the run from the left: q-grams of the flank, mixed q-grams, and one or two copies of the run's q-gram
                            pattern: PatSpec { base: PatBase::FromText { at: at - 6, len: 6 + q as usize + if big { 0 } else { 1 } }, subs_every: 0, seed: k.seed() },
                            max_count: bound,
                            min_count: Bound::Abs(1),
                            via_iter: flip(&mut k),
                            serde: false,
                        });
                    }
                    // (6) two hit diagonals exactly v apart
                    {
                        let (sigma, q) = [(16usize, 4u32), (4, 8), (6, 5)][k.rng.below(3)];
                        let n = v + 1200;
                        let from = 100 + k.rng.below(300);
                        out.push(Case {
                            alpha: k.alpha(sigma),
                            q,
                            text: TextSpec { n, base: Base::Random { pal: sigma, lo: 0 }, overlays: vec![Overlay::Copy { from, to: from + v, len: 350 }], seed: k.seed() },
                            pattern: PatSpec { base: PatBase::FromText { at: from, len: 350 }, subs_every: [0, 60][k.rng.below(2)], seed: k.seed() },
                            max_count: Bound::None,
                            min_count: Bound::Abs(2),
                            via_iter: false,
                            serde: false,
                        });
                    }
                    // (7) homopolymer / tandem-repeat / ascending texts of length v: one q-gram (or a handful) with
                    //     ~v occurrences, every diagonal hit
                    {
                        let which = (li + rep) % 3;
                        let (sigma, q, base) = match which {
                            0 => (1 + k.rng.below(4), 1 + k.rng.below(3) as u32, Base::Homopolymer { rank: k.rng.below(4) }),
                            1 => (4, 2 + k.rng.below(3) as u32, Base::Periodic { period: 2 + k.rng.below(6), pal: 3 }),
                            _ => ([7usize, 37, 256][k.rng.below(3)], 2, if flip(&mut k) { Base::Ascending } else { Base::Descending }),
                        };
                        // pattern length chosen so that the hits stay below ~3M (~1.2M for the largest texts)
                        let per_gram = match which {
                            0 => v,
                            1 => v / 2 + 1,
                            _ => v / sigma + 1,
                        };
                        let plen = ((if big { 1_200_000 } else { 3_000_000 }) / per_gram.max(1)).clamp(1, 60) + q as usize - 1;
                        out.push(Case {
                            alpha: k.alpha(sigma),
                            q,
                            text: TextSpec { n: v, base, overlays: vec![], seed: k.seed() },
                            pattern: PatSpec { base: PatBase::FromText { at: k.rng.below(v), len: plen }, subs_every: 0, seed: k.seed() },
                            max_count: if which == 0 && flip(&mut k) { Bound::NearTop(1 + k.rng.below(2)) } else { Bound::None },
                            min_count: Bound::NearTop(k.rng.below(3)),
                            via_iter: flip(&mut k),
                            serde: false,
                        });
                    }
                }
                // (8) the largest address tables: q*bits = 24 (thorough only; 2 x 128 MiB of tables per build)
                if t == Tier::Thorough {
                    let mut k = Mk { rng: C1920Rng::new(seed ^ ((rep as u64) << 40) ^ 0x7ab1e) };
                    for (sigma, q) in [(4usize, 12u32), (256, 3), (64, 4)] {
                        let n = 300_000 + k.rng.below(100_000);
                        out.push(Case {
                            alpha: k.alpha(sigma),
                            q,
                            text: TextSpec { n, base: Base::Random { pal: sigma, lo: 0 }, overlays: vec![], seed: k.seed() },
                            pattern: PatSpec { base: PatBase::FromText { at: k.rng.below(n - 5000), len: 5000 }, subs_every: 211, seed: k.seed() },
                            max_count: Bound::None,
                            min_count: Bound::Abs(2),
                            via_iter: false,
                            serde: false,
                        });
                    }
                }
            }
            out
        }
    }

    // -----------------------------------------------------------------------
    // C19/large-sparse: k-mer match finding and chaining on long sequences / long match lists

    pub mod sparse {
        use super::*;
        use bio::alignment::sparse::{
            expand_kmer_matches, find_kmer_matches, find_kmer_matches_seq1_hashed, find_kmer_matches_seq2_hashed, hash_kmers, lcskpp, sdpkpp, sdpkpp_union_lcskpp_path,
        };
        use std::collections::BTreeMap;

        #[derive(Serialize, Deserialize, Debug, Clone)]
        pub enum SeqBase {
            /// uniform over the first `pal` letters
            Random { pal: usize },
            /// a random unit of `period` letters repeated
            Periodic { period: usize, pal: usize },
            Homopolymer,
        }

        #[derive(Serialize, Deserialize, Debug, Clone)]
        pub struct SeqSpec {
            pub n: usize,
            pub base: SeqBase,
            pub seed: u64,
        }

        const LETTERS: &[u8] = b"ACGTNRYKMSWBDHVacgtnrykmswbdhv";

        impl SeqSpec {
            pub fn build(&self) -> Vec<u8> {
                let mut rng = C1920Rng::new(self.seed);
                match self.base {
                    SeqBase::Random { pal } => rng.fill(&LETTERS[..pal.clamp(1, LETTERS.len())], self.n),
                    SeqBase::Periodic { period, pal } => {
                        let unit = rng.fill(&LETTERS[..pal.clamp(1, LETTERS.len())], period.max(1));
                        (0..self.n).map(|i| unit[i % unit.len()]).collect()
                    }
                    SeqBase::Homopolymer => vec![b'A'; self.n],
                }
            }
        }

        #[derive(Serialize, Deserialize, Debug, Clone)]
        pub enum Second {
            Independent(SeqSpec),
            /// the first sequence with `del` symbols removed at `at`, `ins` fresh symbols inserted there and
            /// every `subs_every`-th symbol substituted (0 = never)
            Edited { at: usize, del: usize, ins: usize, subs_every: usize, seed: u64 },
        }

        #[derive(Serialize, Deserialize, Debug, Clone)]
        pub enum ListSpec {
            /// the true k-mer matches of two sequences (also checks find_kmer_matches and the prehashed variants);
            /// with drop_mod > 0 every entry whose index is a multiple of drop_mod is left out of the chained list
            FromSeqs { s1: SeqSpec, s2: Second, swap: bool, drop_mod: usize },
            /// (x0+i, y0+i), i < len: one run of continuations
            Diagonal { x0: u32, y0: u32, len: usize },
            /// all (i, j), i < a, j < b: the k-mer matches of two homopolymers
            Grid { a: u32, b: u32 },
            /// (x0 + i*dx, y0 + i*dy), i < len
            Stairs { x0: u32, y0: u32, dx: u32, dy: u32, len: usize },
            /// `len` distinct pseudo-random points in [0,w) x [0,h)
            Random { w: u32, h: u32, len: usize, seed: u64 },
            /// `runs` diagonal runs of `run_len` matches, run r starting at (r*dx, r*dy)
            Runs { runs: usize, run_len: usize, dx: u32, dy: u32 },
        }

        #[derive(Serialize, Deserialize, Debug, Clone)]
        pub struct Case {
            pub list: ListSpec,
            pub k: usize,
            pub match_score: u32,
            pub gap_open: i32,
            pub gap_extend: i32,
            pub allowed_mismatches: usize,
            /// bit 0: sdpkpp, bit 1: sdpkpp_union_lcskpp_path, bit 2: expand_kmer_matches (FromSeqs only); lcskpp always
            pub which: u8,
        }

        const PAIR_CAP: u64 = 3_000_000;

        /// all pairs of equal k-mers, sorted; None when there would be more than PAIR_CAP.
        /// k-mer starts of both sequences are sorted by the k-mer's content (slice comparison), equal
        /// k-mers then form one group whose s1 x s2 product is emitted.
        pub fn kmer_pairs(s1: &[u8], s2: &[u8], k: usize) -> Option<Vec<(u32, u32)>> {
            let mut v = Vec::new();
            if k == 0 || s1.len() < k || s2.len() < k {
                return Some(v);
            }
            let (n1, n2) = (s1.len() - k + 1, s2.len() - k + 1);
            // (sequence, position)
            let mut ids: Vec<(u8, u32)> = (0..n1 as u32).map(|i| (0u8, i)).chain((0..n2 as u32).map(|j| (1u8, j))).collect();
            let kmer = |e: &(u8, u32)| -> &[u8] {
                if e.0 == 0 {
                    &s1[e.1 as usize..e.1 as usize + k]
                } else {
                    &s2[e.1 as usize..e.1 as usize + k]
                }
            };
            ids.sort_unstable_by(|a, b| kmer(a).cmp(kmer(b)).then(a.cmp(b)));
            let mut total: u64 = 0;
            let mut st = 0;
            let mut groups: Vec<(usize, usize, usize)> = Vec::new(); // start, first index of sequence 1 entries, end
            while st < ids.len() {
                let mut en = st + 1;
                while en < ids.len() && kmer(&ids[en]) == kmer(&ids[st]) {
                    en += 1;
                }
                let mid = st + ids[st..en].iter().take_while(|e| e.0 == 0).count();
                total += ((mid - st) as u64) * ((en - mid) as u64);
                if total > PAIR_CAP {
                    return None;
                }
                groups.push((st, mid, en));
                st = en;
            }
            v.reserve(total as usize);
            for (st, mid, en) in groups {
                for a in &ids[st..mid] {
                    for b in &ids[mid..en] {
                        v.push((a.1, b.1));
                    }
                }
            }
            v.sort_unstable();
            Some(v)
        }

        /// LCSk++ optimum of a strictly sorted match list in O(n log n): matches are visited in list order
        /// (ascending x); a match j becomes a possible predecessor of a jump once x_j + k <= x_i, and is then
        /// entered into a staircase (BTreeMap y_j + k -> best score with strictly increasing scores), which
        /// answers "best score among predecessors with y_j + k <= y_i".
        pub fn lcskpp_fast(m: &[(u32, u32)], k: u32) -> u32 {
            let mut dp = vec![0u32; m.len()];
            let mut stair: BTreeMap<u64, u32> = BTreeMap::new();
            let mut j = 0usize;
            let mut opt = 0u32;
            for i in 0..m.len() {
                let (x, y) = m[i];
                while j < i && m[j].0 as u64 + k as u64 <= x as u64 {
                    let (key, val) = (m[j].1 as u64 + k as u64, dp[j]);
                    let dominated = stair.range(..=key).next_back().map_or(false, |(_, &v)| v >= val);
                    if !dominated {
                        let dead: Vec<u64> = stair.range(key..).take_while(|(_, &v)| v <= val).map(|(&kk, _)| kk).collect();
                        for d in dead {
                            stair.remove(&d);
                        }
                        stair.insert(key, val);
                    }
                    j += 1;
                }
                let mut b = k;
                if let Some((_, &v)) = stair.range(..=y as u64).next_back() {
                    b = b.max(v + k);
                }
                if x > 0 && y > 0 {
                    if let Ok(c) = m[..i].binary_search(&(x - 1, y - 1)) {
                        b = b.max(dp[c] + 1);
                    }
                }
                dp[i] = b;
                opt = opt.max(b);
            }
            opt
        }

        /// validity of a chain by the rule of the property; (score, jumps, continuations)
        fn chain(m: &[(u32, u32)], path: &[usize], k: u32, what: &str, ctx: &str) -> Result<(u32, usize, usize), Stop> {
            let (mut score, mut jumps, mut conts) = (0u32, 0usize, 0usize);
            for (n, &ix) in path.iter().enumerate() {
                ensure!(ix < m.len(), "{}: {} path (length {}) has index {} at step {} but there are {} matches", ctx, what, path.len(), ix, n, m.len());
                if n == 0 {
                    score += k;
                    continue;
                }
                let (px, py) = m[path[n - 1]];
                let (x, y) = m[ix];
                let cont = x == px + 1 && y == py + 1;
                let jump = x >= px + k && y >= py + k;
                ensure!(
                    cont || jump,
                    "{}: {} path (length {}), step {}: match #{} {:?} after match #{} {:?} neither continues it diagonally by one nor starts >= k={} later in both sequences",
                    ctx, what, path.len(), n, ix, (x, y), path[n - 1], (px, py), k
                );
                if cont {
                    score += 1;
                    conts += 1;
                } else {
                    score += k;
                    jumps += 1;
                }
            }
            Ok((score, jumps, conts))
        }

        type Built = (Vec<(u32, u32)>, Option<(Vec<u8>, Vec<u8>, Vec<(u32, u32)>)>);

        /// None: more k-mer matches than the budget
        fn build_list(l: &ListSpec, k: usize) -> Result<Option<Built>, Stop> {
            Ok(Some(match l {
                ListSpec::FromSeqs { s1, s2, swap, drop_mod } => {
                    let a = s1.build();
                    let b = match s2 {
                        Second::Independent(sp) => sp.build(),
                        Second::Edited { at, del, ins, subs_every, seed } => {
                            let mut rng = C1920Rng::new(*seed);
                            let at = (*at).min(a.len());
                            let del = (*del).min(a.len() - at);
                            let mut b = a[..at].to_vec();
                            b.extend(rng.fill(&LETTERS[..4], *ins));
                            b.extend_from_slice(&a[at + del..]);
                            if *subs_every > 0 {
                                let mut j = subs_every - 1;
                                while j < b.len() {
                                    b[j] = if b[j] == b'A' { b'C' } else { b'A' };
                                    j += subs_every;
                                }
                            }
                            b
                        }
                    };
                    let (a, b) = if *swap { (b, a) } else { (a, b) };
                    let Some(truth) = kmer_pairs(&a, &b, k) else {
                        return Ok(None);
                    };
                    let list: Vec<(u32, u32)> = if *drop_mod > 0 { truth.iter().enumerate().filter(|(i, _)| i % drop_mod != 0).map(|(_, p)| *p).collect() } else { truth.clone() };
                    (list, Some((a, b, truth)))
                }
                ListSpec::Diagonal { x0, y0, len } => ((0..*len as u32).map(|i| (x0 + i, y0 + i)).collect(), None),
                ListSpec::Grid { a, b } => ((0..*a).flat_map(|i| (0..*b).map(move |j| (i, j))).collect(), None),
                ListSpec::Stairs { x0, y0, dx, dy, len } => {
                    ensure!(*dx >= 1, "harness: stairs must ascend in x");
                    ((0..*len as u32).map(|i| (x0 + i * dx, y0 + i * dy)).collect(), None)
                }
                ListSpec::Random { w, h, len, seed } => {
                    ensure!((*w as u64) * (*h as u64) >= 2 * *len as u64, "harness: box too small for {} distinct points", len);
                    let mut rng = C1920Rng::new(*seed);
                    let mut v: Vec<(u32, u32)> = Vec::with_capacity(*len + *len / 4);
                    while v.len() < *len {
                        let need = *len - v.len() + *len / 16 + 8;
                        for _ in 0..need {
                            v.push((rng.below(*w as usize) as u32, rng.below(*h as usize) as u32));
                        }
                        v.sort_unstable();
                        v.dedup();
                    }
                    // thin out evenly down to exactly `len`
                    let surplus = v.len() - *len;
                    if surplus > 0 {
                        let step = v.len() / surplus;
                        let mut out = Vec::with_capacity(*len);
                        let mut dropped = 0;
                        for (i, p) in v.iter().enumerate() {
                            if dropped < surplus && i % step == step - 1 {
                                dropped += 1;
                            } else {
                                out.push(*p);
                            }
                        }
                        v = out;
                    }
                    (v, None)
                }
                ListSpec::Runs { runs, run_len, dx, dy } => {
                    let mut v: Vec<(u32, u32)> = (0..*runs as u32).flat_map(|r| (0..*run_len as u32).map(move |i| (r * dx + i, r * dy + i))).collect();
                    v.sort_unstable();
                    v.dedup();
                    (v, None)
                }
            }))
        }

        pub fn check(c: &Case) -> R {
            let k = c.k;
            ensure!(k >= 1 && k < (1 << 24), "harness: k={}", k);
            ensure!(c.gap_open <= 0 && c.gap_extend <= 0 && c.match_score >= 1, "harness: scoring outside the documented domain");
            let ctx = format!("{:?}", c);
            let mut pass = Pass::new(false);
            let Some((m, seqs)) = build_list(&c.list, k)? else {
                return Ok(pass.class("skipped: more k-mer matches than the budget of this sub-check"));
            };
            ensure!(m.windows(2).all(|w| w[0] < w[1]), "harness: match list not strictly sorted");
            ensure!(m.iter().all(|&(x, y)| (x as u64) < (1 << 26) && (y as u64) < (1 << 26)), "harness: coordinates out of the intended range");

            // ---- k-mer match finding
            if let Some((s1, s2, truth)) = &seqs {
                let cmp = |got: &[(u32, u32)], what: &str| -> Result<(), Stop> {
                    if got != &truth[..] {
                        let i = (0..got.len().min(truth.len())).find(|&i| got[i] != truth[i]).unwrap_or(got.len().min(truth.len()));
                        crate::fail!(
                            "{}: {} returns {} pairs, the sorted list of all equal k-mer pairs has {}; first difference at index {}: {:?} vs {:?}",
                            ctx, what, got.len(), truth.len(), i, got.get(i), truth.get(i)
                        );
                    }
                    Ok(())
                };
                cmp(&find_kmer_matches(s1, s2, k), "find_kmer_matches")?;
                let h1 = hash_kmers(s1, k);
                cmp(&find_kmer_matches_seq1_hashed(&h1, s2, k), "find_kmer_matches_seq1_hashed")?;
                let h2 = hash_kmers(s2, k);
                cmp(&find_kmer_matches_seq2_hashed(s1, &h2, k), "find_kmer_matches_seq2_hashed")?;
                // the same hash tables reused for a second, shorter partner: a prefix of the other sequence
                let cut2 = s2.len().min(k + 300);
                let sub: Vec<(u32, u32)> = truth.iter().copied().filter(|&(_, y)| y as usize + k <= cut2).collect();
                let got = find_kmer_matches_seq1_hashed(&h1, &s2[..cut2], k);
                ensure!(got == sub, "{}: find_kmer_matches_seq1_hashed with the hash table reused for the prefix s2[..{}] returns {} pairs, expected {}", ctx, cut2, got.len(), sub.len());
                let cut1 = s1.len().min(k + 300);
                let sub: Vec<(u32, u32)> = truth.iter().copied().filter(|&(x, _)| x as usize + k <= cut1).collect();
                let got = find_kmer_matches_seq2_hashed(&s1[..cut1], &h2, k);
                ensure!(got == sub, "{}: find_kmer_matches_seq2_hashed with the hash table reused for the prefix s1[..{}] returns {} pairs, expected {}", ctx, cut1, got.len(), sub.len());
                let top_bucket = h1.values().chain(h2.values()).map(|v| v.len()).max().unwrap_or(0);
                add_band(&mut pass, &c1920_bands!("sequence length"), s1.len());
                add_band(&mut pass, &c1920_bands!("sequence length"), s2.len());
                add_band(&mut pass, &c1920_bands!("occurrences of one k-mer"), top_bucket);
                add_over(&mut pass, &c1920_over!("occurrences of one k-mer"), top_bucket);
                add_over(&mut pass, &c1920_over!("k-mer matches found"), truth.len());
                add_band(&mut pass, &c1920_bands!("k (match finding)"), k);
                pass.add_if(s1.len() < s2.len(), "s1 shorter (seq1 hashed)");
                pass.add_if(s1.len() >= s2.len(), "s2 not longer (seq2 hashed)");
            }

            // ---- chaining
            let k32 = k as u32;
            let opt = lcskpp_fast(&m, k32);
            if m.len() <= 2500 {
                let quad = super::super::sparse::lcskpp_optimum(&m, k32);
                ensure!(quad == opt, "harness: the O(n log n) LCSk++ reference gives {} but the quadratic recurrence {} for {}", opt, quad, ctx);
                pass.add("fast reference cross-checked against the quadratic recurrence");
            }
            // analytic optimum of the structured lists
            let analytic: Option<u32> = match c.list {
                ListSpec::Diagonal { len, .. } if len > 0 => Some(k32 + len as u32 - 1),
                ListSpec::Grid { a, b } if a > 0 && b > 0 => Some(k32 + a.min(b) - 1),
                ListSpec::Stairs { dx, dy, len, .. } if len > 0 && dx >= k32 && dy >= k32 => Some(k32 * len as u32),
                ListSpec::Stairs { dx: 1, dy: 1, len, .. } if len > 0 => Some(k32 + len as u32 - 1),
                _ => None,
            };
            if let Some(a) = analytic {
                ensure!(a == opt, "harness: the O(n log n) LCSk++ reference gives {} but the optimum of this structured list is {}: {}", opt, a, ctx);
                pass.add("optimum known analytically");
            }
            let r = lcskpp(&m, k);
            let (score, jumps, conts) = chain(&m, &r.path, k32, "lcskpp", &ctx)?;
            ensure!(r.score == score || (m.is_empty() && r.score == 0), "{}: lcskpp reports score {} but its path (length {}) scores {} (k per start, +1 per continuation)", ctx, r.score, r.path.len(), score);
            ensure!(r.score == opt, "{}: lcskpp score {} (path of {} matches over a list of {}), optimum of the LCSk++ recurrence {}", ctx, r.score, r.path.len(), m.len(), opt);
            if m.is_empty() {
                ensure!(r.path.is_empty(), "{}: lcskpp path of length {} over an empty match list", ctx, r.path.len());
            }
            let mut sd_len = None;
            if c.which & 1 != 0 {
                let s = sdpkpp(&m, k, c.match_score, c.gap_open, c.gap_extend);
                chain(&m, &s.path, k32, "sdpkpp", &ctx)?;
                pass.add_if(s.path != r.path, "sdpkpp path differs from the lcskpp path");
                sd_len = Some(s.path.len());
                add_over(&mut pass, &c1920_over!("sdpkpp path length"), s.path.len());
            }
            if c.which & 2 != 0 {
                let u = sdpkpp_union_lcskpp_path(&m, k, c.match_score, c.gap_open, c.gap_extend);
                chain(&m, &u, k32, "sdpkpp_union_lcskpp_path", &ctx)?;
                pass.add_if(sd_len.map_or(false, |l| u.len() > l), "union path longer than the sdpkpp path");
                pass.add("union path checked");
            }
            // ---- expansion
            if let (true, Some((s1, s2, _))) = (c.which & 4 != 0, &seqs) {
                let e = expand_kmer_matches(s1, s2, k, &m, c.allowed_mismatches);
                if let Some(i) = (1..e.len()).find(|&i| e[i - 1] >= e[i]) {
                    crate::fail!("{}: expand_kmer_matches is not strictly sorted at index {}: {:?} then {:?}", ctx, i, e[i - 1], e[i]);
                }
                let mut it = e.iter().peekable();
                for p in &m {
                    while it.peek().map_or(false, |x| *x < p) {
                        it.next();
                    }
                    ensure!(it.peek() == Some(&p), "{}: expand_kmer_matches ({} entries): the input match {:?} is missing", ctx, e.len(), p);
                }
                for &(x, y) in &e {
                    ensure!(x as usize + k <= s1.len() && y as usize + k <= s2.len(), "{}: expand_kmer_matches: ({}, {}) does not leave room for a k-mer", ctx, x, y);
                    let mm = (0..k).filter(|&d| s1[x as usize + d] != s2[y as usize + d]).count();
                    ensure!(mm <= c.allowed_mismatches, "{}: expand_kmer_matches: k-mers at ({}, {}) differ in {} positions although all input matches are exact", ctx, x, y, mm);
                }
                let opt_e = lcskpp_fast(&e, k32);
                let re = lcskpp(&e, k);
                let (score, _, _) = chain(&e, &re.path, k32, "lcskpp on the expanded list", &ctx)?;
                ensure!(re.score == score && re.score == opt_e, "{}: lcskpp on the expanded list ({} matches): reported score {}, path score {}, optimum {}", ctx, e.len(), re.score, score, opt_e);
                pass.add_if(e.len() > m.len(), "expansion added matches");
                add_over(&mut pass, &c1920_over!("expanded list length"), e.len());
            }

            let extent = m.iter().map(|&(x, y)| x.max(y) as usize + k).max().unwrap_or(0);
            pass.nontrivial = jumps >= 1 && conts >= 1 && m.len() > 255;
            add_band(&mut pass, &c1920_bands!("match list length"), m.len());
            add_band(&mut pass, &c1920_bands!("largest coordinate + k"), extent);
            add_band(&mut pass, &c1920_bands!("k (chaining)"), k);
            add_band(&mut pass, &c1920_bands!("lcskpp path length"), r.path.len());
            add_over(&mut pass, &c1920_over!("lcskpp path length"), r.path.len());
            add_over(&mut pass, &c1920_over!("continuations in the lcskpp chain"), conts);
            add_over(&mut pass, &c1920_over!("jumps in the lcskpp chain"), jumps);
            add_over(&mut pass, &c1920_over!("match list length"), m.len());
            pass.add_if(jumps >= 1 && conts >= 1, "lcskpp chain with >=1 jump and >=1 continuation");
            pass.add_if(matches!(c.list, ListSpec::Random { .. }), "random point list");
            pass.add_if(matches!(c.list, ListSpec::Grid { .. }), "grid (homopolymer) list");
            Ok(pass)
        }

        /// rough cost for balancing the shards
        pub fn cost(c: &Case) -> u64 {
            let passes = 1 + (c.which & 1) as u64 + 2 * (c.which >> 1 & 1) as u64 + 2 * (c.which >> 2 & 1) as u64;
            let len = match &c.list {
                ListSpec::FromSeqs { s1, .. } => 6 * s1.n as u64 + if matches!(s1.base, SeqBase::Periodic { .. }) { (s1.n as u64).pow(2) / 4 } else { 0 } + if c.k > 64 { (s1.n * c.k / 8) as u64 } else { 0 },
                ListSpec::Diagonal { len, .. } | ListSpec::Stairs { len, .. } | ListSpec::Random { len, .. } => *len as u64,
                ListSpec::Grid { a, b } => *a as u64 * *b as u64,
                ListSpec::Runs { runs, run_len, .. } => (*runs * *run_len) as u64,
            };
            len * passes + 2000
        }

        pub fn cases(t: Tier, seed: u64) -> Vec<Case> {
            let mut out: Vec<Case> = Vec::new();
            let reps = if t == Tier::Quick { 1 } else { 5 };
            let ladder = c1920_ladder();
            for rep in 0..reps {
                for (li, &v) in ladder.iter().enumerate() {
                    let mut rng = C1920Rng::new(seed ^ ((rep as u64) << 40) ^ ((li as u64) << 20) ^ 0x5ba75e);
                    let huge = v > 140_000;
                    let scoring = |rng: &mut C1920Rng| (1 + rng.below(3) as u32, -(rng.below(5) as i32), -(rng.below(3) as i32));
                    let mut push = |list: ListSpec, k: usize, which: u8, rng: &mut C1920Rng| {
                        let (match_score, gap_open, gap_extend) = scoring(rng);
                        out.push(Case { list, k, match_score, gap_open, gap_extend, allowed_mismatches: rng.below(3), which });
                    };
                    let full = if huge { [1u8, 1, 2][(li + rep) % 3] } else { 3 };
                    let k = 2 + rng.below(9);
                    // (1) list length = lcskpp path length = v: one diagonal; ending exactly at coordinate v as well
                    push(ListSpec::Diagonal { x0: rng.below(50) as u32, y0: rng.below(50) as u32, len: v }, k, full, &mut rng);
                    // (2) list length = v: random points in a box about 4..40 times larger
                    {
                        let w = (((v as f64) * (4.0 + rng.below(36) as f64)).sqrt() as u32).max(40);
                        push(ListSpec::Random { w, h: w + rng.below(50) as u32, len: v, seed: rng.next() >> 11 }, 1 + rng.below(6), full, &mut rng);
                    }
                    // (3) largest coordinate + k = v exactly (size of the Fenwick tree): stairs that end there
                    {
                        let k = 1 + rng.below(12);
                        let len = (v - k) / (k + 1) + 1;
                        let dx = k as u32 + rng.below(2) as u32;
                        let last = (len as u32 - 1) * dx;
                        let x0 = (v - k) as u32 - last;
                        push(ListSpec::Stairs { x0, y0: 0, dx, dy: k as u32, len }, k, 3, &mut rng);
                    }
                    // (4) k = v (chaining): a few stairs / runs with huge k
                    {
                        let len = if huge { 2 } else { 3 + rng.below(4) };
                        push(ListSpec::Runs { runs: len, run_len: 3, dx: v as u32 + rng.below(2) as u32, dy: v as u32 }, v, 3, &mut rng);
                    }
                    // (5) grid of v..v+b entries (two homopolymers): dense, every entry continues another
                    if !huge {
                        let b = 3 + rng.below(30) as u32;
                        let a = (v as u32).div_ceil(b);
                        push(ListSpec::Grid { a, b }, 1 + rng.below(5), 3, &mut rng);
                    }
                    // (6) several long diagonal runs (jumps between runs and long continuation stretches)
                    {
                        let runs = 2 + rng.below(6);
                        let run_len = v / runs + 1;
                        push(ListSpec::Runs { runs, run_len, dx: (run_len / 2 + rng.below(run_len)) as u32, dy: (run_len / 3 + rng.below(run_len)) as u32 }, k, full, &mut rng);
                    }
                    // (7) sequences of length v: a random sequence against an edited copy (one indel, sparse substitutions);
                    //     up to 131073 for every ladder value, 2^19+1 once in the quick tier, 2^19.. and 2^20+1 in the thorough tier
                    if !huge || (t == Tier::Quick && v == (1 << 19) + 1) || (t == Tier::Thorough && v <= (1 << 19) + 1) || (t == Tier::Thorough && rep == 0 && v == (1 << 20) + 1) {
                        let k = if v > 300_000 { 12 } else if v > 20_000 { 10 } else { 6 + rng.below(4) };
                        let s1 = SeqSpec { n: v, base: SeqBase::Random { pal: 4 }, seed: rng.next() >> 11 };
                        let s2 = Second::Edited { at: rng.below(v), del: rng.below(40), ins: rng.below(40), subs_every: [0, 977, 211][rng.below(3)], seed: rng.next() >> 11 };
                        push(ListSpec::FromSeqs { s1, s2, swap: rng.below(2) == 0, drop_mod: [0, 7][rng.below(2)] }, k, if huge { 0 } else { 7 }, &mut rng);
                    }
                    // (8) occurrences of one k-mer = v: a homopolymer of v+k-1 symbols against a short one
                    {
                        let k = 1 + rng.below(6);
                        let s1 = SeqSpec { n: v + k - 1, base: SeqBase::Homopolymer, seed: 0 };
                        let short = SeqSpec { n: k + rng.below(2), base: SeqBase::Homopolymer, seed: 0 };
                        push(ListSpec::FromSeqs { s1, s2: Second::Independent(short), swap: rng.below(2) == 0, drop_mod: 0 }, k, if huge { 0 } else { 3 }, &mut rng);
                    }
                    // (9) tandem repeats of total length ~v against a copy with an insertion: ~v*v/(2*period) matches, capped by the length
                    if v <= 8193 {
                        let period = 2 + rng.below(12);
                        let n = v.min(700);
                        let s1 = SeqSpec { n, base: SeqBase::Periodic { period, pal: 4 }, seed: rng.next() >> 11 };
                        let s2 = Second::Edited { at: rng.below(n), del: 0, ins: 1 + rng.below(5), subs_every: 0, seed: rng.next() >> 11 };
                        push(ListSpec::FromSeqs { s1, s2, swap: false, drop_mod: 0 }, 3 + rng.below(6), 7, &mut rng);
                    }
                    // (10) k = v for match finding (k-mers of v symbols): sequences of ~2v symbols over two letters
                    if v <= 8193 || (t == Tier::Thorough && v <= 32769) {
                        // (random: ~v k-mers per sequence; periodic / homopolymer: a few dozen, all of them matching)
                        let base = [SeqBase::Random { pal: 2 }, SeqBase::Periodic { period: 3 + rng.below(5), pal: 2 }, SeqBase::Homopolymer][(li + rep) % 3].clone();
                        let n = if matches!(base, SeqBase::Random { .. }) { 2 * v + rng.below(40) } else { v + 10 + rng.below(30) };
                        let s1 = SeqSpec { n, base, seed: rng.next() >> 11 };
                        let s2 = Second::Edited { at: rng.below(v), del: 0, ins: rng.below(2), subs_every: 0, seed: rng.next() >> 11 };
                        push(ListSpec::FromSeqs { s1, s2, swap: rng.below(2) == 0, drop_mod: 0 }, v, 3, &mut rng);
                    }
                }
            }
            out
        }
    }
}

/// every band of the given parameters (the first `upto` bands of each) plus single labels, as a static list
fn large_must(bands: &[(&[&'static str; 12], usize)], singles: &[&'static str]) -> &'static [&'static str] {
    let mut v: Vec<&'static str> = Vec::new();
    for (labels, upto) in bands {
        v.extend(labels[..*upto].iter().copied());
    }
    v.extend(singles.iter().copied());
    Box::leak(v.into_boxed_slice())
}

pub fn property() -> Property {
    Property {
        id: "C19",
        rule: "alphabets of 1..=9, 16, 37 and 256 symbols (letters in rank order or arbitrary bytes in arbitrary order), sequences assembled from fresh symbols (whole alphabet or a palette of 1-4 of its letters) and copies of earlier stretches. codes: q up to the word limit q*ceil(log2|A|) <= 64, qgrams() count, equal code <=> equal q-gram, rev_qgrams() reversed = qgrams(). index: q*ceil(log2|A|) <= 16, text 0..=40, pattern 0..=16 built from stretches of the text, max_count in {none,0,1,2,3}, min_count 1..=3; qgram_matches for every q-gram of text, pattern and random probes against a naive scan (empty when more than max_count); matches() against per-diagonal first/last hit and hit count; exact_matches() against maximal equal runs of length >= q on every diagonal (with max_count: maximal runs of unmasked hits); compared as sorted lists. Plus every (text <= 5, pattern <= 4) over {a,b,c} with q = 2. sparse: pairs over 1..=4 letters, length 0..=30 (independent or edited stretch), k 1..=8; find_kmer_matches and both prehashed variants = naive sorted pair list; match lists = the true list, subsets, arbitrary strictly sorted pairs; lcskpp path valid by the chain rule, reported score = path score = optimum of the quadratic LCSk++ recurrence; sdpkpp and union path valid chains; expand_kmer_matches (in-range lists) strictly sorted, superset, in range, within allowed_mismatches when the seeds are exact, and all chain checks again on the expanded list. Non-trivial = codes/index: |A| not a power of two, q >= 2 and >= 2 distinct q-grams / >= 1 hit; sparse: an optimal chain with >= 1 jump and >= 1 continuation (k >= 2). Distinct = distinct serialised cases. LARGE-SCALE (C19/large-codes, large-index, large-sparse): a deterministic list of parameter records (sizes fixed by the ladder 255,256,257, 511..513, 1023..1025, 4095..4097, 8191..8193, 16383..16385, 32767..32769, 65535..65537, 70000, 131071..131073, 2^19-1..2^19+1, 2^20-1..2^20+1; contents from the run seed via splitmix64), spread over worker shards, every ladder value in every run. large-codes: text length on the ladder for |A| in {1,2,3,4,5,16,37,200,256} with q*bits in {0,8,16,32,60,63,64}, random / tandem-repeat / ascending / homopolymer texts; equal code <=> equal q-gram against a base-|A| encoding of the ranks, q-gram alone = in text at sampled positions, rev_qgrams reversed = qgrams. large-index: per ladder value v: text length v (dense: 2-4 letters, q 1-2, nearly every diagonal hit; and over a 16..20-bit code space), pattern length = longest exact match = v, hits on one diagonal = min_count = v (and v-1: filtered), occurrences of one q-gram = v with max_count = v-1 / v / v+1, two hit diagonals exactly v apart, homopolymer / tandem-repeat / ascending texts of length v; index built from the slice or from an iterator, optionally restored through serde; oracle: q-gram positions by sorting (q-gram, position), qgram_matches for every q-gram of the text and 200 random probes, per-diagonal first/last hit, hit count and maximal runs of consecutive hits in dense arrays (cross-checked against a direct scan of the two sequences when |text|*|pattern| <= 2^22), compared as sorted lists; at most 8M hits per case. large-sparse: per ladder value v: match list length v (one diagonal, random points), largest coordinate + k = v (Fenwick tree size), k = v, grids (two homopolymers), several long runs, sequences of length v against an edited copy (find_kmer_matches and both prehashed variants, hash tables reused for a second partner, against all pairs of equal k-mers found by sorting the k-mer starts), one k-mer occurring v times, tandem repeats, k-mers of v symbols; lcskpp path valid, reported score = path score = optimum of an O(n log n) LCSk++ recurrence (BTreeMap staircase; cross-checked against the quadratic recurrence for lists <= 2500 and against the analytic optimum of diagonal / grid / stair lists), sdpkpp and union paths valid chains, expand_kmer_matches strictly sorted / superset / in range / within allowed_mismatches and lcskpp optimal on the expanded list.",
        assumptions: &[
            "large-scale sub-checks: q*ceil(log2|A|) <= 20 for the index in the quick tier (24 in the thorough tier: two tables of 2^24 words per build); pattern length, min_count, hits on one diagonal and longest exact match reach 2^19+1 (one value of that band) in the quick tier and every value up to 2^20+1 in the thorough tier (a pattern of 2^20 symbols costs several seconds); occurrences of one q-gram and max_count reach 2^19+1 and 2^20+1 in the quick tier (one value per band), all in the thorough tier; sequences for find_kmer_matches reach 131073 for every ladder value, 2^19+1 once in the quick tier, 2^20+1 in the thorough tier; k for match finding reaches 8193 (32769 thorough) because hashing all k-mers costs n*k; coordinates stay below 2^26",
            "texts, patterns and probes are over the alphabet the index was built with (other symbols are documented to panic)",
            "q >= 1 and q*ceil(log2|A|) <= 64 (asserted by qgrams); for the index q*ceil(log2|A|) <= 16 because the address table has 2^(q*bits) words",
            "min_count >= 1; with max_count set, matches/exact_matches are specified over the unmasked q-gram hits",
            "match lists are strictly sorted (lcskpp/sdpkpp/expand assert matches[i-1] < matches[i], so duplicates are outside the contract); expand_kmer_matches only gets pairs that leave room for a k-mer in both sequences",
            "match_score >= 1, gap_open <= 0, gap_extend <= 0",
        ],
        subs: vec![
            Box::new(PropSub {
                name: "C19/codes",
                quick: 360_000,
                thorough: 3_000_000,
                shards_quick: 16,
                shards_thorough: 16,
                strat: codes::strat,
                check: codes::check,
                must_reach: &["|A| not a power of two, q>=2", "|A|=1", "|A|=256", "q*bits = 64", "repeated q-gram"],
                watch: false,
            }),
            Box::new(PropSub {
                name: "C19/index",
                quick: 360_000,
                thorough: 4_000_000,
                shards_quick: 16,
                shards_thorough: 16,
                strat: index::strat,
                check: index::check,
                must_reach: &[
                    "|A| not a power of two, q>=2, non-empty index",
                    "|A|=1",
                    "|A|=256",
                    "|A|=37",
                    "max_count exceeded",
                    "diagonal with text pos < pattern pos",
                    "two exact matches on one diagonal",
                    "matches: diagonal with a gap between hits",
                    "min_count filters a diagonal",
                ],
                watch: false,
            }),
            Box::new(ExhSub { name: "C19/index-abc-q2", enumerate: index::enumerate, check: index::check, must_reach: &["diagonal with text pos < pattern pos"] }),
            Box::new(crate::oracles::scale::C1920LadderSub {
                name: "C19/large-codes",
                cases: large::codes::cases,
                check: large::codes::check,
                cost: |c| c.text.n as u64,
                shards_quick: 4,
                shards_thorough: 8,
                must_reach: large_must(&[(&crate::c1920_bands!("text length"), 12)], &["q*bits = 64", "q*bits = 32", "q*bits = 16", "q*bits in 33..63", "|A|=256", "|A|=1", "|A| not a power of two", "homopolymer", "tandem repeat"]),
            }),
            Box::new(crate::oracles::scale::C1920LadderSub {
                name: "C19/large-index",
                cases: large::index::cases,
                check: large::index::check,
                cost: large::index::cost,
                shards_quick: 16,
                shards_thorough: 16,
                must_reach: large_must(
                    &[
                        (&crate::c1920_bands!("text length"), 12),
                        (&crate::c1920_bands!("pattern length"), 11),
                        (&crate::c1920_bands!("occurrences of one q-gram"), 12),
                        (&crate::c1920_bands!("longest exact match"), 11),
                        (&crate::c1920_bands!("hits on one diagonal"), 11),
                        (&crate::c1920_bands!("max_count"), 12),
                        (&crate::c1920_bands!("min_count"), 11),
                        (&crate::c1920_bands!("distance between two hit diagonals"), 12),
                    ],
                    &[
                        "distinct diagonals with hits > 65536",
                        "hits > 65536",
                        "exact matches returned > 65536",
                        "occurrences of one q-gram > 65536",
                        "max_count = top occurrences (just kept)",
                        "max_count = top occurrences - 1 (just masked)",
                        "min_count = top diagonal count (just kept)",
                        "min_count = top diagonal count + 1 (just filtered)",
                        "two exact matches on one diagonal",
                        "diagonal with text pos < pattern pos",
                        "index built from an iterator",
                        "homopolymer text",
                        "tandem-repeat text",
                        "q*bits = 16",
                        "q*bits in 17..20",
                    ],
                ),
            }),
            Box::new(crate::oracles::scale::C1920LadderSub {
                name: "C19/large-sparse",
                cases: large::sparse::cases,
                check: large::sparse::check,
                cost: large::sparse::cost,
                shards_quick: 16,
                shards_thorough: 16,
                must_reach: large_must(
                    &[
                        (&crate::c1920_bands!("match list length"), 12),
                        (&crate::c1920_bands!("largest coordinate + k"), 12),
                        (&crate::c1920_bands!("k (chaining)"), 12),
                        (&crate::c1920_bands!("lcskpp path length"), 12),
                        (&crate::c1920_bands!("occurrences of one k-mer"), 12),
                        (&crate::c1920_bands!("sequence length"), 11),
                        (&crate::c1920_bands!("k (match finding)"), 5),
                    ],
                    &[
                        "match list length > 2^20",
                        "k-mer matches found > 65536",
                        "continuations in the lcskpp chain > 65536",
                        "jumps in the lcskpp chain > 65536",
                        "expanded list length > 65536",
                        "sdpkpp path length > 65536",
                        "union path checked",
                        "fast reference cross-checked against the quadratic recurrence",
                        "optimum known analytically",
                        "random point list",
                        "grid (homopolymer) list",
                    ],
                ),
            }),
            Box::new(PropSub {
                name: "C19/sparse",
                quick: 200_000,
                thorough: 2_000_000,
                shards_quick: 16,
                shards_thorough: 16,
                strat: sparse::strat,
                check: sparse::check,
                must_reach: &[
                    "lcskpp chain with >=1 jump and >=1 continuation",
                    "empty match list",
                    "the true match list",
                    "proper subset of the true matches",
                    "arbitrary in-range pairs",
                    "expansion added matches",
                    "sdpkpp path differs from the lcskpp path",
                ],
                watch: false,
            }),
        ],
    }
}
