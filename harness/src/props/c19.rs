//! C19 — k-mer indexing and chaining are exact: q-gram rank codes, QGramIndex,
//! k-mer match finding, LCSk++ / sdpkpp chaining, match expansion.

use crate::engine::gen::idx;
use crate::engine::*;
use crate::ensure;
use proptest::prelude::*;
use serde::{Deserialize, Serialize};
use std::collections::{BTreeMap, BTreeSet};

/// smallest b with 2^b >= n: the number of bits needed for ranks 0..n-1 (0 for a one-letter alphabet)
fn bits_for(n: usize) -> u32 {
    let mut b = 0;
    while (1usize << b) < n {
        b += 1;
    }
    b
}

fn check_alphabet(alphabet: &[u8], seqs: &[&[u8]]) -> Result<(), Stop> {
    let set: BTreeSet<u8> = alphabet.iter().copied().collect();
    ensure!(!alphabet.is_empty() && set.len() == alphabet.len(), "harness: alphabet {:?} empty or with duplicates", alphabet);
    for s in seqs {
        ensure!(s.iter().all(|c| set.contains(c)), "harness: sequence {:?} not over the alphabet {:?}", s, alphabet);
    }
    Ok(())
}

/// alphabets: size 1..=9, 16, 37, 256; mostly readable letters, sometimes arbitrary bytes in arbitrary order
fn alphabet_strat() -> BoxedStrategy<Vec<u8>> {
    let size = prop_oneof![
        2 => Just(1usize), 2 => Just(2usize), 4 => Just(3usize), 2 => Just(4usize), 4 => Just(5usize), 3 => Just(6usize),
        3 => Just(7usize), 2 => Just(8usize), 3 => Just(9usize), 2 => Just(16usize), 3 => Just(37usize), 2 => Just(256usize),
    ];
    (size, any::<u8>(), (0u8..128).prop_map(|s| s * 2 + 1), 0u8..4)
        .prop_map(|(n, off, stride, mode)| {
            if mode > 0 && n <= 26 {
                (0..n).map(|j| b'a' + j as u8).collect()
            } else if mode > 0 && n == 37 {
                (0..n).map(|j| b'0' + j as u8).collect()
            } else {
                // odd stride is coprime with 256: n distinct bytes, not in rank order
                (0..n).map(|j| off.wrapping_add((j as u8).wrapping_mul(stride))).collect()
            }
        })
        .boxed()
}

#[derive(Debug, Clone)]
enum Piece {
    /// fresh symbols (fractions into the palette)
    Rand(Vec<u16>),
    /// copy of a stretch of the reference sequence (start fraction, length 0..=12)
    Copy(u16, u8),
}

fn piece(max_rand: usize) -> BoxedStrategy<Piece> {
    prop_oneof![
        3 => proptest::collection::vec(any::<u16>(), 0..=max_rand).prop_map(Piece::Rand),
        2 => (any::<u16>(), 0u8..=12).prop_map(|(s, l)| Piece::Copy(s, l)),
    ]
    .boxed()
}

/// `palette`: the symbols fresh pieces draw from; `reference`: where Copy pieces copy from (None = the sequence built so far)
fn assemble(palette: &[u8], pieces: &[Piece], reference: Option<&[u8]>, max_len: usize) -> Vec<u8> {
    let mut out: Vec<u8> = Vec::new();
    for p in pieces {
        match p {
            Piece::Rand(fr) => out.extend(fr.iter().map(|f| palette[idx(*f, palette.len() - 1)])),
            Piece::Copy(s, l) => {
                let src: Vec<u8> = match reference {
                    Some(r) => r.to_vec(),
                    None => out.clone(),
                };
                if !src.is_empty() {
                    let st = idx(*s, src.len() - 1);
                    let en = (st + *l as usize).min(src.len());
                    out.extend_from_slice(&src[st..en]);
                }
            }
        }
    }
    out.truncate(max_len);
    out
}

/// the symbols a case draws from: the whole alphabet, or a few of its letters (repeats become likely;
/// the alphabet — and with it the code width — stays the same)
fn palette_strat(alphabet: Vec<u8>) -> BoxedStrategy<Vec<u8>> {
    let n = alphabet.len();
    let a2 = alphabet.clone();
    prop_oneof![
        2 => Just(alphabet),
        3 => proptest::collection::vec(prop_oneof![3 => any::<u16>(), 1 => Just(u16::MAX)], 1..=4)
            .prop_map(move |fr| fr.iter().map(|f| a2[idx(*f, n - 1)]).collect::<Vec<u8>>()),
    ]
    .boxed()
}

// ===========================================================================
// RankTransform::qgrams / rev_qgrams up to the full word width

pub mod codes {
    use super::*;
    use bio::alphabets::{Alphabet, RankTransform};

    #[derive(Serialize, Deserialize, Debug, Clone)]
    pub struct Case {
        pub alphabet: B,
        pub q: u32,
        pub text: B,
    }

    pub fn check(c: &Case) -> R {
        let text: &[u8] = &c.text;
        check_alphabet(&c.alphabet, &[text])?;
        let n = c.alphabet.len();
        let bits = bits_for(n);
        let q = c.q as usize;
        ensure!(q >= 1 && bits * c.q <= usize::BITS, "harness: q={} with {} bits per symbol exceeds the word", q, bits);
        let alphabet = Alphabet::new(&c.alphabet.0);
        ensure!(alphabet.len() == n, "harness: Alphabet::new kept {} of {} symbols", alphabet.len(), n);
        let ranks = RankTransform::new(&alphabet);
        let count = (text.len() + 1).saturating_sub(q);
        let fwd: Vec<usize> = ranks.qgrams(c.q, text).take(text.len() + 2).collect();
        ensure!(
            fwd.len() == count,
            "|A|={} q={} text {:?}: qgrams() yields {} codes, the text has {} q-grams",
            n, q, c.text, fwd.len(), count
        );
        // injective and well defined: equal codes <=> equal q-grams
        let mut by_code: BTreeMap<usize, &[u8]> = BTreeMap::new();
        let mut by_gram: BTreeMap<&[u8], usize> = BTreeMap::new();
        for (i, &code) in fwd.iter().enumerate() {
            let g = &text[i..i + q];
            if let Some(prev) = by_code.insert(code, g) {
                ensure!(
                    prev == g,
                    "|A|={} q={} text {:?}: q-grams {:?} and {:?} (position {}) share the code {}",
                    n, q, c.text, B(prev.to_vec()), B(g.to_vec()), i, code
                );
            }
            if let Some(prev) = by_gram.insert(g, code) {
                ensure!(
                    prev == code,
                    "|A|={} q={} text {:?}: q-gram {:?} got code {} and later (position {}) code {}",
                    n, q, c.text, B(g.to_vec()), prev, i, code
                );
            }
        }
        // a q-gram taken alone gets the same code as inside the text
        for (g, &code) in by_gram.iter().take(8) {
            let alone: Vec<usize> = ranks.qgrams(c.q, *g).take(3).collect();
            ensure!(
                alone == vec![code],
                "|A|={} q={}: q-gram {:?} alone has code(s) {:?}, inside text {:?} code {}",
                n, q, B(g.to_vec()), alone, c.text, code
            );
        }
        let mut rev: Vec<usize> = ranks.rev_qgrams(c.q, text).take(text.len() + 2).collect();
        rev.reverse();
        ensure!(
            rev == fwd,
            "|A|={} q={} text {:?}: rev_qgrams() reversed = {:?}, qgrams() = {:?}",
            n, q, c.text, rev, fwd
        );
        let distinct = by_gram.len();
        let mut pass = Pass::new(!n.is_power_of_two() && q >= 2 && distinct >= 2);
        pass.add_if(!n.is_power_of_two() && q >= 2, "|A| not a power of two, q>=2");
        pass.add_if(n == 1, "|A|=1");
        pass.add_if(n == 256, "|A|=256");
        pass.add_if(n.is_power_of_two() && n > 1, "|A| a power of two");
        pass.add_if(bits * c.q == usize::BITS, "q*bits = 64");
        pass.add_if(bits * c.q > 32 && bits * c.q < 64, "q*bits in 33..63");
        pass.add_if(q == 1, "q=1");
        pass.add_if(text.len() < q, "text shorter than q");
        pass.add_if(distinct < count, "repeated q-gram");
        pass.add_if(distinct >= 2, ">= 2 distinct q-grams");
        Ok(pass)
    }

    pub fn strat(_t: Tier) -> BoxedStrategy<Case> {
        alphabet_strat()
            .prop_flat_map(|alphabet| {
                let bits = bits_for(alphabet.len());
                let qmax = if bits == 0 { 70 } else { 64 / bits };
                let q = prop_oneof![
                    4 => 1u32..=qmax.min(6),
                    2 => Just(qmax),
                    1 => Just((qmax - 1).max(1)),
                    2 => 1u32..=qmax,
                ];
                (palette_strat(alphabet.clone()), Just(alphabet), q)
            })
            .prop_flat_map(|(palette, alphabet, q)| {
                // a lead of up to q+8 fresh symbols so that most texts have several q-grams
                let lead = proptest::collection::vec(any::<u16>(), 0..=(q as usize + 8)).prop_map(Piece::Rand);
                (Just(palette), Just(alphabet), Just(q), lead, proptest::collection::vec(piece(20), 0..=5))
            })
            .prop_map(|(palette, alphabet, q, lead, mut pieces)| {
                pieces.insert(0, lead);
                let text = assemble(&palette, &pieces, None, 100);
                Case { alphabet: B(alphabet), q, text: B(text) }
            })
            .boxed()
    }
}

// ===========================================================================
// QGramIndex

pub mod index {
    use super::*;
    use bio::alphabets::{Alphabet, RankTransform};
    use bio::data_structures::qgram_index::QGramIndex;

    #[derive(Serialize, Deserialize, Debug, Clone)]
    pub struct Case {
        pub alphabet: B,
        pub q: u32,
        /// None = no limit (QGramIndex::new); Some(c) = with_max_count(.., c)
        pub max_count: Option<usize>,
        pub min_count: usize,
        pub text: B,
        pub pattern: B,
        /// additional q-grams over the alphabet that are looked up
        pub probes: Vec<B>,
    }

    fn positions(g: &[u8], text: &[u8]) -> Vec<usize> {
        let q = g.len();
        (0..(text.len() + 1).saturating_sub(q)).filter(|&p| &text[p..p + q] == g).collect()
    }

    /// (pattern.start, pattern.stop, text.start, text.stop)
    type Iv = (usize, usize, usize, usize);

    pub fn check(c: &Case) -> R {
        let text: &[u8] = &c.text;
        let pattern: &[u8] = &c.pattern;
        let mut all: Vec<&[u8]> = vec![text, pattern];
        all.extend(c.probes.iter().map(|p| p.0.as_slice()));
        check_alphabet(&c.alphabet, &all)?;
        let n = c.alphabet.len();
        let bits = bits_for(n);
        let q = c.q as usize;
        ensure!(q >= 1 && bits * c.q <= 20, "harness: q={} with {} bits per symbol: table too large for this sub-check", q, bits);
        ensure!(c.min_count >= 1, "harness: min_count 0");
        ensure!(c.probes.iter().all(|p| p.len() == q), "harness: probe of the wrong length");
        let max_count = c.max_count.unwrap_or(usize::MAX);
        let alphabet = Alphabet::new(&c.alphabet.0);
        let ranks = RankTransform::new(&alphabet);
        let index = match c.max_count {
            None => QGramIndex::new(c.q, text, &alphabet),
            Some(mc) => QGramIndex::with_max_count(c.q, text, &alphabet, mc),
        };
        ensure!(index.q() == c.q, "q() = {} for an index built with q = {}", index.q(), c.q);
        let ctx = format!("|A|={} q={} max_count={:?} text {:?}", n, q, c.max_count, c.text);

        // ---- position lists: every q-gram of the text, of the pattern and the probes
        let mut grams: BTreeSet<&[u8]> = BTreeSet::new();
        for s in [text, pattern] {
            for i in 0..(s.len() + 1).saturating_sub(q) {
                grams.insert(&s[i..i + q]);
            }
        }
        for p in &c.probes {
            grams.insert(&p.0);
        }
        let mut exceeded = false;
        let mut code_of: BTreeMap<usize, &[u8]> = BTreeMap::new();
        for g in &grams {
            let code: Vec<usize> = ranks.qgrams(c.q, *g).take(3).collect();
            ensure!(code.len() == 1, "{}: qgrams() of the single q-gram {:?} yields {:?}", ctx, B(g.to_vec()), code);
            let code = code[0];
            if let Some(other) = code_of.insert(code, g) {
                ensure!(other == *g, "{}: q-grams {:?} and {:?} share the code {}", ctx, B(other.to_vec()), B(g.to_vec()), code);
            }
            let mut want = positions(g, text);
            if want.len() > max_count {
                exceeded = true;
                want.clear();
            }
            let got = index.qgram_matches(code).to_vec();
            ensure!(
                got == want,
                "{}: qgram_matches(code {} of {:?}) = {:?}, positions of the q-gram in the text: {:?}",
                ctx, code, B(g.to_vec()), got, want
            );
        }

        // ---- hits: pattern q-gram i equals text q-gram p and is not masked by max_count
        let np = (pattern.len() + 1).saturating_sub(q);
        let mut hits: Vec<(usize, usize)> = Vec::new();
        for i in 0..np {
            let pos = positions(&pattern[i..i + q], text);
            if pos.len() <= max_count {
                hits.extend(pos.into_iter().map(|p| (i, p)));
            }
        }
        let below = hits.iter().any(|&(i, p)| p < i);

        // ---- matches(pattern, min_count): per diagonal count and spans first..last hit
        let mut diag: BTreeMap<i64, (usize, usize, usize, usize, usize)> = BTreeMap::new();
        for &(i, p) in &hits {
            let d = p as i64 - i as i64;
            let e = diag.entry(d).or_insert((i, p, i, p, 0));
            e.2 = i;
            e.3 = p;
            e.4 += 1;
        }
        let mut want_m: Vec<(Iv, usize)> = diag
            .values()
            .filter(|e| e.4 >= c.min_count)
            .map(|e| ((e.0, e.2 + q, e.1, e.3 + q), e.4))
            .collect();
        want_m.sort();
        let mut got_m: Vec<(Iv, usize)> = index
            .matches(pattern, c.min_count)
            .iter()
            .map(|m| ((m.pattern.start, m.pattern.stop, m.text.start, m.text.stop), m.count))
            .collect();
        got_m.sort();
        ensure!(
            got_m == want_m,
            "{} pattern {:?}: matches(pattern, {}) = {:?} (pattern.start, pattern.stop, text.start, text.stop; count), expected per diagonal {:?}",
            ctx, c.pattern, c.min_count, got_m, want_m
        );

        // ---- exact_matches(pattern)
        let mut want_e: Vec<Iv> = Vec::new();
        let mut split_run = false;
        if c.max_count.is_none() {
            // maximal exact matches of length >= q, straight from the two sequences
            let (m, t) = (pattern.len() as i64, text.len() as i64);
            for d in -(m - 1).max(0)..t.max(1) {
                let mut i = (-d).max(0);
                let mut runs = 0;
                while i < m && i + d < t {
                    if pattern[i as usize] != text[(i + d) as usize] {
                        i += 1;
                        continue;
                    }
                    let st = i;
                    while i < m && i + d < t && pattern[i as usize] == text[(i + d) as usize] {
                        i += 1;
                    }
                    if (i - st) as usize >= q {
                        want_e.push((st as usize, i as usize, (st + d) as usize, (i + d) as usize));
                        runs += 1;
                    }
                }
                split_run |= runs >= 2;
            }
        } else {
            // with masked q-grams: maximal runs of consecutive hits on a diagonal
            let mut per: BTreeMap<i64, Vec<usize>> = BTreeMap::new();
            for &(i, p) in &hits {
                per.entry(p as i64 - i as i64).or_default().push(i);
            }
            for (d, is) in per {
                let mut k = 0;
                let mut runs = 0;
                while k < is.len() {
                    let st = is[k];
                    while k + 1 < is.len() && is[k + 1] == is[k] + 1 {
                        k += 1;
                    }
                    let en = is[k] + q;
                    want_e.push((st, en, (st as i64 + d) as usize, (en as i64 + d) as usize));
                    runs += 1;
                    k += 1;
                }
                split_run |= runs >= 2;
            }
        }
        want_e.sort();
        let mut got_e: Vec<Iv> = index
            .exact_matches(pattern)
            .iter()
            .map(|m| (m.pattern.start, m.pattern.stop, m.text.start, m.text.stop))
            .collect();
        got_e.sort();
        ensure!(
            got_e == want_e,
            "{} pattern {:?}: exact_matches = {:?} (pattern.start, pattern.stop, text.start, text.stop), expected the maximal matches {:?}",
            ctx, c.pattern, got_e, want_e
        );

        let npow2 = !n.is_power_of_two();
        let mut pass = Pass::new(npow2 && q >= 2 && !hits.is_empty());
        pass.add_if(npow2 && q >= 2, "|A| not a power of two, q>=2");
        pass.add_if(npow2 && q >= 2 && text.len() >= q, "|A| not a power of two, q>=2, non-empty index");
        pass.add_if(n == 1, "|A|=1");
        pass.add_if(n == 256, "|A|=256");
        pass.add_if(n == 37, "|A|=37");
        pass.add_if(n.is_power_of_two() && n > 1, "|A| a power of two");
        pass.add_if(exceeded, "max_count exceeded");
        pass.add_if(c.max_count == Some(0), "max_count=0");
        pass.add_if(c.max_count.is_some() && !exceeded && text.len() >= q, "max_count set, not exceeded");
        pass.add_if(below, "diagonal with text pos < pattern pos");
        pass.add_if(split_run, "two exact matches on one diagonal");
        pass.add_if(diag.values().any(|e| e.4 < e.2 - e.0 + 1), "matches: diagonal with a gap between hits");
        pass.add_if(diag.values().any(|e| e.4 < c.min_count), "min_count filters a diagonal");
        pass.add_if(diag.len() >= 3, ">= 3 diagonals with hits");
        pass.add_if(hits.is_empty(), "no hits");
        pass.add_if(!hits.is_empty(), "has hits");
        pass.add_if(pattern.len() < q, "pattern shorter than q");
        pass.add_if(text.len() < q, "text shorter than q");
        pass.add_if(text.is_empty(), "empty text");
        pass.add_if(q == 1, "q=1");
        pass.add_if(want_e.iter().any(|e| e.1 - e.0 > q), "exact match longer than q");
        Ok(pass)
    }

    pub fn strat(_t: Tier) -> BoxedStrategy<Case> {
        alphabet_strat()
            .prop_flat_map(|alphabet| {
                let n = alphabet.len();
                let bits = bits_for(n);
                // address table of 2^(q*bits) words: keep it <= 2^16
                let qmax = if bits == 0 { 6 } else { (16 / bits).min(6) };
                let q = prop_oneof![1 => Just(1u32), 4 => Just(2u32.min(qmax)), 3 => Just(3u32.min(qmax)), 2 => 1u32..=qmax];
                (Just(alphabet.clone()), palette_strat(alphabet), q)
            })
            .prop_flat_map(|(alphabet, palette, q)| {
                let n = alphabet.len();
                let a2 = alphabet.clone();
                let probe = proptest::collection::vec(prop_oneof![2 => any::<u16>(), 1 => Just(u16::MAX)], q as usize)
                    .prop_map(move |fr| B(fr.iter().map(|f| a2[idx(*f, n - 1)]).collect()));
                (
                    Just(alphabet),
                    Just(palette),
                    Just(q),
                    prop_oneof![6 => Just(None), 1 => Just(Some(0usize)), 3 => Just(Some(1usize)), 2 => Just(Some(2usize)), 1 => Just(Some(3usize))],
                    prop_oneof![3 => Just(1usize), 2 => Just(2usize), 1 => Just(3usize)],
                    // text: usually a fresh lead, then fresh pieces and copies of earlier stretches
                    (prop_oneof![1 => Just(0usize), 9 => 2usize..=12], proptest::collection::vec(piece(12), 0..=4)),
                    // pattern: stretches of the text and fresh symbols
                    proptest::collection::vec(prop_oneof![2 => piece(4), 3 => (any::<u16>(), 2u8..=10).prop_map(|(s, l)| Piece::Copy(s, l))], 0..=4),
                    proptest::collection::vec(probe, 0..=3),
                    proptest::collection::vec(any::<u16>(), 12),
                )
            })
            .prop_map(|(alphabet, palette, q, max_count, min_count, (lead, mut tp), pp, probes, lead_syms)| {
                tp.insert(0, Piece::Rand(lead_syms[..lead].to_vec()));
                let text = assemble(&palette, &tp, None, 40);
                let pattern = assemble(&palette, &pp, Some(&text), 16);
                Case { alphabet: B(alphabet), q, max_count, min_count, text: B(text), pattern: B(pattern), probes }
            })
            .boxed()
    }

    /// every (text, pattern) over a three-letter alphabet (not a power of two) up to the stated lengths, q = 2
    pub fn enumerate(t: Tier) -> Box<dyn Iterator<Item = Case>> {
        let (tl, pl) = match t {
            Tier::Quick => (5usize, 4usize),
            Tier::Thorough => (7, 5),
        };
        fn all(sigma: u8, max_len: usize) -> Vec<Vec<u8>> {
            let mut out = vec![vec![]];
            let mut cur: Vec<Vec<u8>> = vec![vec![]];
            for _ in 0..max_len {
                let mut next = Vec::new();
                for s in &cur {
                    for c in 0..sigma {
                        let mut x = s.clone();
                        x.push(b'a' + c);
                        next.push(x);
                    }
                }
                out.extend(next.iter().cloned());
                cur = next;
            }
            out
        }
        let texts = std::sync::Arc::new(all(3, tl));
        let pats = all(3, pl);
        Box::new(pats.into_iter().flat_map(move |p| {
            let texts = texts.clone();
            (0..texts.len()).map(move |i| Case {
                alphabet: B(b"abc".to_vec()),
                q: 2,
                max_count: if i % 3 == 2 { Some(1) } else { None },
                min_count: 1 + i % 2,
                text: B(texts[i].clone()),
                pattern: B(p.clone()),
                probes: vec![],
            })
        }))
    }
}

// ===========================================================================
// sparse: k-mer matches, LCSk++, sdpkpp, union path, expansion

pub mod sparse {
    use super::*;
    use bio::alignment::sparse::{
        expand_kmer_matches, find_kmer_matches, find_kmer_matches_seq1_hashed, find_kmer_matches_seq2_hashed, hash_kmers, lcskpp, sdpkpp,
        sdpkpp_union_lcskpp_path,
    };

    #[derive(Serialize, Deserialize, Debug, Clone)]
    pub struct Case {
        pub s1: B,
        pub s2: B,
        pub k: usize,
        /// the match list handed to the chaining functions: strictly sorted pairs (position in s1, position in s2)
        pub matches: Vec<(u32, u32)>,
        pub match_score: u32,
        pub gap_open: i32,
        pub gap_extend: i32,
        pub allowed_mismatches: usize,
    }

    pub fn true_matches(s1: &[u8], s2: &[u8], k: usize) -> Vec<(u32, u32)> {
        let mut v = Vec::new();
        if k == 0 || s1.len() < k || s2.len() < k {
            return v;
        }
        for i in 0..=(s1.len() - k) {
            for j in 0..=(s2.len() - k) {
                if s1[i..i + k] == s2[j..j + k] {
                    v.push((i as u32, j as u32));
                }
            }
        }
        v
    }

    /// textbook LCSk++ recurrence over the (sorted) match list, O(n^2)
    pub fn lcskpp_optimum(m: &[(u32, u32)], k: u32) -> u32 {
        let mut best = vec![0u32; m.len()];
        let mut opt = 0;
        for i in 0..m.len() {
            let (x, y) = m[i];
            let mut b = k;
            for j in 0..i {
                let (px, py) = m[j];
                if px + k <= x && py + k <= y {
                    b = b.max(best[j] + k);
                }
                if px + 1 == x && py + 1 == y {
                    b = b.max(best[j] + 1);
                }
            }
            best[i] = b;
            opt = opt.max(b);
        }
        opt
    }

    pub struct Chain {
        pub score: u32,
        pub jumps: usize,
        pub continuations: usize,
    }

    /// validity of a chain by the rule of the property; its LCSk++ score
    pub fn chain(m: &[(u32, u32)], path: &[usize], k: u32, what: &str, ctx: &str) -> Result<Chain, Stop> {
        let mut ch = Chain { score: 0, jumps: 0, continuations: 0 };
        for (n, &ix) in path.iter().enumerate() {
            ensure!(ix < m.len(), "{}: {} path {:?} has index {} but there are {} matches", ctx, what, path, ix, m.len());
            if n == 0 {
                ch.score += k;
                continue;
            }
            let (px, py) = m[path[n - 1]];
            let (x, y) = m[ix];
            let cont = x == px + 1 && y == py + 1;
            let jump = x >= px + k && y >= py + k;
            ensure!(
                cont || jump,
                "{}: {} path {:?}: match {:?} after {:?} neither continues it diagonally by one nor starts >= k={} later in both sequences",
                ctx, what, path, (x, y), (px, py), k
            );
            if cont {
                ch.score += 1;
                ch.continuations += 1;
            } else {
                ch.score += k;
                ch.jumps += 1;
            }
        }
        Ok(ch)
    }

    fn check_chains(c: &Case, m: &[(u32, u32)], label: &str, pass: &mut Pass) -> Result<(), Stop> {
        let k = c.k as u32;
        let ctx = format!("s1 {:?} s2 {:?} k={} {} matches {:?}", c.s1, c.s2, c.k, label, m);
        // LCSk++: valid, reported score = score of the path = optimum
        let r = lcskpp(m, c.k);
        let ch = chain(m, &r.path, k, "lcskpp", &ctx)?;
        let opt = lcskpp_optimum(m, k);
        ensure!(
            r.score == ch.score || (m.is_empty() && r.score == 0),
            "{}: lcskpp reports score {} but its path {:?} scores {} (k per start, +1 per continuation)",
            ctx, r.score, r.path, ch.score
        );
        ensure!(r.score == opt, "{}: lcskpp score {} (path {:?}), optimum by the quadratic recurrence {}", ctx, r.score, r.path, opt);
        if m.is_empty() {
            ensure!(r.path.is_empty(), "{}: lcskpp path {:?} over an empty match list", ctx, r.path);
        }
        pass.add_if(ch.jumps >= 1 && ch.continuations >= 1 && k >= 2, "lcskpp chain with >=1 jump and >=1 continuation");
        pass.add_if(ch.jumps >= 2, "lcskpp chain with >=2 jumps");
        if ch.jumps >= 1 && ch.continuations >= 1 && k >= 2 {
            pass.nontrivial = true;
        }
        // gap-penalised chain and the union path: valid chains
        let s = sdpkpp(m, c.k, c.match_score, c.gap_open, c.gap_extend);
        let what = format!("sdpkpp(match_score={}, gap_open={}, gap_extend={})", c.match_score, c.gap_open, c.gap_extend);
        chain(m, &s.path, k, &what, &ctx)?;
        pass.add_if(s.path != r.path, "sdpkpp path differs from the lcskpp path");
        let u = sdpkpp_union_lcskpp_path(m, c.k, c.match_score, c.gap_open, c.gap_extend);
        let what = format!("sdpkpp_union_lcskpp_path(match_score={}, gap_open={}, gap_extend={})", c.match_score, c.gap_open, c.gap_extend);
        chain(m, &u, k, &what, &ctx)?;
        pass.add_if(u.len() > s.path.len(), "union path longer than the sdpkpp path");
        Ok(())
    }

    pub fn check(c: &Case) -> R {
        let (s1, s2): (&[u8], &[u8]) = (&c.s1, &c.s2);
        let k = c.k;
        ensure!(k >= 1, "harness: k=0");
        ensure!(c.matches.windows(2).all(|w| w[0] < w[1]), "harness: match list {:?} not strictly sorted", c.matches);
        ensure!(c.gap_open <= 0 && c.gap_extend <= 0 && c.match_score >= 1, "harness: scoring outside the documented domain");
        let mut pass = Pass::new(false);

        // ---- k-mer match finding
        let truth = true_matches(s1, s2, k);
        let ctx = format!("s1 {:?} s2 {:?} k={}", c.s1, c.s2, k);
        let got = find_kmer_matches(s1, s2, k);
        ensure!(got == truth, "{}: find_kmer_matches = {:?}, all equal k-mer pairs sorted = {:?}", ctx, got, truth);
        let h1 = hash_kmers(s1, k);
        let got = find_kmer_matches_seq1_hashed(&h1, s2, k);
        ensure!(got == truth, "{}: find_kmer_matches_seq1_hashed = {:?}, all equal k-mer pairs sorted = {:?}", ctx, got, truth);
        let h2 = hash_kmers(s2, k);
        let got = find_kmer_matches_seq2_hashed(s1, &h2, k);
        ensure!(got == truth, "{}: find_kmer_matches_seq2_hashed = {:?}, all equal k-mer pairs sorted = {:?}", ctx, got, truth);

        // ---- chaining over the given list
        let m = &c.matches;
        let truth_set: BTreeSet<(u32, u32)> = truth.iter().copied().collect();
        let all_exact = m.iter().all(|p| truth_set.contains(p));
        let in_range = m.iter().all(|&(x, y)| x as usize + k <= s1.len() && y as usize + k <= s2.len());
        check_chains(c, m, "given", &mut pass)?;

        // ---- expansion, and chaining over the expanded list
        if in_range {
            let e = expand_kmer_matches(s1, s2, k, m, c.allowed_mismatches);
            let ectx = format!("{} allowed_mismatches={} matches {:?}: expand_kmer_matches = {:?}", ctx, c.allowed_mismatches, m, e);
            ensure!(e.windows(2).all(|w| w[0] < w[1]), "{}: not strictly sorted", ectx);
            let eset: BTreeSet<(u32, u32)> = e.iter().copied().collect();
            ensure!(m.iter().all(|p| eset.contains(p)), "{}: an input match is missing", ectx);
            for &(x, y) in &e {
                ensure!(x as usize + k <= s1.len() && y as usize + k <= s2.len(), "{}: ({}, {}) does not leave room for a k-mer", ectx, x, y);
                if all_exact {
                    let mm = (0..k).filter(|&d| s1[x as usize + d] != s2[y as usize + d]).count();
                    ensure!(
                        mm <= c.allowed_mismatches,
                        "{}: k-mers at ({}, {}) differ in {} positions although all input matches are exact",
                        ectx, x, y, mm
                    );
                }
            }
            check_chains(c, &e, "expanded", &mut pass)?;
            pass.add_if(e.len() > m.len(), "expansion added matches");
            pass.add_if(e.len() > m.len() && c.allowed_mismatches >= 1 && !e.iter().all(|p| truth_set.contains(p)), "expansion added inexact matches");
            pass.add_if(c.allowed_mismatches == 0, "allowed_mismatches=0");
        }

        pass.add_if(m.is_empty(), "empty match list");
        pass.add_if(!m.is_empty() && *m == truth, "the true match list");
        pass.add_if(all_exact && m.len() < truth.len(), "proper subset of the true matches");
        pass.add_if(!all_exact && in_range, "arbitrary in-range pairs");
        pass.add_if(!in_range, "pairs outside the sequences (chaining only)");
        pass.add_if(k == 1, "k=1");
        pass.add_if(k > s1.len().min(s2.len()), "k longer than a sequence");
        pass.add_if(s1.is_empty() || s2.is_empty(), "empty sequence");
        pass.add_if(s1.len() < s2.len(), "s1 shorter (seq1 hashed)");
        pass.add_if(truth.len() >= 20, ">= 20 true matches");
        pass.add_if(c.gap_open == 0 && c.gap_extend == 0, "no gap penalty");
        Ok(pass)
    }

    #[derive(Debug, Clone)]
    enum Src {
        True,
        /// keep mask, cycled over the true list
        Subset(Vec<bool>),
        /// fractions mapped to in-range positions
        InRange(Vec<(u16, u16)>),
        /// arbitrary coordinates
        Free(Vec<(u8, u8)>),
    }

    pub fn strat(_t: Tier) -> BoxedStrategy<Case> {
        let seqs = (1u8..=4, 0usize..6).prop_flat_map(|(sigma, mode)| {
            let len = || prop_oneof![1 => 0usize..=3, 7 => 4usize..=30];
            let s1 = len().prop_flat_map(move |l| gen::seq(sigma, b'a', l));
            match mode {
                0 => (s1, len().prop_flat_map(move |l| gen::seq(sigma, b'a', l))).boxed(),
                _ => (s1, proptest::collection::vec(gen::edit(sigma, b'a'), 0..=4), any::<u16>(), any::<u16>(), gen::seq(sigma, b'a', 0..=5))
                    .prop_map(move |(s1, ed, a, b, flank)| {
                        // the other sequence = flank + an edited stretch of s1 (so that diagonals with
                        // continuations and jumps exist); which of the two is longer varies
                        let (mut i, mut j) = (idx(a, s1.len()), idx(b, s1.len()));
                        if i > j {
                            std::mem::swap(&mut i, &mut j);
                        }
                        if mode >= 4 {
                            i = 0;
                            j = s1.len();
                        }
                        let mut s2 = flank;
                        s2.extend(gen::apply_edits(&s1[i..j], &ed));
                        s2.truncate(30);
                        if mode % 2 == 0 {
                            (s2, s1)
                        } else {
                            (s1, s2)
                        }
                    })
                    .boxed(),
            }
        });
        let k = prop_oneof![2 => Just(1usize), 4 => Just(2usize), 4 => Just(3usize), 2 => Just(4usize), 1 => Just(5usize), 1 => 6usize..=8];
        let src = prop_oneof![
            4 => Just(Src::True),
            3 => proptest::collection::vec(any::<bool>(), 1..=40).prop_map(Src::Subset),
            2 => proptest::collection::vec((any::<u16>(), any::<u16>()), 0..=25).prop_map(Src::InRange),
            1 => proptest::collection::vec((0u8..=40, 0u8..=40), 0..=25).prop_map(Src::Free),
        ];
        (seqs, k, src, 1u32..=3, -4i32..=0, -2i32..=0, 0usize..=3)
            .prop_map(|((s1, s2), k, src, match_score, gap_open, gap_extend, allowed_mismatches)| {
                let truth = true_matches(&s1, &s2, k);
                let mut matches: Vec<(u32, u32)> = match src {
                    Src::True => truth,
                    Src::Subset(mask) => truth.into_iter().enumerate().filter(|(i, _)| mask[i % mask.len()]).map(|(_, p)| p).collect(),
                    Src::InRange(fr) => {
                        if s1.len() >= k && s2.len() >= k {
                            fr.iter().map(|&(a, b)| (idx(a, s1.len() - k) as u32, idx(b, s2.len() - k) as u32)).collect()
                        } else {
                            vec![]
                        }
                    }
                    Src::Free(v) => v.into_iter().map(|(a, b)| (a as u32, b as u32)).collect(),
                };
                matches.sort_unstable();
                matches.dedup();
                Case { s1: B(s1), s2: B(s2), k, matches, match_score, gap_open, gap_extend, allowed_mismatches }
            })
            .boxed()
    }
}

pub fn property() -> Property {
    Property {
        id: "C19",
        rule: "alphabets of 1..=9, 16, 37 and 256 symbols (letters in rank order or arbitrary bytes in arbitrary order), sequences assembled from fresh symbols (whole alphabet or a palette of 1-4 of its letters) and copies of earlier stretches. codes: q up to the word limit q*ceil(log2|A|) <= 64, qgrams() count, equal code <=> equal q-gram, rev_qgrams() reversed = qgrams(). index: q*ceil(log2|A|) <= 16, text 0..=40, pattern 0..=16 built from stretches of the text, max_count in {none,0,1,2,3}, min_count 1..=3; qgram_matches for every q-gram of text, pattern and random probes against a naive scan (empty when more than max_count); matches() against per-diagonal first/last hit and hit count; exact_matches() against maximal equal runs of length >= q on every diagonal (with max_count: maximal runs of unmasked hits); compared as sorted lists. Plus every (text <= 5, pattern <= 4) over {a,b,c} with q = 2. sparse: pairs over 1..=4 letters, length 0..=30 (independent or edited stretch), k 1..=8; find_kmer_matches and both prehashed variants = naive sorted pair list; match lists = the true list, subsets, arbitrary strictly sorted pairs; lcskpp path valid by the chain rule, reported score = path score = optimum of the quadratic LCSk++ recurrence; sdpkpp and union path valid chains; expand_kmer_matches (in-range lists) strictly sorted, superset, in range, within allowed_mismatches when the seeds are exact, and all chain checks again on the expanded list. Non-trivial = codes/index: |A| not a power of two, q >= 2 and >= 2 distinct q-grams / >= 1 hit; sparse: an optimal chain with >= 1 jump and >= 1 continuation (k >= 2). Distinct = distinct serialised cases.",
        assumptions: &[
            "texts, patterns and probes are over the alphabet the index was built with (other symbols are documented to panic)",
            "q >= 1 and q*ceil(log2|A|) <= 64 (asserted by qgrams); for the index q*ceil(log2|A|) <= 16 because the address table has 2^(q*bits) words",
            "min_count >= 1; with max_count set, matches/exact_matches are specified over the unmasked q-gram hits",
            "match lists are strictly sorted (lcskpp/sdpkpp/expand assert matches[i-1] < matches[i], so duplicates are outside the contract); expand_kmer_matches only gets pairs that leave room for a k-mer in both sequences",
            "match_score >= 1, gap_open <= 0, gap_extend <= 0",
        ],
        subs: vec![
            Box::new(PropSub {
                name: "C19/codes",
                quick: 360_000,
                thorough: 3_000_000,
                shards_quick: 16,
                shards_thorough: 16,
                strat: codes::strat,
                check: codes::check,
                must_reach: &["|A| not a power of two, q>=2", "|A|=1", "|A|=256", "q*bits = 64", "repeated q-gram"],
                watch: false,
            }),
            Box::new(PropSub {
                name: "C19/index",
                quick: 360_000,
                thorough: 4_000_000,
                shards_quick: 16,
                shards_thorough: 16,
                strat: index::strat,
                check: index::check,
                must_reach: &[
                    "|A| not a power of two, q>=2, non-empty index",
                    "|A|=1",
                    "|A|=256",
                    "|A|=37",
                    "max_count exceeded",
                    "diagonal with text pos < pattern pos",
                    "two exact matches on one diagonal",
                    "matches: diagonal with a gap between hits",
                    "min_count filters a diagonal",
                ],
                watch: false,
            }),
            Box::new(ExhSub { name: "C19/index-abc-q2", enumerate: index::enumerate, check: index::check, must_reach: &["diagonal with text pos < pattern pos"] }),
            Box::new(PropSub {
                name: "C19/sparse",
                quick: 200_000,
                thorough: 2_000_000,
                shards_quick: 16,
                shards_thorough: 16,
                strat: sparse::strat,
                check: sparse::check,
                must_reach: &[
                    "lcskpp chain with >=1 jump and >=1 continuation",
                    "empty match list",
                    "the true match list",
                    "proper subset of the true matches",
                    "arbitrary in-range pairs",
                    "expansion added matches",
                    "sdpkpp path differs from the lcskpp path",
                ],
                watch: false,
            }),
        ],
    }
}
