//! Fourth layer of sub-checks: *how* the caller uses the API rather than *what* it passes.
//!
//! * `CNN/iterator-protocol` — every iterator the library hands out is driven by a generated script of
//!   std `Iterator` calls (next, nth, skip, step_by, size_hint, by_ref().take, count, last, fold) on a
//!   possibly half-consumed iterator and compared with the sequence it stands for (oracle: the Vec the
//!   other sub-checks of the property establish — naive scan, Vec model — or, where the order of items
//!   is the implementation's choice, the plain `next()` sequence of a second iterator over the same
//!   query, whose contents those other sub-checks decide).
//! * `CNN/aliased-arguments` — functions taking two sequences get two views of *one* buffer (same start,
//!   nested, overlapping, adjacent): "for any two sequences" includes sequences that share memory.

use crate::engine::gen::idx;
use crate::engine::*;
use crate::oracles::itproto::{drive, drive_cl, drive_pair, script_strategy, ItOp};
use crate::{ensure, fail};
use proptest::prelude::*;
use serde::{Deserialize, Serialize};

fn proto_classes(pass: &mut Pass, script: &[ItOp], positional_after_advance: bool, items: usize) {
    pass.add_if(positional_after_advance, "nth/skip/step_by on an already advanced iterator");
    let advanced_before = |pred: &dyn Fn(&ItOp) -> bool| {
        let mut adv = false;
        for o in script {
            if pred(o) && adv {
                return true;
            }
            if matches!(o, ItOp::Next | ItOp::Nth(_)) || matches!(o, ItOp::TakeRef(n) if *n > 0) {
                adv = true;
            }
        }
        false
    };
    pass.add_if(advanced_before(&|o| matches!(o, ItOp::Count | ItOp::Last | ItOp::Fold)), "count/last/fold after next()");
    pass.add_if(script.iter().any(|o| matches!(o, ItOp::Hint)), "size_hint observed");
    pass.add_if(script.iter().any(|o| matches!(o, ItOp::StepBy(n) if *n >= 2)), "step_by(>=2)");
    pass.add_if(items >= 3, "sequence of 3 or more items");
    let mut adv = false;
    for o in script {
        if matches!(o, ItOp::Skip(_) | ItOp::StepBy(_)) {
            break;
        }
        if matches!(o, ItOp::CloneRest) && adv {
            pass.add("clone() of an already advanced iterator drained");
            break;
        }
        if matches!(o, ItOp::Next | ItOp::Nth(_)) || matches!(o, ItOp::TakeRef(n) if *n > 0) {
            adv = true;
        }
    }
}

fn views(buf: &[u8], r: &[u16; 4]) -> ((usize, usize), (usize, usize)) {
    let n = buf.len();
    let mut a = (idx(r[0], n), idx(r[1], n));
    let mut b = (idx(r[2], n), idx(r[3], n));
    if a.0 > a.1 {
        a = (a.1, a.0);
    }
    if b.0 > b.1 {
        b = (b.1, b.0);
    }
    (a, b)
}

/// the four u16 fractions select two sub-ranges; `same_start` forces both views to begin at the same address
fn alias_ranges() -> BoxedStrategy<([u16; 4], bool)> {
    (any::<[u16; 4]>(), prop_oneof![2 => Just(true), 3 => Just(false)]).boxed()
}

fn alias_views(buf: &[u8], r: &([u16; 4], bool)) -> ((usize, usize), (usize, usize)) {
    let (a, mut b) = views(buf, &r.0);
    if r.1 {
        let len = b.1 - b.0;
        b = (a.0, (a.0 + len).min(buf.len()));
    }
    (a, b)
}

fn alias_classes(pass: &mut Pass, a: (usize, usize), b: (usize, usize)) {
    let (la, lb) = (a.1 - a.0, b.1 - b.0);
    pass.add_if(a.0 == b.0 && la != lb && la > 0 && lb > 0, "same start address, different lengths");
    pass.add_if(a == b && la > 0, "the very same slice twice");
    pass.add_if(a.0 < b.1 && b.0 < a.1 && a != b, "overlapping views");
    pass.add_if(a.1 == b.0 || b.1 == a.0, "adjacent views");
}

// ---------------------------------------------------------------------------------------------
// C08: the five matchers' find_all iterators
pub mod c08_proto {
    use super::*;
    use crate::oracles::naive_find;
    use bio::pattern_matching::{bndm::BNDM, bom::BOM, horspool::Horspool, kmp::KMP, shift_and::ShiftAnd};

    #[derive(Serialize, Deserialize, Debug, Clone)]
    pub struct Case {
        pub pattern: B,
        pub text: B,
        pub script: Vec<ItOp>,
    }

    pub fn check(c: &Case) -> R {
        let (p, t): (&[u8], &[u8]) = (&c.pattern, &c.text);
        ensure!(!p.is_empty() && p.len() <= 64, "harness: pattern length {}", p.len());
        let want = naive_find(p, t);
        let ctx = |name: &str| format!("{} find_all(pattern {:?}, text {:?})", name, lossy(p), lossy(t));
        let mut paa = false;
        let mut run = |r: Result<crate::oracles::itproto::Outcome, String>| -> Result<(), Stop> {
            match r {
                Ok(o) => {
                    paa |= o.positional_after_advance;
                    Ok(())
                }
                Err(e) => Err(Stop::Fail(e)),
            }
        };
        let sa = ShiftAnd::new(p);
        run(drive_cl(&ctx("ShiftAnd"), sa.find_all(t), want.clone(), |x| x, &c.script))?;
        let bn = BNDM::new(p);
        run(drive_cl(&ctx("BNDM"), bn.find_all(t), want.clone(), |x| x, &c.script))?;
        let bom = BOM::new(p);
        run(drive_cl(&ctx("BOM"), bom.find_all(t), want.clone(), |x| x, &c.script))?;
        let hp = Horspool::new(p);
        run(drive_cl(&ctx("Horspool"), hp.find_all(t), want.clone(), |x| x, &c.script))?;
        let kmp = KMP::new(p);
        run(drive_cl(&ctx("KMP"), kmp.find_all(t), want.clone(), |x| x, &c.script))?;
        // two searches with one matcher object alive at the same time (the text and the reversed text)
        let t2: Vec<u8> = t.iter().rev().copied().collect();
        let want2 = naive_find(p, &t2);
        let order: Vec<bool> = c.script.iter().map(|o| matches!(o, ItOp::Nth(_) | ItOp::Skip(_) | ItOp::Hint | ItOp::Count)).collect();
        let id = |x: usize| x;
        drive_pair(&ctx("ShiftAnd (and its reversed text)"), sa.find_all(t), want.clone(), id, sa.find_all(&t2[..]), want2.clone(), id, &order).map_err(Stop::Fail)?;
        drive_pair(&ctx("BNDM (and its reversed text)"), bn.find_all(t), want.clone(), id, bn.find_all(&t2[..]), want2.clone(), id, &order).map_err(Stop::Fail)?;
        drive_pair(&ctx("BOM (and its reversed text)"), bom.find_all(t), want.clone(), id, bom.find_all(&t2[..]), want2.clone(), id, &order).map_err(Stop::Fail)?;
        drive_pair(&ctx("Horspool (and its reversed text)"), hp.find_all(t), want.clone(), id, hp.find_all(&t2[..]), want2.clone(), id, &order).map_err(Stop::Fail)?;
        drive_pair(&ctx("KMP (and its reversed text)"), kmp.find_all(t), want.clone(), id, kmp.find_all(&t2[..]), want2.clone(), id, &order).map_err(Stop::Fail)?;
        let overlap = want.windows(2).any(|w| w[1] - w[0] < p.len());
        let mut pass = Pass::new(want.len() >= 2);
        proto_classes(&mut pass, &c.script, paa, want.len());
        pass.add_if(!want.is_empty() && !want2.is_empty() && order.iter().any(|&b| b) && order.iter().any(|&b| !b), "two live iterators of one matcher, both with occurrences, interleaved");
        pass.add_if(overlap, "overlapping occurrences");
        Ok(pass)
    }

    pub fn strat(_t: Tier) -> BoxedStrategy<Case> {
        (1u8..=3, 1usize..=4, 0usize..=24)
            .prop_flat_map(|(sigma, m, n)| (gen::seq(sigma, b'a', m), gen::seq(sigma, b'a', n), script_strategy(8)))
            .prop_map(|(pattern, text, script)| Case { pattern: B(pattern), text: B(text), script })
            .boxed()
    }
}

// ---------------------------------------------------------------------------------------------
// C18: BitEnc::iter and SmallInts::iter
pub mod c18_proto {
    use super::*;
    use bio::data_structures::bitenc::BitEnc;
    use bio::data_structures::smallints::SmallInts;

    #[derive(Serialize, Deserialize, Debug, Clone)]
    pub struct Case {
        pub width: u8,
        pub values: Vec<u8>,
        /// values for SmallInts<u8, u64>: small, equal to the small maximum, larger
        pub ints: Vec<u64>,
        pub script: Vec<ItOp>,
    }

    pub fn check(c: &Case) -> R {
        let w = c.width as usize;
        ensure!((1..=8).contains(&w), "harness: width {}", w);
        let mask = ((1u16 << w) - 1) as u8;
        let mut be = BitEnc::new(w);
        for &v in &c.values {
            be.push(v);
        }
        let model: Vec<u8> = c.values.iter().map(|v| v & mask).collect();
        let o1 = drive_cl(&format!("BitEnc(width {}) holding {:?}: iter()", w, model), be.iter(), model.clone(), |x| x, &c.script).map_err(Stop::Fail)?;
        let mut si: SmallInts<u8, u64> = SmallInts::new();
        for &v in &c.ints {
            si.push(v);
        }
        let o2 = drive_cl(&format!("SmallInts<u8,u64> holding {:?}: iter()", c.ints), si.iter(), c.ints.clone(), |x| x, &c.script).map_err(Stop::Fail)?;
        let mut pass = Pass::new(model.len() >= 2 || c.ints.len() >= 2);
        proto_classes(&mut pass, &c.script, o1.positional_after_advance || o2.positional_after_advance, model.len().max(c.ints.len()));
        pass.add_if(model.len() > 32 / w, "BitEnc spans several blocks");
        pass.add_if(c.ints.iter().any(|&v| v >= 255), "SmallInts holds big values");
        Ok(pass)
    }

    pub fn strat(_t: Tier) -> BoxedStrategy<Case> {
        let int = prop_oneof![3 => 0u64..=254, 1 => Just(255u64), 2 => 256u64..=1000, 1 => any::<u64>()];
        (1u8..=8, proptest::collection::vec(any::<u8>(), 0..=40), proptest::collection::vec(int, 0..=20), script_strategy(8)).prop_map(|(width, values, ints, script)| Case { width, values, ints, script }).boxed()
    }
}

// ---------------------------------------------------------------------------------------------
// C20: ORF finder; C19: q-gram code iterators
pub mod c20_proto {
    use super::*;
    use bio::seq_analysis::orf::{Finder, Orf};

    #[derive(Serialize, Deserialize, Debug, Clone)]
    pub struct Case {
        pub seq: B,
        pub min_len: usize,
        pub script: Vec<ItOp>,
    }

    pub fn check(c: &Case) -> R {
        let seq: &[u8] = &c.seq;
        let starts: Vec<&[u8; 3]> = vec![b"ATG"];
        let stops: Vec<&[u8; 3]> = vec![b"TAA", b"TAG", b"TGA"];
        let finder = Finder::new(starts, stops, c.min_len);
        // the sequence of ORFs itself is decided by C20/orf; here: every way of consuming the iterator gives that sequence
        let plain: Vec<Orf> = finder.find_all(seq).take(seq.len() + 2).collect();
        ensure!(plain.len() <= seq.len(), "find_all on {:?} does not end", lossy(seq));
        let key = |o: Orf| (o.start, o.end, o.offset);
        let model: Vec<(usize, usize, i8)> = plain.iter().map(|o| (o.start, o.end, o.offset)).collect();
        let o = drive_cl(&format!("orf::Finder(min_len {}).find_all({:?})", c.min_len, lossy(seq)), finder.find_all(seq), model.clone(), key, &c.script).map_err(Stop::Fail)?;
        let cut = seq.len() / 3;
        drive(&format!("orf::Finder(min_len {}).find_all({:?} as a chain of a slice and a filtered slice)", c.min_len, lossy(seq)), finder.find_all(seq[..cut].iter().chain(seq[cut..].iter().filter(|_| true))), model.clone(), key, &c.script).map_err(Stop::Fail)?;
        let mut pass = Pass::new(model.len() >= 2);
        proto_classes(&mut pass, &c.script, o.positional_after_advance, model.len());
        Ok(pass)
    }

    pub fn strat(_t: Tier) -> BoxedStrategy<Case> {
        let piece = prop_oneof![3 => Just(&b"ATG"[..]), 2 => Just(&b"TAA"[..]), 1 => Just(&b"TGA"[..]), 3 => Just(&b"CCC"[..]), 1 => Just(&b"G"[..]), 1 => Just(&b"AT"[..])];
        (proptest::collection::vec(piece, 0..=16), prop_oneof![Just(0usize), Just(6), Just(9)], script_strategy(8))
            .prop_map(|(pieces, min_len, script)| Case { seq: B(pieces.concat()), min_len, script })
            .boxed()
    }
}

pub mod c19_proto {
    use super::*;
    use bio::alphabets::{Alphabet, RankTransform};

    #[derive(Serialize, Deserialize, Debug, Clone)]
    pub struct Case {
        pub text: B,
        pub q: u32,
        pub script: Vec<ItOp>,
    }

    pub fn check(c: &Case) -> R {
        let text: &[u8] = &c.text;
        let alphabet = Alphabet::new(b"ACGT");
        let ranks = RankTransform::new(&alphabet);
        let q = c.q;
        ensure!((1..=8).contains(&q), "harness: q={}", q);
        // expected codes from the definition: sum of rank * 4^(q-1-i) needs 2 bits per symbol
        let rank = |b: u8| b"ACGT".iter().position(|&x| x == b).unwrap();
        let codes: Vec<usize> = if text.len() >= q as usize { text.windows(q as usize).map(|w| w.iter().fold(0usize, |acc, &b| (acc << 2) | rank(b))).collect() } else { Vec::new() };
        let o1 = drive_cl(&format!("RankTransform(ACGT).qgrams({}, {:?})", q, lossy(text)), ranks.qgrams(q, text), codes.clone(), |x| x, &c.script).map_err(Stop::Fail)?;
        let mut rev = codes.clone();
        rev.reverse();
        let o2 = drive_cl(&format!("RankTransform(ACGT).rev_qgrams({}, {:?})", q, lossy(text)), ranks.rev_qgrams(q, text), rev, |x| x, &c.script).map_err(Stop::Fail)?;
        // the text as an iterator whose size_hint is only a partial lower bound (a slice chained with a filtered slice)
        let cut = text.len() / 3;
        let o3 = drive(&format!("RankTransform(ACGT).qgrams({}, {:?} as a chain of a slice and a filtered slice)", q, lossy(text)), ranks.qgrams(q, text[..cut].iter().chain(text[cut..].iter().filter(|_| true))), codes.clone(), |x| x, &c.script).map_err(Stop::Fail)?;
        let _ = o3;
        // ExactSizeIterator::len
        let mut it = ranks.qgrams(q, text);
        let mut left = codes.len();
        loop {
            ensure!(it.len() == left, "qgrams({}, {:?}).len() = {} with {} codes left", q, lossy(text), it.len(), left);
            if it.next().is_none() {
                break;
            }
            left -= 1;
        }
        let mut pass = Pass::new(codes.len() >= 2);
        proto_classes(&mut pass, &c.script, o1.positional_after_advance || o2.positional_after_advance, codes.len());
        pass.add_if(text.len() < q as usize, "text shorter than q");
        Ok(pass)
    }

    pub fn strat(_t: Tier) -> BoxedStrategy<Case> {
        (proptest::collection::vec(proptest::sample::select(b"ACGT".to_vec()), 0..=20), 1u32..=5, script_strategy(8)).prop_map(|(text, q, script)| Case { text: B(text), q, script }).boxed()
    }
}

// ---------------------------------------------------------------------------------------------
// C01 / C09: two views of one buffer
pub mod c01_alias {
    use super::*;
    use crate::oracles::align::{Mode, ScoreSpec};
    use crate::props::c01;
    use bio::alignment::pairwise::Aligner;

    #[derive(Serialize, Deserialize, Debug, Clone)]
    pub struct Case {
        pub spec: ScoreSpec,
        pub mode: Mode,
        pub buf: B,
        pub ranges: ([u16; 4], bool),
    }

    pub fn check(c: &Case) -> R {
        let (a, b) = alias_views(&c.buf, &c.ranges);
        let (x, y): (&[u8], &[u8]) = (&c.buf[a.0..a.1], &c.buf[b.0..b.1]);
        let mut al = Aligner::with_scoring(c.spec.scoring(false));
        let got = match c.mode {
            Mode::Custom => al.custom(x, y),
            Mode::Global => al.global(x, y),
            Mode::Semiglobal => al.semiglobal(x, y),
            Mode::Local => al.local(x, y),
        };
        let call = c01::Call { mode: c.mode, x: B(x.to_vec()), y: B(y.to_vec()) };
        c01::check_alignment(&format!("x = buffer[{}..{}], y = buffer[{}..{}] of one buffer", a.0, a.1, b.0, b.1), &got, &call, &c.spec)?;
        let mut pass = Pass::new(!x.is_empty() && !y.is_empty());
        alias_classes(&mut pass, a, b);
        Ok(pass)
    }

    pub fn strat(_t: Tier) -> BoxedStrategy<Case> {
        (1u8..=3).prop_flat_map(|sigma| (c01::spec(sigma), c01::mode(), gen::seq(sigma, b'a', 0..=14), alias_ranges())).prop_map(|(spec, mode, buf, ranges)| Case { spec, mode, buf: B(buf), ranges }).boxed()
    }
}

pub mod c02_alias {
    use super::*;
    use crate::props::{c01, c02};

    pub fn strat(_t: Tier) -> BoxedStrategy<c02::Case> {
        (1u8..=3)
            .prop_flat_map(|sigma| (c01::spec(sigma), c02::entry(), gen::seq(sigma, b'a', 0..=26), alias_ranges(), 1usize..=4, 0usize..=6, any::<bool>()))
            .prop_map(|(spec, entry, buf, ranges, k, w, with_match_scores)| {
                let (a, b) = alias_views(&buf, &ranges);
                let call = c02::BCall { entry, x: B(buf[a.0..a.1].to_vec()), y: B(buf[b.0..b.1].to_vec()), shared: Some(c02::Shared { buf: B(buf), x: a, y: b }) };
                c02::Case { spec, with_match_scores, k, w, history: Vec::new(), call }
            })
            .boxed()
    }
}

pub mod c19_alias {
    use super::*;
    use crate::props::c19;
    use bio::alignment::sparse::{find_kmer_matches, find_kmer_matches_seq1_hashed, find_kmer_matches_seq2_hashed, hash_kmers};

    #[derive(Serialize, Deserialize, Debug, Clone)]
    pub struct Case {
        pub buf: B,
        pub ranges: ([u16; 4], bool),
        pub k: usize,
    }

    pub fn check(c: &Case) -> R {
        let (a, b) = alias_views(&c.buf, &c.ranges);
        let (s1, s2): (&[u8], &[u8]) = (&c.buf[a.0..a.1], &c.buf[b.0..b.1]);
        ensure!(c.k >= 1, "harness: k=0");
        let truth = c19::sparse::true_matches(&s1.to_vec(), &s2.to_vec(), c.k);
        let ctx = format!("s1 = buffer[{}..{}] = {:?}, s2 = buffer[{}..{}] = {:?} (views of one buffer), k={}", a.0, a.1, lossy(s1), b.0, b.1, lossy(s2), c.k);
        let got = find_kmer_matches(s1, s2, c.k);
        ensure!(got == truth, "{}: find_kmer_matches = {:?}, all equal k-mer pairs sorted = {:?}", ctx, got, truth);
        let h1 = hash_kmers(s1, c.k);
        let got = find_kmer_matches_seq1_hashed(&h1, s2, c.k);
        ensure!(got == truth, "{}: find_kmer_matches_seq1_hashed = {:?}, all equal k-mer pairs sorted = {:?}", ctx, got, truth);
        let h2 = hash_kmers(s2, c.k);
        let got = find_kmer_matches_seq2_hashed(s1, &h2, c.k);
        ensure!(got == truth, "{}: find_kmer_matches_seq2_hashed = {:?}, all equal k-mer pairs sorted = {:?}", ctx, got, truth);
        // the prehashed argument is a public map type: one whose position lists are in another order (filled
        // right to left, merged from chunks) describes the same k-mers; the result is "the sorted set" all the same
        let mut r1 = hash_kmers(s1, c.k);
        for v in r1.values_mut() {
            v.reverse();
        }
        let got = find_kmer_matches_seq1_hashed(&r1, s2, c.k);
        ensure!(got == truth, "{}: find_kmer_matches_seq1_hashed with a map whose position lists are descending = {:?}, all equal k-mer pairs sorted = {:?}", ctx, got, truth);
        let mut r2 = hash_kmers(s2, c.k);
        for v in r2.values_mut() {
            v.reverse();
        }
        let got = find_kmer_matches_seq2_hashed(s1, &r2, c.k);
        ensure!(got == truth, "{}: find_kmer_matches_seq2_hashed with a map whose position lists are descending = {:?}, all equal k-mer pairs sorted = {:?}", ctx, got, truth);
        let mut pass = Pass::new(!truth.is_empty());
        alias_classes(&mut pass, a, b);
        pass.add_if(r2.values().any(|v| v.len() >= 2) && !truth.is_empty(), "caller-ordered map with a repeated k-mer");
        pass.add_if(s1.is_empty() || s2.is_empty(), "empty view");
        Ok(pass)
    }

    pub fn strat(_t: Tier) -> BoxedStrategy<Case> {
        (1u8..=4).prop_flat_map(|sigma| (gen::seq(sigma, b'a', 0..=40), alias_ranges(), 1usize..=5)).prop_map(|(buf, ranges, k)| Case { buf: B(buf), ranges, k }).boxed()
    }
}

pub mod c09_alias {
    use super::*;
    use crate::props::c09;

    #[derive(Serialize, Deserialize, Debug, Clone)]
    pub struct Case {
        pub buf: B,
        pub ranges: ([u16; 4], bool),
        pub bound: u32,
    }

    pub fn check(c: &Case) -> R {
        let (a, b) = alias_views(&c.buf, &c.ranges);
        // DistCase carries owned copies (the reference values); the library is called on the views here
        let (x, y): (&[u8], &[u8]) = (&c.buf[a.0..a.1], &c.buf[b.0..b.1]);
        c09::check_dist_views(x, y, c.bound).map_err(|e| match e {
            Stop::Fail(m) => Stop::Fail(format!("a = buffer[{}..{}], b = buffer[{}..{}] of one buffer: {}", a.0, a.1, b.0, b.1, m)),
            o => o,
        })?;
        // Ukkonen takes pattern and text as two slices as well: views against owned copies
        if !x.is_empty() {
            use bio::pattern_matching::ukkonen::{unit_cost, Ukkonen};
            let k = (c.bound % 4) as usize;
            let (xo, yo) = (x.to_vec(), y.to_vec());
            let want: Vec<(usize, usize)> = Ukkonen::with_capacity(x.len(), unit_cost).find_all_end(&xo, &yo, k).take(y.len() + 2).collect();
            let got: Vec<(usize, usize)> = Ukkonen::with_capacity(x.len(), unit_cost).find_all_end(x, y, k).take(y.len() + 2).collect();
            ensure!(got == want, "Ukkonen::find_all_end(pattern = buffer[{}..{}] = {:?}, text = buffer[{}..{}] = {:?}, k={}) = {:?}; on separate copies of the same sequences: {:?}", a.0, a.1, lossy(x), b.0, b.1, lossy(y), k, got, want);
        }
        let mut pass = Pass::new(!x.is_empty() && !y.is_empty());
        alias_classes(&mut pass, a, b);
        pass.add_if(x.len() == y.len(), "equal lengths (hamming checked)");
        Ok(pass)
    }

    pub fn strat(_t: Tier) -> BoxedStrategy<Case> {
        (1u8..=4).prop_flat_map(|sigma| (gen::seq(sigma, b'a', 0..=70), alias_ranges(), prop_oneof![3 => 0u32..=12, 1 => Just(u32::MAX)])).prop_map(|(buf, ranges, bound)| Case { buf: B(buf), ranges, bound }).boxed()
    }
}


// ---------------------------------------------------------------------------------------------
// C07: query iterators of the AVL interval tree (shared and mutable) and of the annotation map.
// The order in which overlapping entries are yielded is the implementation's choice, so the model is the
// plain next() sequence of a second query (whose contents C07/history decides).
pub mod c07_proto {
    use super::*;
    use bio::data_structures::annot_map::AnnotMap;
    use bio::data_structures::interval_tree::IntervalTree;
    use bio_types::annot::contig::Contig;
    use bio_types::strand::ReqStrand;

    #[derive(Serialize, Deserialize, Debug, Clone)]
    pub struct Case {
        /// (start, width >= 1)
        pub inserts: Vec<(u8, u8)>,
        pub query: (u8, u8),
        pub script: Vec<ItOp>,
    }

    pub fn check(c: &Case) -> R {
        ensure!(c.inserts.iter().all(|x| x.1 >= 1) && c.query.1 >= 1, "harness: zero-width interval");
        let mut tree: IntervalTree<i64, usize> = IntervalTree::new();
        let mut amap: AnnotMap<String, usize> = AnnotMap::new();
        for (d, &(s, w)) in c.inserts.iter().enumerate() {
            tree.insert(s as i64..s as i64 + w as i64, d);
            amap.insert_at(d, &Contig::new("chr".to_string(), s as isize, w as usize, ReqStrand::Forward));
        }
        let (qs, qe) = (c.query.0 as i64, c.query.0 as i64 + c.query.1 as i64);
        let cap = c.inserts.len() + 2;
        let hdr = format!("intervals {:?} (start, width), query {}..{}", c.inserts, qs, qe);
        let model: Vec<(i64, i64, usize)> = tree.find(qs..qe).take(cap).map(|e| (e.interval().start, e.interval().end, *e.data())).collect();
        ensure!(model.len() < cap, "IntervalTree::find: {}: the iterator does not end", hdr);
        let o1 = drive_cl(&format!("IntervalTree::find: {}", hdr), tree.find(qs..qe), model.clone(), |e| (e.interval().start, e.interval().end, *e.data()), &c.script).map_err(Stop::Fail)?;
        let o2 = drive(&format!("IntervalTree::find_mut: {}", hdr), tree.find_mut(qs..qe), model.iter().map(|m| (m.0, m.1)).collect(), |e| (e.interval().start, e.interval().end), &c.script).map_err(Stop::Fail)?;
        let q = Contig::new("chr".to_string(), c.query.0 as isize, c.query.1 as usize, ReqStrand::Forward);
        let amodel: Vec<(i64, i64, usize)> = amap.find(&q).take(cap).map(|e| (e.interval().start as i64, e.interval().end as i64, *e.data())).collect();
        let o3 = drive_cl(&format!("AnnotMap::find: {}", hdr), amap.find(&q), amodel, |e| (e.interval().start as i64, e.interval().end as i64, *e.data()), &c.script).map_err(Stop::Fail)?;
        let mut pass = Pass::new(model.len() >= 2);
        proto_classes(&mut pass, &c.script, o1.positional_after_advance || o2.positional_after_advance || o3.positional_after_advance, model.len());
        Ok(pass)
    }

    pub fn strat(_t: Tier) -> BoxedStrategy<Case> {
        (proptest::collection::vec((0u8..=40, 1u8..=20), 0..=14), (0u8..=40, 1u8..=30), script_strategy(8)).prop_map(|(inserts, query, script)| Case { inserts, query, script }).boxed()
    }
}

// ---------------------------------------------------------------------------------------------
// C09 / C10: the match iterators of Myers (end positions, full matches, lazy matches; single-word and
// block-based) and Ukkonen. Model: the plain next() sequence (decided by C09/myers, C09/ukkonen, C10/traceback).
pub mod c09_proto {
    use super::*;
    use bio::pattern_matching::myers::{long, Myers};
    use bio::pattern_matching::ukkonen::{unit_cost, Ukkonen};

    #[derive(Serialize, Deserialize, Debug, Clone)]
    pub struct Case {
        pub pattern: B,
        pub text: B,
        pub k: u8,
        pub script: Vec<ItOp>,
    }

    pub fn check(c: &Case) -> R {
        let (p, t): (&[u8], &[u8]) = (&c.pattern, &c.text);
        ensure!(!p.is_empty() && p.len() <= 64, "harness: pattern length {}", p.len());
        let hdr = format!("pattern {:?} text {:?} k={}", lossy(p), lossy(t), c.k);
        let cap = t.len() + 2;
        let mut paa = false;
        let mut items = 0usize;
        {
            let my: Myers<u64> = Myers::new(p);
            let model: Vec<(usize, u8)> = my.find_all_end(t, c.k).take(cap).collect();
            items = items.max(model.len());
            paa |= drive_cl(&format!("Myers<u64>::find_all_end: {}", hdr), my.find_all_end(t, c.k), model, |x| x, &c.script).map_err(Stop::Fail)?.positional_after_advance;
        }
        {
            let mut my: Myers<u64> = Myers::new(p);
            let model: Vec<(usize, usize, u8)> = my.find_all(t, c.k).take(cap).collect();
            paa |= drive(&format!("Myers<u64>::find_all: {}", hdr), my.find_all(t, c.k), model, |x| x, &c.script).map_err(Stop::Fail)?.positional_after_advance;
            let model: Vec<(usize, u8)> = my.find_all_lazy(t, c.k).take(cap).collect();
            paa |= drive(&format!("Myers<u64>::find_all_lazy: {}", hdr), my.find_all_lazy(t, c.k), model, |x| x, &c.script).map_err(Stop::Fail)?.positional_after_advance;
        }
        {
            let mut my: long::Myers<u8> = long::Myers::new(p);
            let k = c.k as usize;
            let model: Vec<(usize, usize)> = my.find_all_end(t, k).take(cap).collect();
            paa |= drive_cl(&format!("long::Myers<u8>::find_all_end: {}", hdr), my.find_all_end(t, k), model, |x| x, &c.script).map_err(Stop::Fail)?.positional_after_advance;
            let model: Vec<(usize, usize, usize)> = my.find_all(t, k).take(cap).collect();
            paa |= drive(&format!("long::Myers<u8>::find_all: {}", hdr), my.find_all(t, k), model, |x| x, &c.script).map_err(Stop::Fail)?.positional_after_advance;
            let model: Vec<(usize, usize)> = my.find_all_lazy(t, k).take(cap).collect();
            paa |= drive(&format!("long::Myers<u8>::find_all_lazy: {}", hdr), my.find_all_lazy(t, k), model, |x| x, &c.script).map_err(Stop::Fail)?.positional_after_advance;
        }
        {
            let mut uk = Ukkonen::with_capacity(p.len(), unit_cost);
            let model: Vec<(usize, usize)> = uk.find_all_end(p, t, c.k as usize).take(cap).collect();
            paa |= drive(&format!("Ukkonen::find_all_end: {}", hdr), uk.find_all_end(p, t, c.k as usize), model, |x| x, &c.script).map_err(Stop::Fail)?.positional_after_advance;
        }
        let mut pass = Pass::new(items >= 2);
        proto_classes(&mut pass, &c.script, paa, items);
        pass.add_if(p.len() > 8, "pattern longer than one u8 block");
        Ok(pass)
    }

    pub fn strat(_t: Tier) -> BoxedStrategy<Case> {
        (1u8..=3, prop_oneof![3 => 1usize..=6, 1 => 9usize..=20], 0usize..=24)
            .prop_flat_map(|(sigma, m, n)| (gen::seq(sigma, b'a', m), gen::seq(sigma, b'a', n), 0u8..=3, script_strategy(8)))
            .prop_map(|(pattern, text, k, script)| Case { pattern: B(pattern), text: B(text), k, script })
            .boxed()
    }
}

// ---------------------------------------------------------------------------------------------
// C11 / C12 / C13: record iterators of the readers and the byte iterator of the indexed reader.
// Model: the plain next() sequence of a second reader over the same bytes (decided by the round-trip sub-checks).
pub mod io_proto {
    use super::*;
    use bio::io::{bed, fasta, fastq, gff};

    #[derive(Serialize, Deserialize, Debug, Clone)]
    pub struct Case {
        /// 0 fasta, 1 fastq, 2 bed, 3 gff3, 4 IndexedReader::read_iter
        pub kind: u8,
        pub data: B,
        pub script: Vec<ItOp>,
    }

    fn fx(r: std::io::Result<fasta::Record>) -> String {
        match r {
            Ok(r) => format!("Ok({:?} {:?} {:?})", r.id(), r.desc(), lossy(r.seq())),
            Err(e) => format!("Err({:?})", e.kind()),
        }
    }
    fn fq(r: Result<fastq::Record, fastq::Error>) -> String {
        match r {
            Ok(r) => format!("Ok({:?} {:?} {:?} {:?})", r.id(), r.desc(), lossy(r.seq()), lossy(r.qual())),
            Err(_) => "Err".to_string(),
        }
    }
    fn bd<E>(r: Result<bed::Record, E>) -> String {
        match r {
            Ok(r) => format!("Ok({:?} {} {} {:?} {:?})", r.chrom(), r.start(), r.end(), r.name(), r.score()),
            Err(_) => "Err".to_string(),
        }
    }
    fn gf<E>(r: Result<gff::Record, E>) -> String {
        match r {
            Ok(r) => {
                let mut attrs: Vec<(String, Vec<String>)> = r.attributes().iter_all().map(|(k, v)| (k.clone(), v.clone())).collect();
                attrs.sort();
                format!("Ok({:?} {:?} {:?} {} {} {:?} {:?})", r.seqname(), r.source(), r.feature_type(), r.start(), r.end(), r.score(), attrs)
            }
            Err(_) => "Err".to_string(),
        }
    }

    pub fn check(c: &Case) -> R {
        let data: &[u8] = &c.data;
        let cap = data.len() + 8;
        let hdr = format!("{:?}", lossy(data));
        let (o, n) = match c.kind {
            0 => {
                let model: Vec<String> = fasta::Reader::new(data).records().take(cap).map(fx).collect();
                (drive(&format!("fasta::Reader::records() over {}", hdr), fasta::Reader::new(data).records(), model.clone(), fx, &c.script), model.len())
            }
            1 => {
                let model: Vec<String> = fastq::Reader::new(data).records().take(cap).map(fq).collect();
                (drive(&format!("fastq::Reader::records() over {}", hdr), fastq::Reader::new(data).records(), model.clone(), fq, &c.script), model.len())
            }
            2 => {
                let mut r1 = bed::Reader::new(data);
                let model: Vec<String> = r1.records().take(cap).map(bd).collect();
                let mut r2 = bed::Reader::new(data);
                (drive(&format!("bed::Reader::records() over {}", hdr), r2.records(), model.clone(), bd, &c.script), model.len())
            }
            3 => {
                let mut r1 = gff::Reader::new(data, gff::GffType::GFF3);
                let model: Vec<String> = r1.records().take(cap).map(gf).collect();
                let mut r2 = gff::Reader::new(data, gff::GffType::GFF3);
                (drive(&format!("gff::Reader::records() over {}", hdr), r2.records(), model.clone(), gf, &c.script), model.len())
            }
            _ => {
                // data = the sequence; file ">s\n" + lines of 4 bases, fetch_all, read_iter
                ensure!(!data.is_empty() && data.iter().all(|b| b.is_ascii_alphabetic()), "harness: sequence {:?}", hdr);
                let mut file = b">s\n".to_vec();
                for l in data.chunks(4) {
                    file.extend_from_slice(l);
                    file.push(b'\n');
                }
                let fai = format!("s\t{}\t3\t4\t5\n", data.len());
                let open = || fasta::IndexedReader::new(std::io::Cursor::new(file.clone()), fai.as_bytes());
                let (Ok(mut r1), Ok(mut r2)) = (open(), open()) else { fail!("IndexedReader::new rejects the index {:?}", fai) };
                ensure!(r1.fetch_all("s").is_ok() && r2.fetch_all("s").is_ok(), "fetch_all(\"s\") failed on {:?}", lossy(&file));
                let key = |r: std::io::Result<u8>| r.ok();
                let (Ok(i1), Ok(i2)) = (r1.read_iter(), r2.read_iter()) else { fail!("read_iter() failed on {:?}", lossy(&file)) };
                let model: Vec<Option<u8>> = i1.take(cap).map(key).collect();
                ensure!(model.iter().map(|b| b.unwrap_or(0)).collect::<Vec<u8>>() == data, "read_iter() over {:?} yields {:?}", lossy(&file), model);
                (drive(&format!("IndexedReader::read_iter() of all of {:?} (lines of 4)", hdr), i2, model.clone(), key, &c.script), model.len())
            }
        };
        let o = o.map_err(Stop::Fail)?;
        let mut pass = Pass::new(n >= 2);
        proto_classes(&mut pass, &c.script, o.positional_after_advance, n);
        pass.add(match c.kind {
            0 => "fasta records",
            1 => "fastq records",
            2 => "bed records",
            3 => "gff records",
            _ => "indexed fasta read_iter",
        });
        Ok(pass)
    }

    pub fn strat(_t: Tier) -> BoxedStrategy<Case> {
        let seqs = || proptest::collection::vec(proptest::collection::vec(proptest::sample::select(b"ACGT".to_vec()), 1..=9), 1..=6);
        let data = prop_oneof![
            seqs().prop_map(|v| (0u8, v.iter().enumerate().flat_map(|(i, s)| [format!(">r{} d{}\n", i, i).into_bytes(), s.clone(), b"\n".to_vec()].concat()).collect::<Vec<u8>>())),
            seqs().prop_map(|v| (1u8, v.iter().enumerate().flat_map(|(i, s)| [format!("@r{}\n", i).into_bytes(), s.clone(), b"\n+\n".to_vec(), vec![b'I'; s.len()], b"\n".to_vec()].concat()).collect::<Vec<u8>>())),
            seqs().prop_map(|v| (2u8, v.iter().enumerate().flat_map(|(i, s)| format!("chr{}\t{}\t{}\tn{}\t{}\n", i % 2, i, i + s.len(), i, s.len()).into_bytes()).collect::<Vec<u8>>())),
            seqs().prop_map(|v| (3u8, v.iter().enumerate().flat_map(|(i, s)| format!("chr{}\tsrc\tgene\t{}\t{}\t.\t+\t.\tID=g{};Note=a,b\n", i % 2, i + 1, i + 1 + s.len(), i).into_bytes()).collect::<Vec<u8>>())),
            proptest::collection::vec(proptest::sample::select(b"ACGTN".to_vec()), 1..=30).prop_map(|s| (4u8, s)),
        ];
        (data, script_strategy(8)).prop_map(|((kind, data), script)| Case { kind, data: B(data), script }).boxed()
    }
}

pub fn extend(props: &mut [Property]) {
    for p in props.iter_mut() {
        match p.id {
            "C01" => p.subs.push(Box::new(PropSub { name: "C01/aliased-arguments", quick: 60_000, thorough: 1_200_000, shards_quick: 8, shards_thorough: 16, strat: c01_alias::strat, check: c01_alias::check, must_reach: &["same start address, different lengths", "the very same slice twice", "overlapping views"], watch: false })),
            "C02" => p.subs.push(Box::new(PropSub { name: "C02/aliased-arguments", quick: 60_000, thorough: 1_200_000, shards_quick: 8, shards_thorough: 16, strat: c02_alias::strat, check: crate::props::c02::check, must_reach: &["same start address, different lengths", "the very same slice twice", "overlapping views"], watch: true })),
            "C07" => p.subs.push(Box::new(PropSub { name: "C07/iterator-protocol", quick: 60_000, thorough: 1_200_000, shards_quick: 8, shards_thorough: 16, strat: c07_proto::strat, check: c07_proto::check, must_reach: &["nth/skip/step_by on an already advanced iterator", "count/last/fold after next()"], watch: true })),
            "C09" => {
                p.subs.push(Box::new(PropSub { name: "C09/iterator-protocol", quick: 40_000, thorough: 800_000, shards_quick: 8, shards_thorough: 16, strat: c09_proto::strat, check: c09_proto::check, must_reach: &["nth/skip/step_by on an already advanced iterator", "count/last/fold after next()", "clone() of an already advanced iterator drained"], watch: true }));
                p.subs.push(Box::new(PropSub { name: "C09/aliased-arguments", quick: 80_000, thorough: 1_600_000, shards_quick: 8, shards_thorough: 16, strat: c09_alias::strat, check: c09_alias::check, must_reach: &["same start address, different lengths", "the very same slice twice", "overlapping views"], watch: false }));
            }
            "C10" => p.subs.push(Box::new(PropSub { name: "C10/iterator-protocol", quick: 40_000, thorough: 800_000, shards_quick: 8, shards_thorough: 16, strat: c09_proto::strat, check: c09_proto::check, must_reach: &["nth/skip/step_by on an already advanced iterator", "count/last/fold after next()", "pattern longer than one u8 block"], watch: true })),
            "C11" => p.subs.push(Box::new(PropSub { name: "C11/iterator-protocol", quick: 40_000, thorough: 800_000, shards_quick: 8, shards_thorough: 16, strat: io_proto::strat, check: io_proto::check, must_reach: &["nth/skip/step_by on an already advanced iterator", "count/last/fold after next()", "fasta records", "fastq records"], watch: true })),
            "C12" => p.subs.push(Box::new(PropSub { name: "C12/iterator-protocol", quick: 40_000, thorough: 800_000, shards_quick: 8, shards_thorough: 16, strat: io_proto::strat, check: io_proto::check, must_reach: &["nth/skip/step_by on an already advanced iterator", "indexed fasta read_iter"], watch: true })),
            "C13" => p.subs.push(Box::new(PropSub { name: "C13/iterator-protocol", quick: 40_000, thorough: 800_000, shards_quick: 8, shards_thorough: 16, strat: io_proto::strat, check: io_proto::check, must_reach: &["nth/skip/step_by on an already advanced iterator", "bed records", "gff records"], watch: true })),
            "C08" => p.subs.push(Box::new(PropSub { name: "C08/iterator-protocol", quick: 80_000, thorough: 1_600_000, shards_quick: 8, shards_thorough: 16, strat: c08_proto::strat, check: c08_proto::check, must_reach: &["nth/skip/step_by on an already advanced iterator", "count/last/fold after next()", "overlapping occurrences"], watch: true })),
            "C18" => p.subs.push(Box::new(PropSub { name: "C18/iterator-protocol", quick: 80_000, thorough: 1_600_000, shards_quick: 8, shards_thorough: 16, strat: c18_proto::strat, check: c18_proto::check, must_reach: &["nth/skip/step_by on an already advanced iterator", "count/last/fold after next()", "step_by(>=2)"], watch: true })),
            "C19" => {
                p.subs.push(Box::new(PropSub { name: "C19/aliased-arguments", quick: 80_000, thorough: 1_600_000, shards_quick: 8, shards_thorough: 16, strat: c19_alias::strat, check: c19_alias::check, must_reach: &["same start address, different lengths", "the very same slice twice", "overlapping views"], watch: false }));
                p.subs.push(Box::new(PropSub { name: "C19/iterator-protocol", quick: 80_000, thorough: 1_600_000, shards_quick: 8, shards_thorough: 16, strat: c19_proto::strat, check: c19_proto::check, must_reach: &["nth/skip/step_by on an already advanced iterator", "count/last/fold after next()", "size_hint observed"], watch: true }));
            }
            "C20" => p.subs.push(Box::new(PropSub { name: "C20/iterator-protocol", quick: 80_000, thorough: 1_600_000, shards_quick: 8, shards_thorough: 16, strat: c20_proto::strat, check: c20_proto::check, must_reach: &["nth/skip/step_by on an already advanced iterator", "count/last/fold after next()"], watch: true })),
            _ => {}
        }
    }
}
