//! C20 — ORF finder, DNA/RNA complement, alphabets, rank transform, GC content.
//!
//! ORF conventions read from orf.rs (and stated by the property): an ORF is reported as
//! `start..end` where `start` is the first base of the start codon and `end` is one past the
//! last base of the stop codon, so the length `end - start` *includes* the stop codon and is a
//! multiple of three; `offset = start mod 3`.

use crate::engine::gen::idx;
use crate::engine::*;
use crate::{ensure, fail};
use proptest::prelude::*;
use serde::{Deserialize, Serialize};

// ---------------------------------------------------------------------------
// ORF finder

pub mod orf {
    use super::*;
    use bio::seq_analysis::orf::{Finder, Orf};

    #[derive(Serialize, Deserialize, Debug, Clone)]
    pub struct Case {
        pub seq: B,
        /// start codons (3 bytes each), a set
        pub starts: Vec<B>,
        /// stop codons (3 bytes each), a set disjoint from the start codons
        pub stops: Vec<B>,
        pub min_len: usize,
        /// the codon *lists* handed to Finder::new name some codons more than once: for each fraction a copy
        /// of the start (stop) codon it selects is appended (a list with repeats denotes the same set)
        #[serde(default)]
        pub dup_starts: Vec<u16>,
        #[serde(default)]
        pub dup_stops: Vec<u16>,
    }

    /// (start, end) of every frame: a start codon at `start`, `end` = one past the first
    /// in-frame stop codon behind it; start codons without an in-frame stop are no frames
    pub fn frames(seq: &[u8], starts: &[[u8; 3]], stops: &[[u8; 3]]) -> (Vec<(usize, usize)>, usize) {
        let n = seq.len();
        let mut out = Vec::new();
        let mut open = 0usize;
        if n < 3 {
            return (out, 0);
        }
        for s in 0..=n - 3 {
            if !starts.iter().any(|c| c[..] == seq[s..s + 3]) {
                continue;
            }
            let mut e = s + 3;
            let mut found = false;
            while e + 3 <= n {
                if stops.iter().any(|c| c[..] == seq[e..e + 3]) {
                    out.push((s, e + 3));
                    found = true;
                    break;
                }
                e += 3;
            }
            if !found {
                open += 1;
            }
        }
        (out, open)
    }

    fn codons(v: &[B]) -> Option<Vec<[u8; 3]>> {
        v.iter().map(|c| <[u8; 3]>::try_from(&c[..]).ok()).collect()
    }

    fn show(c: &Case) -> String {
        let f = |v: &Vec<B>| v.iter().map(|c| lossy(c)).collect::<Vec<_>>().join(",");
        let rep = if c.dup_starts.is_empty() && c.dup_stops.is_empty() { String::new() } else { format!(" (codon lists with repeats: {} start / {} stop codons named twice)", c.dup_starts.len(), c.dup_stops.len()) };
        format!("seq {:?} (len {}) starts {{{}}} stops {{{}}}{} min_len {}", lossy(&c.seq), c.seq.len(), f(&c.starts), f(&c.stops), rep, c.min_len)
    }

    pub fn check(c: &Case) -> R {
        let seq: &[u8] = &c.seq;
        let (Some(starts), Some(stops)) = (codons(&c.starts), codons(&c.stops)) else {
            fail!("harness: codon that is not 3 bytes long generated");
        };
        ensure!(!starts.iter().any(|s| stops.contains(s)), "harness: start and stop codon sets overlap");
        let with_repeats = |set: &Vec<[u8; 3]>, dups: &Vec<u16>| -> Vec<[u8; 3]> {
            let mut l = set.clone();
            if !set.is_empty() {
                for &f in dups {
                    l.push(set[idx(f, set.len() - 1)]);
                }
            }
            l
        };
        let (start_list, stop_list) = (with_repeats(&starts, &c.dup_starts), with_repeats(&stops, &c.dup_stops));
        let finder = Finder::new(start_list.iter().collect(), stop_list.iter().collect(), c.min_len);
        // more results than positions means duplicates or an iterator that does not end
        let cap = seq.len() + 2;
        let got: Vec<Orf> = finder.find_all(seq).take(cap).collect();
        ensure!(got.len() < cap, "{}: find_all yields more ORFs ({}+) than the sequence has positions (does not terminate?)", show(c), got.len());
        let got_owned: Vec<Orf> = finder.find_all(seq.iter().copied()).take(cap).collect();
        ensure!(got == got_owned, "{}: find_all over &u8 items gives {:?} but over u8 items {:?}", show(c), got, got_owned);

        let (frames, open) = frames(seq, &starts, &stops);
        for o in &got {
            ensure!(o.start <= o.end && o.end <= seq.len(), "{}: reported {:?} is out of range", show(c), o);
            let len = o.end - o.start;
            ensure!(len % 3 == 0 && len >= 6, "{}: reported {:?} has length {} (not a multiple of three holding a start and a stop codon)", show(c), o, len);
            ensure!(starts.iter().any(|s| s[..] == seq[o.start..o.start + 3]), "{}: reported {:?} does not begin with a start codon ({:?})", show(c), o, lossy(&seq[o.start..o.start + 3]));
            ensure!(stops.iter().any(|s| s[..] == seq[o.end - 3..o.end]), "{}: reported {:?} does not end with a stop codon ({:?})", show(c), o, lossy(&seq[o.end - 3..o.end]));
            ensure!(
                frames.contains(&(o.start, o.end)),
                "{}: reported {:?} contains an earlier in-frame stop codon (the frame of this start is {:?})",
                show(c), o, frames.iter().find(|f| f.0 == o.start)
            );
            ensure!(len >= c.min_len, "{}: reported {:?} has length {} < min_len", show(c), o, len);
            ensure!(o.offset as i64 == (o.start % 3) as i64, "{}: reported {:?} carries offset {} but start mod 3 = {}", show(c), o, o.offset, o.start % 3);
        }
        let mut sorted: Vec<(usize, usize)> = got.iter().map(|o| (o.start, o.end)).collect();
        sorted.sort_unstable();
        if let Some(w) = sorted.windows(2).find(|w| w[0] == w[1]) {
            fail!("{}: ORF {:?} is reported more than once: {:?}", show(c), w[0], got);
        }
        for f in &frames {
            let len = f.1 - f.0;
            if len > c.min_len + 2 {
                ensure!(sorted.binary_search(f).is_ok(), "{}: frame {:?} of length {} > min_len + 2 is not reported; got {:?}", show(c), f, len, got);
            }
        }

        let must: Vec<(usize, usize)> = frames.iter().copied().filter(|f| f.1 - f.0 > c.min_len + 2).collect();
        let diff_frames = must.iter().any(|a| must.iter().any(|b| a.0 % 3 != b.0 % 3));
        let nested = must.iter().any(|a| must.iter().any(|b| a.0 != b.0 && a.1 == b.1));
        let overlapping = must.iter().any(|a| must.iter().any(|b| a.0 % 3 != b.0 % 3 && a.0 < b.1 && b.0 < a.1));
        let mut pass = Pass::new(diff_frames || nested);
        pass.add_if(diff_frames, ">=2 ORFs in different frames");
        pass.add_if(overlapping, "overlapping ORFs in different frames");
        pass.add_if(nested, "nested starts (same stop)");
        pass.add_if(must.iter().any(|a| must.iter().any(|b| a.0 % 3 == b.0 % 3 && a.1 < b.1)), "successive ORFs in one frame");
        pass.add_if(open > 0, "start codon without in-frame stop (not reported)");
        pass.add_if(start_list.len() > starts.len() && !got.is_empty(), "start codon list names a codon twice, ORFs reported");
        pass.add_if(stop_list.len() > stops.len() && !got.is_empty(), "stop codon list names a codon twice, ORFs reported");
        pass.add_if(c.starts.is_empty(), "empty start set");
        pass.add_if(c.stops.is_empty(), "empty stop set");
        pass.add_if(frames.iter().any(|f| f.1 - f.0 == c.min_len + 3), "frame length = min_len + 3 (shortest that must be reported)");
        pass.add_if(frames.iter().any(|f| (c.min_len..=c.min_len + 2).contains(&(f.1 - f.0))), "frame length in min_len..=min_len+2 (slack)");
        pass.add_if(frames.iter().any(|f| f.1 - f.0 < c.min_len), "frame shorter than min_len");
        pass.add_if(got.is_empty(), "no ORF reported");
        pass.add_if(frames.is_empty(), "no frame in the sequence");
        pass.add_if(got.len() >= 4, ">=4 ORFs reported");
        pass.add_if(c.min_len == 0, "min_len 0");
        pass.add_if(seq.len() < 6, "sequence shorter than two codons");
        pass.add_if(seq.iter().any(|b| !b.is_ascii_graphic()), "byte sequence");
        Ok(pass)
    }

    #[derive(Debug, Clone)]
    enum Piece {
        Rand(Vec<u8>),
        Start(u16),
        Stop(u16),
        Codons(Vec<u8>),
        /// start codon, filler codons (may hold further start codons), stop codon
        Gene(u16, Vec<u8>, u16),
    }

    #[derive(Debug, Clone)]
    enum MinSpec {
        Abs(usize),
        /// length of the frame chosen by the fraction, plus delta - 3
        Near(u16, usize),
    }

    fn min_spec() -> BoxedStrategy<MinSpec> {
        prop_oneof![4 => (0usize..=9).prop_map(MinSpec::Abs), 1 => (10usize..=40).prop_map(MinSpec::Abs), 3 => (any::<u16>(), 0usize..=5).prop_map(|(f, d)| MinSpec::Near(f, d))].boxed()
    }

    fn finish(seq: Vec<u8>, mut starts: Vec<[u8; 3]>, mut stops: Vec<[u8; 3]>, ms: MinSpec) -> Case {
        starts.sort_unstable();
        starts.dedup();
        stops.sort_unstable();
        stops.dedup();
        stops.retain(|c| !starts.contains(c));
        let min_len = match ms {
            MinSpec::Abs(m) => m,
            MinSpec::Near(f, d) => {
                let (fr, _) = frames(&seq, &starts, &stops);
                if fr.is_empty() {
                    d
                } else {
                    let (s, e) = fr[idx(f, fr.len() - 1)];
                    (e - s + d).saturating_sub(3)
                }
            }
        };
        Case { seq: B(seq), starts: starts.iter().map(|c| B(c.to_vec())).collect(), stops: stops.iter().map(|c| B(c.to_vec())).collect(), min_len, dup_starts: Vec::new(), dup_stops: Vec::new() }
    }

    fn subset(of: &'static [&'static [u8; 3]], full: u32) -> BoxedStrategy<Vec<[u8; 3]>> {
        // mostly non-empty subsets, sometimes empty
        prop_oneof![
            1 => Just(Vec::new()),
            full => Just(of.iter().map(|c| **c).collect::<Vec<[u8; 3]>>()),
            8 => proptest::collection::vec(any::<bool>(), of.len()).prop_map(move |m| {
                let mut v: Vec<[u8; 3]> = of.iter().zip(&m).filter(|(_, &b)| b).map(|(c, _)| **c).collect();
                if v.is_empty() {
                    v.push(*of[0]);
                }
                v
            }),
        ]
        .boxed()
    }

    const BIO_STARTS: &[&[u8; 3]] = &[b"ATG", b"GTG", b"TTG"];
    const BIO_STOPS: &[&[u8; 3]] = &[b"TAA", b"TAG", b"TGA"];
    /// codons that are no stop codons; the last two are start codons
    const FILLER: [&[u8; 3]; 6] = [b"AAA", b"GGG", b"GCA", b"TTT", b"ATG", b"GTG"];

    fn letters(alpha: &'static [u8], len: impl Into<proptest::collection::SizeRange>) -> BoxedStrategy<Vec<u8>> {
        proptest::collection::vec((0..alpha.len()).prop_map(move |i| alpha[i]), len).boxed()
    }

    /// biological codon sets; sequence random over ATG / ACGT or assembled from codon pieces
    fn bio() -> BoxedStrategy<Case> {
        let piece = prop_oneof![
            3 => letters(b"ATG", 0..=5).prop_map(Piece::Rand),
            3 => any::<u16>().prop_map(Piece::Start),
            3 => any::<u16>().prop_map(Piece::Stop),
            // whole codons that are neither start nor stop
            3 => proptest::collection::vec(0usize..4, 0..=5).prop_map(|v| Piece::Codons(v.iter().flat_map(|&i| FILLER[i].iter().copied()).collect())),
            5 => (any::<u16>(), proptest::collection::vec(0usize..6, 0..=6), any::<u16>()).prop_map(|(a, v, b)| Piece::Gene(a, v.iter().flat_map(|&i| FILLER[i].iter().copied()).collect(), b)),
        ];
        let seq = prop_oneof![
            2 => letters(b"ATG", 10..=90),
            1 => letters(b"ACGT", 0..=90),
            5 => proptest::collection::vec(piece, 2..=10).prop_map(|ps| {
                let mut s = Vec::new();
                for p in ps {
                    match p {
                        Piece::Rand(v) | Piece::Codons(v) => s.extend(v),
                        Piece::Gene(a, body, b) => {
                            s.extend_from_slice(BIO_STARTS[idx(a, 2)]);
                            s.extend(body);
                            s.extend_from_slice(BIO_STOPS[idx(b, 2)]);
                        }
                        Piece::Start(f) => s.extend_from_slice(BIO_STARTS[idx(f, 2)]),
                        Piece::Stop(f) => s.extend_from_slice(BIO_STOPS[idx(f, 2)]),
                    }
                }
                s
            }),
        ];
        (seq, subset(BIO_STARTS, 10), subset(BIO_STOPS, 24), min_spec()).prop_map(|(s, a, b, m)| finish(s, a, b, m)).boxed()
    }

    /// arbitrary codon sets over a small alphabet or over bytes: codons are random triples or
    /// are cut out of the sequence itself
    fn general() -> BoxedStrategy<Case> {
        let seqs = prop_oneof![
            3 => proptest::collection::vec((0u8..2).prop_map(|c| b'a' + c), 0..=60),
            3 => proptest::collection::vec((0u8..3).prop_map(|c| b'a' + c), 6..=90),
            1 => proptest::collection::vec(any::<u8>(), 0..=60),
            // bytes with few distinct values: codons cut from the sequence recur
            2 => (proptest::collection::vec(any::<u8>(), 2..=3), proptest::collection::vec(any::<u16>(), 6..=70)).prop_map(|(al, v)| v.iter().map(|&f| al[idx(f, al.len() - 1)]).collect::<Vec<u8>>()),
        ];
        let codon_src = || {
            let one = prop_oneof![4 => any::<u16>().prop_map(Ok), 1 => proptest::array::uniform3(prop_oneof![(0u8..3).prop_map(|c| b'a' + c), any::<u8>()]).prop_map(Err)];
            move |hi: usize| prop_oneof![1 => proptest::collection::vec(one.clone(), 0..=0), 16 => proptest::collection::vec(one.clone(), 1..=hi)]
        };
        (seqs, codon_src()(2), codon_src()(5), min_spec())
            .prop_map(|(s, a, b, m)| {
                let cut = |v: Vec<Result<u16, [u8; 3]>>| -> Vec<[u8; 3]> {
                    v.into_iter()
                        .filter_map(|x| match x {
                            Ok(f) => {
                                if s.len() >= 3 {
                                    let p = idx(f, s.len() - 3);
                                    Some([s[p], s[p + 1], s[p + 2]])
                                } else {
                                    None
                                }
                            }
                            Err(c) => Some(c),
                        })
                        .collect()
                };
                let (a, b) = (cut(a), cut(b));
                finish(s, a, b, m)
            })
            .boxed()
    }

    pub fn strat(_t: Tier) -> BoxedStrategy<Case> {
        let dups = || prop_oneof![3 => Just(Vec::new()), 1 => proptest::collection::vec(any::<u16>(), 1..=2)];
        (prop_oneof![3 => bio(), 2 => general()], dups(), dups())
            .prop_map(|(mut c, ds, dp)| {
                c.dup_starts = ds;
                c.dup_stops = dp;
                c
            })
            .boxed()
    }

    fn all_strings(alpha: &[u8], len: usize) -> Vec<Vec<u8>> {
        let mut out = vec![vec![]];
        for _ in 0..len {
            out = out.into_iter().flat_map(|s| alpha.iter().map(move |&c| { let mut n = s.clone(); n.push(c); n })).collect();
        }
        out
    }

    /// every sequence over {A,T,G} of length <= L with start {ATG}, stop {TAA,TAG,TGA} (and the
    /// two-letter analogue start {aab}, stop {bba} up to a larger length), min_len 0, 4, 6, 9
    pub fn enumerate(t: Tier) -> Box<dyn Iterator<Item = Case>> {
        let (l3, l2) = match t {
            Tier::Quick => (8, 13),
            Tier::Thorough => (11, 17),
        };
        let mk = |alpha: &'static [u8], maxlen: usize, starts: Vec<&'static [u8; 3]>, stops: Vec<&'static [u8; 3]>| {
            (0..=maxlen).flat_map(move |l| {
                let (starts, stops) = (starts.clone(), stops.clone());
                all_strings(alpha, l).into_iter().flat_map(move |s| {
                    let (starts, stops) = (starts.clone(), stops.clone());
                    [0usize, 4, 6, 9].into_iter().map(move |m| Case {
                        seq: B(s.clone()),
                        starts: starts.iter().map(|c| B(c.to_vec())).collect(),
                        stops: stops.iter().map(|c| B(c.to_vec())).collect(),
                        min_len: m,
                        dup_starts: Vec::new(),
                        dup_stops: Vec::new(),
                    })
                })
            })
        };
        Box::new(mk(b"ATG", l3, vec![b"ATG"], vec![b"TAA", b"TAG", b"TGA"]).chain(mk(b"ab", l2, vec![b"aab"], vec![b"bba", b"bab"])))
    }
}

// ---------------------------------------------------------------------------
// complement tables

pub mod comp {
    use super::*;
    use bio::alphabets::{dna, rna};

    /// IUPAC code -> set of bases as bits A=1 C=2 G=4 T/U=8
    fn code_set(upper: u8, rna: bool) -> Option<u8> {
        let t = if rna { b'U' } else { b'T' };
        Some(match upper {
            b'A' => 1,
            b'C' => 2,
            b'G' => 4,
            x if x == t => 8,
            b'R' => 1 | 4,
            b'Y' => 2 | 8,
            b'S' => 2 | 4,
            b'W' => 1 | 8,
            b'K' => 4 | 8,
            b'M' => 1 | 2,
            b'B' => 2 | 4 | 8,
            b'D' => 1 | 4 | 8,
            b'H' => 1 | 2 | 8,
            b'V' => 1 | 2 | 4,
            b'N' => 15,
            _ => return None,
        })
    }

    fn set_code(set: u8, rna: bool) -> u8 {
        for c in b'A'..=b'Z' {
            if code_set(c, rna) == Some(set) {
                return c;
            }
        }
        unreachable!()
    }

    /// complement by definition: complement every base of the code's set (A<->T/U, C<->G), case
    /// preserved, every other byte unchanged
    pub fn expected(b: u8, rna: bool) -> u8 {
        let lower = b.is_ascii_lowercase();
        let up = b.to_ascii_uppercase();
        match code_set(up, rna) {
            None => b,
            Some(s) => {
                let cs = ((s & 1) << 3) | ((s & 8) >> 3) | ((s & 2) << 1) | ((s & 4) >> 1);
                let c = set_code(cs, rna);
                if lower {
                    c.to_ascii_lowercase()
                } else {
                    c
                }
            }
        }
    }

    fn complement(b: u8, is_rna: bool) -> u8 {
        if is_rna {
            rna::complement(b)
        } else {
            dna::complement(b)
        }
    }

    #[derive(Serialize, Deserialize, Debug, Clone)]
    pub struct ByteCase {
        pub byte: u8,
        pub rna: bool,
    }

    pub fn check_byte(c: &ByteCase) -> R {
        let name = if c.rna { "rna" } else { "dna" };
        let b = c.byte;
        let got = complement(b, c.rna);
        let exp = expected(b, c.rna);
        let nucleotide = code_set(b.to_ascii_uppercase(), c.rna).is_some();
        ensure!(
            got == exp,
            "{}::complement({} {:?}) = {} {:?}, expected {} {:?} ({})",
            name, b, b as char, got, got as char, exp, exp as char,
            if nucleotide { "complement of the IUPAC base set, case preserved" } else { "not a nucleotide code: unchanged" }
        );
        let back = complement(got, c.rna);
        ensure!(back == b, "{}::complement is no involution: {} {:?} -> {} {:?} -> {} {:?}", name, b, b as char, got, got as char, back, back as char);
        ensure!(
            b.is_ascii_lowercase() == got.is_ascii_lowercase() && b.is_ascii_uppercase() == got.is_ascii_uppercase(),
            "{}::complement does not preserve case: {:?} -> {:?}", name, b as char, got as char
        );
        let mut pass = Pass::new(nucleotide && got != b);
        pass.add_if(nucleotide, "nucleotide code");
        pass.add_if(nucleotide && got == b, "self-complementary code");
        pass.add_if(!nucleotide, "non-nucleotide byte");
        pass.add_if(b.is_ascii_lowercase() && nucleotide, "lower-case code");
        pass.add_if(b >= 128, "non-ASCII byte");
        Ok(pass)
    }

    pub fn enumerate_bytes(_t: Tier) -> Box<dyn Iterator<Item = ByteCase>> {
        Box::new([false, true].into_iter().flat_map(|rna| (0u16..256).map(move |b| ByteCase { byte: b as u8, rna })))
    }

    #[derive(Serialize, Deserialize, Debug, Clone)]
    pub struct SeqCase {
        pub seq: B,
        pub rna: bool,
    }

    pub fn check_seq(c: &SeqCase) -> R {
        let name = if c.rna { "rna" } else { "dna" };
        let s: &[u8] = &c.seq;
        let rc = if c.rna { rna::revcomp(s) } else { dna::revcomp(s) };
        let exp: Vec<u8> = s.iter().rev().map(|&b| expected(b, c.rna)).collect();
        ensure!(rc == exp, "{}::revcomp({:?}) = {:?}, expected {:?}", name, B(s.to_vec()), B(rc.clone()), B(exp.clone()));
        let rc_owned = if c.rna { rna::revcomp(s.to_vec()) } else { dna::revcomp(s.to_vec()) };
        ensure!(rc_owned == rc, "{}::revcomp over owned bytes differs: {:?} vs {:?}", name, B(rc_owned.clone()), B(rc.clone()));
        let back = if c.rna { rna::revcomp(&rc) } else { dna::revcomp(&rc) };
        ensure!(back == s, "{}::revcomp twice does not restore {:?}: got {:?} (via {:?})", name, B(s.to_vec()), B(back.clone()), B(rc.clone()));
        // the sequence as other legal double-ended iterators: exact hint (slice), no hint (filter), and a
        // lower bound below the true length (a slice chained with a filtered slice) - size_hint is advisory
        let cut = s.len() / 3;
        let (h, t) = s.split_at(cut);
        let flavours: [(&str, Vec<u8>); 3] = [
            ("a filtered iterator (size_hint (0, Some(n)))", {
                let it = s.iter().filter(|_| true);
                if c.rna { rna::revcomp(it) } else { dna::revcomp(it) }
            }),
            ("a slice chained with a filtered slice (size_hint lower bound below the length)", {
                let it = h.iter().chain(t.iter().filter(|_| true));
                if c.rna { rna::revcomp(it) } else { dna::revcomp(it) }
            }),
            ("a filtered slice chained with a slice", {
                let it = h.iter().filter(|_| true).chain(t.iter());
                if c.rna { rna::revcomp(it) } else { dna::revcomp(it) }
            }),
        ];
        for (what, got) in &flavours {
            ensure!(*got == exp, "{}::revcomp of {:?} handed over as {} = {:?}, expected {:?}", name, B(s.to_vec()), what, B(got.clone()), B(exp.clone()));
        }
        let changed = s.iter().filter(|&&b| expected(b, c.rna) != b).count();
        let mut pass = Pass::new(s.len() >= 2 && changed >= 1 && rc != s);
        pass.add_if(cut >= 1 && s.len() - cut >= 1, "sequence as an iterator with a partial size_hint");
        pass.add_if(s.is_empty(), "empty sequence");
        pass.add_if(rc == s && !s.is_empty(), "reverse-complement palindrome");
        pass.add_if(s.iter().any(|b| b.is_ascii_lowercase() && expected(*b, c.rna) != *b), "lower-case nucleotides");
        pass.add_if(s.iter().any(|&b| code_set(b.to_ascii_uppercase(), c.rna).is_none()), "non-nucleotide bytes");
        pass.add_if(s.iter().any(|&b| b"RYKMBDHVrykmbdhv".contains(&b)), "ambiguity codes");
        pass.add_if(c.rna, "rna");
        pass.add_if(!c.rna, "dna");
        Ok(pass)
    }

    pub fn strat_seq(_t: Tier) -> BoxedStrategy<SeqCase> {
        let sym = prop_oneof![
            4 => proptest::sample::select(&b"ACGTUacgtu"[..]),
            3 => proptest::sample::select(&b"RYSWKMBDHVNZryswkmbdhvnz"[..]),
            2 => any::<u8>(),
        ];
        let seq = prop_oneof![
            6 => proptest::collection::vec(sym, 0..=40),
            // palindromes: s + revcomp-by-definition(s)
            1 => (proptest::collection::vec(proptest::sample::select(&b"ACGTacgtNRYryKM"[..]), 1..=10), any::<bool>()).prop_map(|(h, _)| {
                let mut s = h.clone();
                s.extend(h.iter().rev().map(|&b| expected(b, false)));
                s
            }),
        ];
        (seq, any::<bool>()).prop_map(|(s, rna)| SeqCase { seq: B(s), rna }).boxed()
    }
}

// ---------------------------------------------------------------------------
// alphabets and rank transform

pub mod alpha {
    use super::*;
    use bio::alphabets::{self, Alphabet, RankTransform};

    #[derive(Serialize, Deserialize, Debug, Clone)]
    pub enum Build {
        /// Alphabet::new(symbols)
        New,
        /// empty alphabet, then insert() symbol by symbol
        Insert,
        /// library alphabet number k; `symbols` is ignored, the member list is the literal in NAMED
        Named(u8),
    }

    #[derive(Serialize, Deserialize, Debug, Clone)]
    pub struct Case {
        pub build: Build,
        /// symbols handed to the constructor (order and duplicates are free)
        pub symbols: B,
        pub texts: Vec<B>,
    }

    const NAMED: &[(&str, &[u8])] = &[
        ("dna::alphabet", b"ACGTacgt"),
        ("dna::n_alphabet", b"ACGTNacgtn"),
        ("dna::iupac_alphabet", b"ACGTRYSWKMBDHVNZacgtryswkmbdhvnz"),
        ("rna::alphabet", b"ACGUacgu"),
        ("rna::n_alphabet", b"ACGUNacgun"),
        ("rna::iupac_alphabet", b"ACGURYSWKMBDHVNZacguryswkmbdhvnz"),
        ("protein::alphabet", b"ARNDCEQGHILKMFPSTWYVarndceqghilkmfpstwyv"),
        ("protein::iupac_alphabet", b"ABCDEFGHIKLMNPQRSTVWXYZabcdefghiklmnpqrstvwxyz"),
    ];

    fn named(k: u8) -> Alphabet {
        match k {
            0 => alphabets::dna::alphabet(),
            1 => alphabets::dna::n_alphabet(),
            2 => alphabets::dna::iupac_alphabet(),
            3 => alphabets::rna::alphabet(),
            4 => alphabets::rna::n_alphabet(),
            5 => alphabets::rna::iupac_alphabet(),
            6 => alphabets::protein::alphabet(),
            _ => alphabets::protein::iupac_alphabet(),
        }
    }

    pub fn check(c: &Case) -> R {
        let (what, list): (String, Vec<u8>) = match c.build {
            Build::New => (format!("Alphabet::new({:?})", c.symbols), c.symbols.to_vec()),
            Build::Insert => (format!("Alphabet built by insert() of {:?}", c.symbols), c.symbols.to_vec()),
            Build::Named(k) => {
                ensure!((k as usize) < NAMED.len(), "harness: unknown named alphabet");
                (NAMED[k as usize].0.to_string(), NAMED[k as usize].1.to_vec())
            }
        };
        let mut member = [false; 256];
        for &b in &list {
            member[b as usize] = true;
        }
        let sorted: Vec<u8> = (0u16..256).filter(|&b| member[b as usize]).map(|b| b as u8).collect();
        let a = match c.build {
            Build::New => Alphabet::new(&list),
            Build::Insert => {
                let mut a = Alphabet::new(b"");
                for &b in &list {
                    a.insert(b);
                }
                a
            }
            Build::Named(k) => named(k),
        };
        ensure!(a.len() == sorted.len(), "{}: len() = {} but there are {} distinct symbols", what, a.len(), sorted.len());
        ensure!(a.is_empty() == sorted.is_empty(), "{}: is_empty() = {} with {} symbols", what, a.is_empty(), sorted.len());
        ensure!(a.max_symbol() == sorted.last().copied(), "{}: max_symbol() = {:?}, expected {:?}", what, a.max_symbol(), sorted.last());
        for b in 0u16..256 {
            let b = b as u8;
            ensure!(a.is_word([b]) == member[b as usize], "{}: is_word([{}]) = {} but membership is {}", what, b, a.is_word([b]), member[b as usize]);
        }
        ensure!(a.is_word(b""), "{}: the empty text is not accepted", what);
        let rt = RankTransform::new(&a);
        ensure!(rt.ranks.len() == sorted.len(), "{}: rank transform has {} entries for {} symbols", what, rt.ranks.len(), sorted.len());
        for (i, &b) in sorted.iter().enumerate() {
            let r = rt.get(b);
            ensure!(r as usize == i, "{}: rank of symbol {} is {}, but it is the {}-th smallest symbol (ranks must be an order-preserving bijection onto 0..{})", what, b, r, i, sorted.len());
        }
        let back = rt.alphabet();
        ensure!(back == a, "{}: RankTransform::alphabet() does not restore the alphabet", what);
        let mut any_word = false;
        let mut any_nonword = false;
        for t in &c.texts {
            let expect = t.iter().all(|&b| member[b as usize]);
            let got = a.is_word(&t[..]);
            ensure!(got == expect, "{}: is_word({:?}) = {}, expected {}", what, t, got, expect);
            let got_owned = a.is_word(t.iter().copied());
            ensure!(got_owned == expect, "{}: is_word over owned bytes of {:?} = {}, expected {}", what, t, got_owned, expect);
            if expect {
                any_word |= !t.is_empty();
                let tr = rt.transform(&t[..]);
                let exp: Vec<u8> = t.iter().map(|b| sorted.binary_search(b).unwrap() as u8).collect();
                ensure!(tr == exp, "{}: transform({:?}) = {:?}, expected {:?}", what, t, tr, exp);
            } else {
                any_nonword = true;
            }
        }
        let mut pass = Pass::new(sorted.len() >= 2 && any_word);
        pass.add_if(sorted.is_empty(), "empty alphabet");
        pass.add_if(sorted.len() == 1, "alphabet of size 1");
        pass.add_if(sorted.len() == 256, "alphabet of size 256");
        pass.add_if(sorted.len() >= 100 && sorted.len() < 256, "alphabet of size 100..255");
        pass.add_if(list.len() > sorted.len(), "duplicate symbols in constructor input");
        pass.add_if(any_word, "text over the alphabet");
        pass.add_if(any_nonword, "text with a non-member");
        pass.add_if(c.texts.iter().any(|t| !t.is_empty() && t[..t.len() - 1].iter().all(|&b| member[b as usize]) && !member[t[t.len() - 1] as usize]), "only the last symbol is a non-member");
        pass.add_if(matches!(c.build, Build::Named(_)), "library alphabet");
        pass.add_if(matches!(c.build, Build::Insert), "built by insert");
        pass.add_if(member[0] || member[255], "contains byte 0 or 255");
        Ok(pass)
    }

    #[derive(Debug, Clone)]
    enum TextSpec {
        /// positions into the member list
        Members(Vec<u16>),
        /// members with one arbitrary byte put at a position
        Planted(Vec<u16>, u16, u8),
        Bytes(Vec<u8>),
    }

    pub fn strat(_t: Tier) -> BoxedStrategy<Case> {
        let symbols = prop_oneof![
            1 => Just(Vec::new()),
            2 => proptest::collection::vec(any::<u8>(), 1..=1),
            6 => proptest::collection::vec(any::<u8>(), 2..=12),
            2 => proptest::collection::vec(prop_oneof![(b'a'..=b'f'), (b'A'..=b'F')], 1..=10),
            2 => proptest::collection::vec(any::<u8>(), 100..=400),
            // all 256 byte values in a rotated order, some twice
            2 => (any::<u8>(), proptest::collection::vec(any::<u8>(), 0..=5)).prop_map(|(rot, extra)| {
                let mut v: Vec<u8> = (0u16..256).map(|b| (b as u8).wrapping_add(rot)).collect();
                v.extend(extra);
                v
            }),
            // all but a few
            1 => proptest::collection::vec(any::<u8>(), 1..=3).prop_map(|miss| (0u16..256).map(|b| b as u8).filter(|b| !miss.contains(b)).collect()),
        ];
        let build = prop_oneof![5 => Just(Build::New), 2 => Just(Build::Insert), 2 => (0u8..8).prop_map(Build::Named)];
        let text = prop_oneof![
            4 => proptest::collection::vec(any::<u16>(), 0..=20).prop_map(TextSpec::Members),
            4 => (proptest::collection::vec(any::<u16>(), 0..=20), any::<u16>(), any::<u8>()).prop_map(|(m, p, b)| TextSpec::Planted(m, p, b)),
            1 => proptest::collection::vec(any::<u8>(), 0..=8).prop_map(TextSpec::Bytes),
        ];
        (build, symbols, proptest::collection::vec(text, 1..=4))
            .prop_map(|(build, symbols, texts)| {
                let list: Vec<u8> = match build {
                    Build::Named(k) => NAMED[k as usize].1.to_vec(),
                    _ => symbols.clone(),
                };
                let mut sorted = list.clone();
                sorted.sort_unstable();
                sorted.dedup();
                let pick = |m: &[u16]| -> Vec<u8> { if sorted.is_empty() { Vec::new() } else { m.iter().map(|&f| sorted[idx(f, sorted.len() - 1)]).collect() } };
                let texts = texts
                    .into_iter()
                    .map(|t| match t {
                        TextSpec::Members(m) => B(pick(&m)),
                        TextSpec::Planted(m, p, b) => {
                            let mut v = pick(&m);
                            let at = idx(p, v.len());
                            v.insert(at, b);
                            B(v)
                        }
                        TextSpec::Bytes(v) => B(v),
                    })
                    .collect();
                let symbols = if matches!(build, Build::Named(_)) { Vec::new() } else { symbols };
                Case { build, symbols: B(symbols), texts }
            })
            .boxed()
    }
}

// ---------------------------------------------------------------------------
// GC content

pub mod gc {
    use super::*;
    use bio::seq_analysis::gc::{gc3_content, gc_content};

    #[derive(Serialize, Deserialize, Debug, Clone)]
    pub struct Case {
        pub seq: B,
    }

    fn is_gc(b: u8) -> bool {
        matches!(b, b'G' | b'C' | b'g' | b'c')
    }

    pub fn check(c: &Case) -> R {
        let s: &[u8] = &c.seq;
        ensure!(!s.is_empty(), "harness: empty sequence generated (the fraction is undefined)");
        let n_gc = s.iter().filter(|&&b| is_gc(b)).count();
        let expect = n_gc as f64 / s.len() as f64;
        let got = gc_content(s);
        ensure!((got as f64 - expect).abs() <= 1e-6, "gc_content({:?}) = {}, expected {}/{} = {}", c.seq, got, n_gc, s.len(), expect);
        let got_owned = gc_content(s.iter().copied());
        ensure!((got_owned as f64 - expect).abs() <= 1e-6, "gc_content over owned bytes of {:?} = {}, expected {}", c.seq, got_owned, expect);
        // gc3: every third symbol starting with the first (documented example: positions 0, 3, 6 of GATATACA)
        let third: Vec<u8> = s.iter().copied().step_by(3).collect();
        let n3 = third.iter().filter(|&&b| is_gc(b)).count();
        let expect3 = n3 as f64 / third.len() as f64;
        let got3 = gc3_content(s);
        ensure!((got3 as f64 - expect3).abs() <= 1e-6, "gc3_content({:?}) = {}, expected {}/{} = {} (positions 0,3,6,..)", c.seq, got3, n3, third.len(), expect3);
        let mut pass = Pass::new(n_gc > 0 && n_gc < s.len());
        pass.add_if(n_gc == 0, "no G/C");
        pass.add_if(n_gc == s.len(), "only G/C");
        pass.add_if(s.iter().any(|&b| b == b'g' || b == b'c'), "lower-case g/c");
        pass.add_if(s.len() == 1, "length 1");
        pass.add_if(s.len() % 3 != 0, "length not a multiple of 3");
        pass.add_if((expect - expect3).abs() > 1e-6, "gc3 differs from gc");
        pass.add_if(s.iter().any(|b| !b.is_ascii_alphabetic()), "non-letter bytes");
        Ok(pass)
    }

    pub fn strat(_t: Tier) -> BoxedStrategy<Case> {
        let sym = prop_oneof![
            6 => proptest::sample::select(&b"ACGT"[..]),
            3 => proptest::sample::select(&b"acgtNnSsUu"[..]),
            1 => any::<u8>(),
        ];
        prop_oneof![
            8 => proptest::collection::vec(sym, 1..=60),
            1 => proptest::collection::vec(proptest::sample::select(&b"GCgc"[..]), 1..=20),
            1 => proptest::collection::vec(proptest::sample::select(&b"ATat"[..]), 1..=20),
            1 => proptest::collection::vec(proptest::sample::select(&b"ACGT"[..]), 200..=2000),
        ]
        .prop_map(|s| Case { seq: B(s) })
        .boxed()
    }
}

// ---------------------------------------------------------------------------
// LARGE-SCALE sub-checks (C20/large-*): the same statements on inputs whose sizes cross the ladder
// 255/256/257 .. 2^20+1 (GC content: up to 2^24 + 10^6). Cases are small parameter records expanded
// deterministically (splitmix64); oracles are linear scans.

pub mod large {
    use super::*;
    use crate::oracles::scale::*;
    use crate::{c1920_bands, c1920_over};

    fn add_band(pass: &mut Pass, labels: &[&'static str; 12], v: usize) {
        if let Some(b) = c1920_band(v) {
            pass.add(labels[b]);
        }
    }
    fn add_over(pass: &mut Pass, labels: &[&'static str; 4], v: usize) {
        for (i, t) in C1920_OVER.iter().enumerate() {
            if v > *t {
                pass.add(labels[i]);
            }
        }
    }

    // -----------------------------------------------------------------------
    pub mod orf {
        use super::*;
        use bio::seq_analysis::orf::{Finder, Orf};

        const STARTS: [&[u8; 3]; 3] = [b"ATG", b"GTG", b"TTG"];
        const STOPS: [&[u8; 3]; 3] = [b"TAA", b"TAG", b"TGA"];
        /// in-frame filler codons (none is a start or stop codon of the sets above)
        const FILL: [&[u8; 3]; 4] = [b"GCA", b"AAA", b"GGG", b"TTT"];
        /// tandem units: length 6 (one frame), 7, 10 and 11 (the ORFs rotate through the three frames), nested starts
        const UNITS: [&[u8]; 6] = [b"ATGTAA", b"ATGTAAC", b"ATGAAATAGC", b"GTGGCATGAAT", b"ATGATGTAAC", b"CATGGCATGAGTTGAAATAA"];

        #[derive(Serialize, Deserialize, Debug, Clone)]
        pub struct Gene {
            /// bases of `C` in front of the gene
            pub gap: usize,
            /// consecutive start codons at the front (nested starts sharing one stop)
            pub starts: usize,
            /// filler codons of the body
            pub body: usize,
            /// every `inner_every`-th body codon is a start codon instead of filler (0 = none)
            pub inner_every: usize,
        }

        #[derive(Serialize, Deserialize, Debug, Clone)]
        pub enum Layout {
            /// uniform over "ATG" (false) or "ACGT" (true)
            Random { acgt: bool },
            /// one of the UNITS repeated
            Tandem { unit: usize },
            /// genes one after the other, then `C` up to the length
            Genes { genes: Vec<Gene> },
        }

        #[derive(Serialize, Deserialize, Debug, Clone)]
        pub enum Min {
            Abs(usize),
            /// length of the longest frame + d - 3: d = 0 the longest frame must just be reported, 1..=3 it is in
            /// the slack the statement leaves, 4.. no frame is long enough
            NearLongest(usize),
        }

        #[derive(Serialize, Deserialize, Debug, Clone)]
        pub struct Case {
            pub n: usize,
            pub layout: Layout,
            /// bit i: STARTS[i] / STOPS[i] belongs to the set
            pub start_mask: u8,
            pub stop_mask: u8,
            pub min_len: Min,
            /// iterate over owned bytes instead of references
            pub owned: bool,
            pub seed: u64,
        }

        pub fn build(c: &Case) -> Vec<u8> {
            let mut rng = C1920Rng::new(c.seed);
            let n = c.n;
            let mut s: Vec<u8> = match &c.layout {
                Layout::Random { acgt } => rng.fill(if *acgt { b"ACGT" } else { b"ATG" }, n),
                Layout::Tandem { unit } => {
                    let u = UNITS[unit % UNITS.len()];
                    (0..n).map(|i| u[i % u.len()]).collect()
                }
                Layout::Genes { genes } => {
                    let first_start = (0..3).find(|i| c.start_mask >> i & 1 == 1).unwrap_or(0);
                    let first_stop = (0..3).find(|i| c.stop_mask >> i & 1 == 1).unwrap_or(0);
                    let mut s = Vec::with_capacity(n);
                    for g in genes {
                        s.resize(s.len() + g.gap, b'C');
                        for _ in 0..g.starts {
                            s.extend_from_slice(STARTS[first_start]);
                        }
                        for j in 0..g.body {
                            if g.inner_every > 0 && j % g.inner_every == g.inner_every - 1 {
                                s.extend_from_slice(STARTS[first_start]);
                            } else {
                                s.extend_from_slice(FILL[(j + j / 7) % 4]);
                            }
                        }
                        s.extend_from_slice(STOPS[first_stop]);
                        if s.len() >= n {
                            break;
                        }
                    }
                    s
                }
            };
            s.resize(n, b'C');
            s
        }

        /// every frame (start, end), ascending by start: one backward pass that remembers, per reading frame,
        /// the end of the nearest stop codon to the right
        pub fn frames_linear(seq: &[u8], starts: &[[u8; 3]], stops: &[[u8; 3]]) -> Vec<(usize, usize)> {
            let n = seq.len();
            let mut out = Vec::new();
            if n < 3 {
                return out;
            }
            let mut next_end = [usize::MAX; 3];
            for s in (0..=n - 3).rev() {
                let cod = [seq[s], seq[s + 1], seq[s + 2]];
                if stops.contains(&cod) {
                    next_end[s % 3] = s + 3;
                } else if starts.contains(&cod) && next_end[s % 3] != usize::MAX {
                    out.push((s, next_end[s % 3]));
                }
            }
            out.reverse();
            out
        }

        /// every reported ORF is a frame of length >= min_len with the right offset, none twice, every frame longer
        /// than min_len + 2 is there; returns the numbers of frames that must be reported / lie in the slack / are shorter
        #[allow(clippy::too_many_arguments)]
        fn judge(ctx: &str, what: &str, seq: &[u8], frames: &[(usize, usize)], starts: &[[u8; 3]], stops: &[[u8; 3]], min_len: usize, got: &[Orf]) -> Result<(usize, usize, usize), Stop> {
            let n = seq.len();
            ensure!(got.len() < n + 2, "{}: {} yields more ORFs ({}+) than the sequence has positions (does not terminate?)", ctx, what, got.len());
            for o in got {
                ensure!(o.start <= o.end && o.end <= n, "{}: {}: reported {:?} is out of range", ctx, what, o);
                let len = o.end - o.start;
                ensure!(len % 3 == 0 && len >= 6, "{}: {}: reported {:?} has length {} (not a multiple of three holding a start and a stop codon)", ctx, what, o, len);
                ensure!(starts.iter().any(|s| s[..] == seq[o.start..o.start + 3]), "{}: {}: reported {:?} does not begin with a start codon ({:?})", ctx, what, o, lossy(&seq[o.start..o.start + 3]));
                ensure!(stops.iter().any(|s| s[..] == seq[o.end - 3..o.end]), "{}: {}: reported {:?} does not end with a stop codon ({:?})", ctx, what, o, lossy(&seq[o.end - 3..o.end]));
                ensure!(
                    frames.binary_search(&(o.start, o.end)).is_ok(),
                    "{}: {}: reported {:?} is no frame: the frame of this start (up to the first in-frame stop codon) is {:?}",
                    ctx, what, o, frames.binary_search_by(|f| f.0.cmp(&o.start)).ok().map(|i| frames[i])
                );
                ensure!(len >= min_len, "{}: {}: reported {:?} has length {} < min_len", ctx, what, o, len);
                ensure!(o.offset as i64 == (o.start % 3) as i64, "{}: {}: reported {:?} carries offset {} but start mod 3 = {}", ctx, what, o, o.offset, o.start % 3);
            }
            let mut sorted: Vec<(usize, usize)> = got.iter().map(|o| (o.start, o.end)).collect();
            sorted.sort_unstable();
            if let Some(w) = sorted.windows(2).find(|w| w[0] == w[1]) {
                fail!("{}: {}: ORF {:?} is reported more than once ({} ORFs reported)", ctx, what, w[0], got.len());
            }
            let (mut must, mut slack, mut short) = (0usize, 0usize, 0usize);
            for f in frames {
                let len = f.1 - f.0;
                if len > min_len + 2 {
                    must += 1;
                    ensure!(sorted.binary_search(f).is_ok(), "{}: {}: frame {:?} of length {} > min_len + 2 is not reported ({} ORFs reported, {} frames in the sequence)", ctx, what, f, len, got.len(), frames.len());
                } else if len >= min_len {
                    slack += 1;
                } else {
                    short += 1;
                }
            }
            Ok((must, slack, short))
        }

        pub fn check(c: &Case) -> R {
            let starts: Vec<[u8; 3]> = (0..3).filter(|i| c.start_mask >> i & 1 == 1).map(|i| *STARTS[i]).collect();
            let stops: Vec<[u8; 3]> = (0..3).filter(|i| c.stop_mask >> i & 1 == 1).map(|i| *STOPS[i]).collect();
            ensure!(c.start_mask < 8 && c.stop_mask < 8, "harness: codon masks");
            let seq = build(c);
            let n = seq.len();
            let frames = frames_linear(&seq, &starts, &stops);
            let mut pass_note = false;
            if n <= 3000 {
                let (slow, _) = super::super::orf::frames(&seq, &starts, &stops);
                ensure!(slow == frames, "harness: the linear frame oracle and the per-start scan disagree for {:?}", c);
                pass_note = true;
            }
            let longest = frames.iter().map(|f| f.1 - f.0).max().unwrap_or(0);
            let min_len = match c.min_len {
                Min::Abs(v) => v,
                Min::NearLongest(d) => (longest + d).saturating_sub(3),
            };
            let ctx = format!("{:?} (sequence of {} bases, starts {:?}, stops {:?}, min_len {})", c, n, starts.iter().map(|x| lossy(x)).collect::<Vec<_>>(), stops.iter().map(|x| lossy(x)).collect::<Vec<_>>(), min_len);
            let finder = Finder::new(starts.iter().collect(), stops.iter().collect(), min_len);
            let cap = n + 2;
            let got: Vec<Orf> = if c.owned { finder.find_all(seq.iter().copied()).take(cap).collect() } else { finder.find_all(&seq).take(cap).collect() };
            let (must, slack, short) = judge(&ctx, "find_all", &seq, &frames, &starts, &stops, min_len, &got)?;
            // the finder keeps no state between runs: a second iterator started and finished while the first is
            // suspended; both results are judged like the first
            if !got.is_empty() {
                let mut a = finder.find_all(&seq);
                let head: Vec<Orf> = a.by_ref().take(2).collect();
                let cut = n.min(4000);
                let other: Vec<Orf> = finder.find_all(&seq[..cut]).take(cap).collect();
                let rest: Vec<Orf> = a.take(cap).collect();
                let joined: Vec<Orf> = head.into_iter().chain(rest).collect();
                judge(&ctx, "find_all suspended after two ORFs while the same finder ran over another sequence", &seq, &frames, &starts, &stops, min_len, &joined)?;
                let sub: Vec<(usize, usize)> = frames.iter().copied().filter(|f| f.1 <= cut).collect();
                judge(&ctx, "the same finder over the first bases (at most 4000) of the sequence", &seq[..cut], &sub, &starts, &stops, min_len, &other)?;
            }

            // nested starts: the largest number of frames sharing one stop
            let mut by_end: Vec<usize> = frames.iter().map(|f| f.1).collect();
            by_end.sort_unstable();
            let mut nested = 0usize;
            let mut i = 0;
            while i < by_end.len() {
                let mut j = i;
                while j < by_end.len() && by_end[j] == by_end[i] {
                    j += 1;
                }
                nested = nested.max(j - i);
                i = j;
            }
            let straddle = |p: usize| frames.iter().any(|f| f.1 - f.0 > min_len + 2 && f.0 < p && p < f.1);
            let diff_frames = { let mut fr = [false; 3]; for f in frames.iter().filter(|f| f.1 - f.0 > min_len + 2) { fr[f.0 % 3] = true; } fr.iter().filter(|x| **x).count() >= 2 };
            let mut pass = Pass::new(must >= 1 && n > 255);
            add_band(&mut pass, &c1920_bands!("sequence length"), n);
            add_band(&mut pass, &c1920_bands!("ORFs reported"), got.len());
            add_over(&mut pass, &c1920_over!("ORFs reported"), got.len());
            // every band holds exactly one multiple of three; the label is set by any frame of that length
            for f in &frames {
                add_band(&mut pass, &c1920_bands!("length of a frame (bases)"), f.1 - f.0);
            }
            add_over(&mut pass, &c1920_over!("longest ORF (bases)"), longest);
            add_band(&mut pass, &c1920_bands!("nested starts sharing one stop"), nested);
            add_over(&mut pass, &c1920_over!("nested starts sharing one stop"), nested);
            add_band(&mut pass, &c1920_bands!("min_len"), min_len);
            add_band(&mut pass, &c1920_bands!("min_len"), min_len + 2);
            pass.add_if(frames.iter().any(|f| f.1 - f.0 == min_len + 3 || f.1 - f.0 == min_len + 4 || f.1 - f.0 == min_len + 5), "frame length in min_len+3..=min_len+5 (shortest that must be reported)");
            pass.add_if(slack > 0, "frame length in min_len..=min_len+2 (slack)");
            pass.add_if(short > 0, "frame shorter than min_len");
            pass.add_if(straddle(256) || straddle(512), "a reported ORF straddles position 256 or 512");
            pass.add_if(straddle(65536), "a reported ORF straddles position 65536");
            pass.add_if(straddle(131072) || straddle(1 << 19) || straddle(1 << 20), "a reported ORF straddles position 2^17, 2^19 or 2^20");
            pass.add_if(got.iter().any(|o| o.start > 65536), "ORF starting beyond position 65536");
            pass.add_if(got.iter().any(|o| o.start > (1 << 20)), "ORF starting beyond position 2^20");
            pass.add_if(diff_frames, ">=2 ORFs in different frames");
            pass.add_if(c.owned, "owned items");
            pass.add_if(pass_note, "linear oracle cross-checked against the per-start scan");
            pass.add_if(matches!(c.layout, Layout::Tandem { .. }), "tandem repeat");
            pass.add_if(matches!(c.layout, Layout::Random { .. }), "random sequence");
            Ok(pass)
        }

        pub fn cases(t: Tier, seed: u64) -> Vec<Case> {
            let mut out = Vec::new();
            let reps = if t == Tier::Quick { 1 } else { 5 };
            let ladder = c1920_ladder();
            for rep in 0..reps {
                for (li, &v) in ladder.iter().enumerate() {
                    let mut rng = C1920Rng::new(seed ^ ((rep as u64) << 40) ^ ((li as u64) << 20) ^ 0x0f0f);
                    let big = v > 140_000;
                    // every scenario stays below about a second even at 2^20+1, so nothing is left out in the quick tier
                    let heavy_ok = true;
                    let masks = |rng: &mut C1920Rng| (1 + rng.below(7) as u8, 1 + rng.below(7) as u8);
                    let mut push = |n: usize, layout: Layout, min_len: Min, rng: &mut C1920Rng, all: bool| {
                        let (a, b) = if all { (1, 7) } else { masks(rng) };
                        out.push(Case { n, layout, start_mask: a, stop_mask: b, min_len, owned: rng.below(3) == 0, seed: rng.next() >> 11 });
                    };
                    // (1) sequence length = v: random over ATG (many short ORFs in all frames), tandem units
                    push(v, Layout::Random { acgt: false }, Min::Abs(rng.below(12)), &mut rng, false);
                    push(v, Layout::Tandem { unit: (li + rep) % 6 }, Min::Abs(rng.below(8)), &mut rng, true);
                    push(v, Layout::Random { acgt: true }, Min::NearLongest(rng.below(6)), &mut rng, true);
                    // (2) one ORF of ~v bases (lengths are multiples of three: the three nearest), straddling the
                    //     multiples of 256 / 65536 it spans, followed by a short one; min_len around its length
                    {
                        let codons = (v + 1) / 3; // start + body + stop codons: 3*codons is the multiple of three nearest to v (the one inside the band for the two lower values of a band)
                        let gap = 2 + rng.below(700);
                        let genes = vec![Gene { gap, starts: 1, body: codons - 2, inner_every: 0 }, Gene { gap: 5 + rng.below(9), starts: 1, body: 3, inner_every: 0 }];
                        push(gap + 3 * codons + 60, Layout::Genes { genes }, [Min::Abs(0), Min::NearLongest(rng.below(6))][rng.below(2)].clone(), &mut rng, false);
                    }
                    // (3) v nested start codons sharing one stop (v ORFs flushed at once), the first of them v*3+ bases long
                    if heavy_ok {
                        let gap = rng.below(300);
                        let genes = vec![Gene { gap, starts: v, body: 2 + rng.below(5), inner_every: 0 }, Gene { gap: 2, starts: 2, body: 1, inner_every: 0 }];
                        push(gap + 3 * v + 80, Layout::Genes { genes }, Min::Abs(rng.below(30)), &mut rng, false);
                    }
                    // (4) v ORFs in one sequence (tandem unit of 7 or 10 bases: the ORFs rotate through the frames)
                    if heavy_ok {
                        let unit = [1usize, 2][rng.below(2)];
                        push(v * UNITS[unit].len() + rng.below(3), Layout::Tandem { unit }, Min::Abs(rng.below(4)), &mut rng, true);
                    }
                    // (5) min_len = v with frames of every length around it: v-4..v+6 contains three or four multiples
                    //     of three; genes with exactly those lengths, in different frames
                    if heavy_ok {
                        let genes: Vec<Gene> = (0..5).map(|j| Gene { gap: 1 + rng.below(4), starts: 1, body: ((v + 3 * j) / 3).saturating_sub(3), inner_every: 0 }).collect();
                        let total: usize = genes.iter().map(|g| g.gap + 3 * (g.body + 2)).sum();
                        push(total + 20, Layout::Genes { genes }, Min::Abs(v), &mut rng, false);
                    }
                    // (6) long ORF with inner start codons every few codons (nested starts of all lengths), min_len near v/2
                    if !big {
                        let every = 2 + rng.below(40);
                        let genes = vec![Gene { gap: rng.below(100), starts: 1, body: v / 3, inner_every: every }];
                        push(v + 300, Layout::Genes { genes }, Min::Abs(v / 2), &mut rng, false);
                    }
                }
            }
            out
        }
    }

    // -----------------------------------------------------------------------
    pub mod revcomp {
        use super::*;
        use bio::alphabets::{dna, rna};

        #[derive(Serialize, Deserialize, Debug, Clone)]
        pub struct Case {
            pub n: usize,
            /// 0 nucleotides and ambiguity codes of both cases, 1 all 256 byte values in a cycle, 2 random bytes,
            /// 3 one symbol, 4 reverse-complement palindrome
            pub kind: u8,
            pub rna: bool,
            pub seed: u64,
        }

        pub fn check(c: &Case) -> R {
            let name = if c.rna { "rna" } else { "dna" };
            let mut table = [0u8; 256];
            for b in 0..256usize {
                table[b] = comp::expected(b as u8, c.rna);
            }
            let mut rng = C1920Rng::new(c.seed);
            let n = c.n;
            let codes: &[u8] = if c.rna { b"ACGUacguRYSWKMBDHVNZryswkmbdhvnzT" } else { b"ACGTacgtRYSWKMBDHVNZryswkmbdhvnzU" };
            let s: Vec<u8> = match c.kind {
                0 => rng.fill(codes, n),
                1 => (0..n).map(|i| (i % 256) as u8).collect(),
                2 => (0..n).map(|_| rng.next() as u8).collect(),
                3 => vec![codes[rng.below(codes.len())]; n],
                _ => {
                    let h = rng.fill(&codes[..8], n / 2);
                    let mut s = h.clone();
                    if n % 2 == 1 {
                        s.push(b'N');
                    }
                    s.extend(h.iter().rev().map(|&b| table[b as usize]));
                    s
                }
            };
            ensure!(s.len() == n, "harness: length");
            let rc = if c.rna { rna::revcomp(&s) } else { dna::revcomp(&s) };
            ensure!(rc.len() == n, "{}::revcomp of {} bytes ({:?}) has {} bytes", name, n, c, rc.len());
            if let Some(i) = (0..n).find(|&i| rc[i] != table[s[n - 1 - i] as usize]) {
                fail!("{}::revcomp of {} bytes ({:?}): byte {} of the result is {} but the complement of input byte {} ({}) is {}", name, n, c, i, rc[i], n - 1 - i, s[n - 1 - i], table[s[n - 1 - i] as usize]);
            }
            let rc_owned = if c.rna { rna::revcomp(s.clone()) } else { dna::revcomp(s.clone()) };
            ensure!(rc_owned == rc, "{}::revcomp over owned bytes differs from the one over references ({:?})", name, c);
            let back = if c.rna { rna::revcomp(&rc) } else { dna::revcomp(&rc) };
            if let Some(i) = (0..n.max(back.len())).find(|&i| back.get(i) != s.get(i)) {
                fail!("{}::revcomp twice does not restore the sequence ({:?}): first difference at byte {}: {:?} vs {:?}", name, c, i, back.get(i), s.get(i));
            }
            let mut pass = Pass::new(rc != s && n > 255);
            add_band(&mut pass, &c1920_bands!("sequence length"), n);
            pass.add_if(rc == s && n > 0, "reverse-complement palindrome");
            pass.add_if(c.kind == 1 || c.kind == 2, "all byte values");
            pass.add_if(c.rna, "rna");
            pass.add_if(!c.rna, "dna");
            Ok(pass)
        }

        pub fn cases(t: Tier, seed: u64) -> Vec<Case> {
            let mut out = Vec::new();
            let reps = if t == Tier::Quick { 1 } else { 6 };
            for rep in 0..reps {
                for (li, &v) in c1920_ladder().iter().enumerate() {
                    let mut rng = C1920Rng::new(seed ^ ((rep as u64) << 40) ^ ((li as u64) << 20) ^ 0x7ec0);
                    out.push(Case { n: v, kind: ((li + rep) % 5) as u8, rna: (li + rep) % 2 == 0, seed: rng.next() >> 11 });
                    out.push(Case { n: v, kind: ((li + rep + 2) % 5) as u8, rna: (li + rep) % 2 == 1, seed: rng.next() >> 11 });
                }
            }
            out
        }
    }

    // -----------------------------------------------------------------------
    pub mod alpha {
        use super::*;
        use bio::alphabets::{self, Alphabet, RankTransform};

        #[derive(Serialize, Deserialize, Debug, Clone)]
        pub enum Symbols {
            /// all 256 byte values except the listed ones
            AllBut(B),
            /// off + j*stride for j < sigma (stride odd)
            Stride { sigma: usize, off: u8, stride: u8 },
            /// 0 english lower, 1 english upper, 2 dna iupac, 3 protein iupac
            Named(u8),
        }

        #[derive(Serialize, Deserialize, Debug, Clone)]
        pub struct Case {
            pub symbols: Symbols,
            pub n: usize,
            /// 0 random members, 1 members in ascending cycle, 2 the largest member only
            pub kind: u8,
            /// where a non-member is planted for the second half of the check (clamped to the last position)
            pub bad_at: usize,
            pub seed: u64,
        }

        pub fn check(c: &Case) -> R {
            let (what, list, a): (String, Vec<u8>, Alphabet) = match &c.symbols {
                Symbols::AllBut(miss) => {
                    let l: Vec<u8> = (0u16..256).map(|b| b as u8).filter(|b| !miss.contains(b)).collect();
                    (format!("Alphabet::new(all bytes but {:?})", miss), l.clone(), Alphabet::new(&l))
                }
                Symbols::Stride { sigma, off, stride } => {
                    ensure!(*sigma >= 1 && *sigma <= 256 && stride % 2 == 1, "harness: stride alphabet");
                    let l: Vec<u8> = (0..*sigma).map(|j| off.wrapping_add((j as u8).wrapping_mul(*stride))).collect();
                    (format!("Alphabet::new({} bytes {}+j*{})", sigma, off, stride), l.clone(), Alphabet::new(&l))
                }
                Symbols::Named(k) => match k {
                    0 => ("english_ascii_lower_alphabet".to_string(), (b'a'..=b'z').collect(), alphabets::english_ascii_lower_alphabet()),
                    1 => ("english_ascii_upper_alphabet".to_string(), (b'A'..=b'Z').collect(), alphabets::english_ascii_upper_alphabet()),
                    2 => ("dna::iupac_alphabet".to_string(), b"ACGTRYSWKMBDHVNZacgtryswkmbdhvnz".to_vec(), alphabets::dna::iupac_alphabet()),
                    _ => ("protein::iupac_alphabet".to_string(), b"ABCDEFGHIKLMNPQRSTVWXYZabcdefghiklmnpqrstvwxyz".to_vec(), alphabets::protein::iupac_alphabet()),
                },
            };
            let mut member = [false; 256];
            for &b in &list {
                member[b as usize] = true;
            }
            let sorted: Vec<u8> = (0u16..256).filter(|&b| member[b as usize]).map(|b| b as u8).collect();
            ensure!(!sorted.is_empty(), "harness: empty alphabet");
            ensure!(a.len() == sorted.len(), "{}: len() = {} but there are {} distinct symbols", what, a.len(), sorted.len());
            ensure!(a.max_symbol() == sorted.last().copied(), "{}: max_symbol() = {:?}, expected {:?}", what, a.max_symbol(), sorted.last());
            let rt = RankTransform::new(&a);
            let mut rank_of = [0u8; 256];
            for (i, &b) in sorted.iter().enumerate() {
                rank_of[b as usize] = i as u8;
                let r = rt.get(b);
                ensure!(r as usize == i, "{}: rank of symbol {} is {}, but it is the {}-th smallest symbol", what, b, r, i);
            }
            let mut rng = C1920Rng::new(c.seed);
            let n = c.n;
            ensure!(n >= 1, "harness: empty text");
            let mut text: Vec<u8> = match c.kind {
                0 => rng.fill(&sorted, n),
                1 => (0..n).map(|i| sorted[i % sorted.len()]).collect(),
                _ => vec![*sorted.last().unwrap(); n],
            };
            // ---- a word: accepted, transformed symbol by symbol
            ensure!(a.is_word(&text), "{}: is_word rejects a text of {} members ({:?})", what, n, c);
            ensure!(a.is_word(text.iter().copied()), "{}: is_word over owned bytes rejects a text of {} members ({:?})", what, n, c);
            let tr = rt.transform(&text);
            ensure!(tr.len() == n, "{}: transform of {} symbols has {} ranks ({:?})", what, n, tr.len(), c);
            if let Some(i) = (0..n).find(|&i| tr[i] != rank_of[text[i] as usize]) {
                fail!("{}: transform ({:?}): rank {} at position {} for the symbol {}, expected {}", what, c, tr[i], i, text[i], rank_of[text[i] as usize]);
            }
            // ---- one non-member at the chosen position: rejected
            let non_members: Vec<u8> = (0u16..256).map(|b| b as u8).filter(|b| !member[*b as usize]).collect();
            let mut planted = false;
            if !non_members.is_empty() {
                let x = non_members[rng.below(non_members.len())];
                let at = c.bad_at.min(n - 1);
                text[at] = x;
                planted = true;
                ensure!(!a.is_word(&text), "{}: is_word accepts a text of {} symbols whose symbol {} (position {}) is no member ({:?})", what, n, x, at, c);
                ensure!(!a.is_word(text.iter().copied()), "{}: is_word over owned bytes accepts a text of {} symbols whose symbol {} (position {}) is no member ({:?})", what, n, x, at, c);
            }
            let mut pass = Pass::new(sorted.len() >= 2 && n > 255);
            add_band(&mut pass, &c1920_bands!("text length"), n);
            if planted {
                add_band(&mut pass, &c1920_bands!("position of the only non-member + 1"), c.bad_at.min(n - 1) + 1);
                pass.add_if(c.bad_at >= n - 1, "only the last symbol is a non-member");
            }
            pass.add_if(sorted.len() == 256, "alphabet of size 256");
            pass.add_if(sorted.len() == 255, "alphabet of size 255");
            pass.add_if(sorted.len() == 1, "alphabet of size 1");
            pass.add_if(matches!(c.symbols, Symbols::Named(_)), "library alphabet");
            Ok(pass)
        }

        pub fn cases(t: Tier, seed: u64) -> Vec<Case> {
            let mut out = Vec::new();
            let reps = if t == Tier::Quick { 1 } else { 6 };
            for rep in 0..reps {
                for (li, &v) in c1920_ladder().iter().enumerate() {
                    let mut rng = C1920Rng::new(seed ^ ((rep as u64) << 40) ^ ((li as u64) << 20) ^ 0xa1fa);
                    let syms = |rng: &mut C1920Rng, j: usize| match j % 6 {
                        0 => Symbols::AllBut(B(vec![])),
                        1 => Symbols::AllBut(B(vec![rng.next() as u8])),
                        2 => Symbols::Stride { sigma: 1 + rng.below(255), off: rng.next() as u8, stride: (rng.below(128) * 2 + 1) as u8 },
                        3 => Symbols::Named(rng.below(4) as u8),
                        4 => Symbols::AllBut(B((0..1 + rng.below(100)).map(|_| rng.next() as u8).collect())),
                        _ => Symbols::Stride { sigma: [1usize, 2, 128, 255][rng.below(4)], off: rng.next() as u8, stride: (rng.below(128) * 2 + 1) as u8 },
                    };
                    // text length = v, the non-member last or anywhere; and a longer text with the non-member at position v-1
                    let s = syms(&mut rng, li + rep);
                    out.push(Case { symbols: s, n: v, kind: ((li + rep) % 3) as u8, bad_at: if rng.below(2) == 0 { v - 1 } else { rng.below(v) }, seed: rng.next() >> 11 });
                    // never the full byte alphabet here: a non-member must exist
                    let j = 1 + (li + rep + rng.below(5)) % 5;
                    let s = syms(&mut rng, j);
                    out.push(Case { symbols: s, n: v + 1 + rng.below(v), kind: ((li + rep + 1) % 3) as u8, bad_at: v - 1, seed: rng.next() >> 11 });
                }
            }
            out
        }
    }

    // -----------------------------------------------------------------------
    pub mod gc {
        use super::*;
        use bio::seq_analysis::gc::{gc3_content, gc_content};

        #[derive(Serialize, Deserialize, Debug, Clone)]
        pub struct Case {
            pub n: usize,
            /// 0 random ACGT, 1 random over nucleotides of both cases and other bytes, 2 first half G second half T,
            /// 3 only G/C, 4 no G/C, 5 "GAT" repeated (gc3 = 1, gc = 1/3), 6 "ATG" repeated (gc3 = 0),
            /// 7 exactly `gc` G/C symbols at the front, 8 exactly `gc` G/C symbols spread evenly
            pub kind: u8,
            pub gc: usize,
            pub seed: u64,
        }

        fn is_gc(b: u8) -> bool {
            matches!(b, b'G' | b'C' | b'g' | b'c')
        }

        pub fn check(c: &Case) -> R {
            let n = c.n;
            ensure!(n >= 1, "harness: empty sequence");
            let mut rng = C1920Rng::new(c.seed);
            let g = c.gc.min(n);
            let s: Vec<u8> = match c.kind {
                0 => rng.fill(b"ACGT", n),
                1 => rng.fill(b"ACGTacgtNnSsUu-*\x00\xff", n),
                2 => (0..n).map(|i| if i < n / 2 { b'G' } else { b'T' }).collect(),
                3 => rng.fill(b"GCgc", n),
                4 => rng.fill(b"ATatNn", n),
                5 => (0..n).map(|i| b"GAT"[i % 3]).collect(),
                6 => (0..n).map(|i| b"ATG"[i % 3]).collect(),
                7 => (0..n).map(|i| if i < g { b"GCgc"[i % 4] } else { b'A' }).collect(),
                _ => {
                    // position i is G/C iff floor((i+1)*g/n) > floor(i*g/n): exactly g of them
                    (0..n).map(|i| if ((i as u128 + 1) * g as u128 / n as u128) > (i as u128 * g as u128 / n as u128) { b'C' } else { b'T' }).collect()
                }
            };
            let n_gc = s.iter().filter(|&&b| is_gc(b)).count();
            if c.kind >= 7 {
                ensure!(n_gc == g, "harness: {} G/C symbols generated instead of {}", n_gc, g);
            }
            let expect = n_gc as f64 / n as f64;
            let got = gc_content(&s);
            ensure!((got as f64 - expect).abs() <= 1e-6, "gc_content of {} symbols ({:?}) = {}, expected {}/{} = {}", n, c, got, n_gc, n, expect);
            let got_owned = gc_content(s.iter().copied());
            ensure!((got_owned as f64 - expect).abs() <= 1e-6, "gc_content over owned bytes of {} symbols ({:?}) = {}, expected {}/{} = {}", n, c, got_owned, n_gc, n, expect);
            let n3_total = (n + 2) / 3;
            let n3 = s.iter().step_by(3).filter(|&&b| is_gc(b)).count();
            let expect3 = n3 as f64 / n3_total as f64;
            let got3 = gc3_content(&s);
            ensure!((got3 as f64 - expect3).abs() <= 1e-6, "gc3_content of {} symbols ({:?}) = {}, expected {}/{} = {} (positions 0,3,6,..)", n, c, got3, n3, n3_total, expect3);
            let mut pass = Pass::new(n_gc > 0 && n_gc < n && n > 255);
            add_band(&mut pass, &c1920_bands!("sequence length"), n);
            add_band(&mut pass, &c1920_bands!("G/C symbols"), n_gc);
            add_band(&mut pass, &c1920_bands!("symbols counted by gc3"), n3_total);
            pass.add_if(n >= (1 << 24) - 1 && n <= (1 << 24) + 1, "sequence length in 2^24-1..=2^24+1");
            pass.add_if(n > (1 << 24) + 1, "sequence length > 2^24+1");
            pass.add_if(n_gc >= (1 << 24) - 1 && n_gc <= (1 << 24) + 1, "G/C symbols in 2^24-1..=2^24+1");
            pass.add_if(n_gc > (1 << 24) + 1, "G/C symbols > 2^24+1");
            pass.add_if((expect - expect3).abs() > 1e-6, "gc3 differs from gc");
            pass.add_if(n_gc == 0, "no G/C");
            pass.add_if(n_gc == n, "only G/C");
            Ok(pass)
        }

        pub fn cases(t: Tier, seed: u64) -> Vec<Case> {
            let mut out = Vec::new();
            let reps = if t == Tier::Quick { 1 } else { 4 };
            for rep in 0..reps {
                for (li, &v) in c1920_ladder().iter().enumerate() {
                    let mut rng = C1920Rng::new(seed ^ ((rep as u64) << 40) ^ ((li as u64) << 20) ^ 0x6c6c);
                    // sequence length = v
                    out.push(Case { n: v, kind: ((li + rep) % 7) as u8, gc: 0, seed: rng.next() >> 11 });
                    // exactly v G/C symbols in a longer sequence (dense at the front / spread out)
                    out.push(Case { n: v + 1 + rng.below(2 * v), kind: 7 + ((li + rep) % 2) as u8, gc: v, seed: rng.next() >> 11 });
                    // 3v-2..3v symbols: gc3 counts exactly v of them
                    out.push(Case { n: 3 * v - rng.below(3), kind: [0u8, 5, 6, 1][(li + rep) % 4], gc: 0, seed: rng.next() >> 11 });
                }
                // beyond the 24-bit mantissa of f32: counts are kept as integers and converted once, so the stated
                // accuracy (1e-6 absolute) still holds: three roundings of relative size 2^-24 on a ratio <= 1
                let mut rng = C1920Rng::new(seed ^ ((rep as u64) << 40) ^ 0x2424);
                let p24 = 1usize << 24;
                for (j, n) in [p24 - 1, p24, p24 + 1].into_iter().enumerate() {
                    out.push(Case { n, kind: [2u8, 0, 3][(j + rep) % 3], gc: 0, seed: rng.next() >> 11 });
                }
                // well beyond 2^24 G/C symbols (a count kept in f32 would stop growing at 2^24), and a mixed text
                out.push(Case { n: p24 + 1_000_003 + rng.below(1000), kind: 3, gc: 0, seed: rng.next() >> 11 });
                out.push(Case { n: p24 + 1_000_003 + rng.below(1000), kind: 1, gc: 0, seed: rng.next() >> 11 });
                for (j, g) in [p24 - 1, p24, p24 + 1].into_iter().enumerate() {
                    out.push(Case { n: g + 5 + rng.below(1 << 20), kind: 7 + ((j + rep) % 2) as u8, gc: g, seed: 0 });
                }
                if t == Tier::Thorough {
                    out.push(Case { n: (1 << 25) + 1 + rng.below(1000), kind: 2, gc: 0, seed: 0 });
                    out.push(Case { n: 3 * p24 + 1 + rng.below(3), kind: [0u8, 5][rep % 2], gc: 0, seed: rng.next() >> 11 });
                }
            }
            out
        }
    }
}

/// every band of the given parameters (the first `upto` bands of each) plus single labels, as a static list
fn large_must(bands: &[(&[&'static str; 12], usize)], singles: &[&'static str]) -> &'static [&'static str] {
    let mut v: Vec<&'static str> = Vec::new();
    for (labels, upto) in bands {
        v.extend(labels[..*upto].iter().copied());
    }
    v.extend(singles.iter().copied());
    Box::leak(v.into_boxed_slice())
}

pub fn property() -> Property {
    Property {
        id: "C20",
        rule: "orf: sequences over ATG/ACGT (random or assembled from start/stop/filler codons) with start set within {ATG,GTG,TTG} and stop set within {TAA,TAG,TGA}, and sequences over 2-3 letters or all bytes with codon sets cut out of the sequence or random (sets disjoint, possibly empty), min_len absolute 0..60 or placed around the length of an existing frame; oracle = per start codon the first in-frame stop; every reported ORF must be such a frame with length (stop codon included) >= min_len and offset = start mod 3, no ORF twice, every frame longer than min_len+2 reported; exhaustive: all sequences over ATG up to length 8 (11 thorough) and over ab up to 13 (17). complement: all 256 bytes for DNA and RNA against a table derived from IUPAC base sets, involution, case; revcomp on random byte strings twice = identity. alphabet: random symbol lists (size 0, 1, small, 100+, all 256) and the eight library alphabets: len, is_empty, max_symbol, is_word on every single byte and on texts with/without a planted non-member, rank transform = position in the sorted symbol list. gc: gc_content = (#G/C either case)/len, gc3 over positions 0,3,6... Non-trivial = orf: at least two ORFs that must be reported lying in different frames or sharing a stop (nested starts); complement: nucleotide code that changes; revcomp: length >= 2 with a changing symbol; alphabet: >= 2 symbols and a non-empty accepted text; gc: mixed content. Distinct = distinct serialised case. LARGE-SCALE (C20/large-orf, large-revcomp, large-alphabet, large-gc): a deterministic list of parameter records (sizes fixed by the ladder 255,256,257 .. 65535..65537, 70000, 131071..131073, 2^19+-1, 2^20+-1; contents from the run seed via splitmix64), spread over worker shards, every ladder value in every run. large-orf: per ladder value v: sequence length v (random over ATG / ACGT, tandem units of 6..20 bases), one ORF of ~v bases behind a random gap (straddling the multiples of 256 / 65536 it spans), v nested start codons sharing one stop, v ORFs in one sequence (tandem unit of 7 or 10 bases rotating through the frames), min_len = v with frames of every length around it, long ORF with inner start codons; start/stop sets are random non-empty subsets of {ATG,GTG,TTG} / {TAA,TAG,TGA}; oracle: one backward pass keeping per frame the nearest stop to the right (cross-checked against the per-start scan when n <= 3000); same verdict rules as C20/orf; additionally an iterator suspended while the same finder runs over another sequence. large-revcomp: length v, nucleotides / all 256 bytes / palindromes, DNA and RNA, against the IUPAC-derived table, twice = identity. large-alphabet: text length v and a single non-member at position v-1 (or last / anywhere) for alphabets of 1..256 symbols and four library alphabets: is_word true without and false with the non-member, transform = ranks. large-gc: length v, exactly v G/C symbols, exactly v symbols counted by gc3, and lengths / G/C counts at 2^24-1..2^24+1 and 2^24+10^6.",
        assumptions: &[
            "large-gc keeps the 1e-6 absolute tolerance beyond 2^24 symbols: the counts are integers converted to f32 once, so the result carries three roundings of relative size 2^-24 (two conversions, one division) on a ratio <= 1, i.e. an error below 2e-7 for every length below 2^63",
            "start and stop codon sets are disjoint (a codon that is both would be its own stop; the property does not define that)",
            "ORF length counts the stop codon (end - start), as the reported coordinates do",
            "GC content is checked on non-empty sequences only (0/0 otherwise); g and c count as G/C",
            "gc3_content is the G/C fraction over positions 0,3,6,.. as in its documented example",
            "for DNA, U is not a nucleotide code (left unchanged), for RNA, T is not",
        ],
        subs: vec![
            Box::new(PropSub {
                name: "C20/orf",
                quick: 1_000_000,
                thorough: 10_000_000,
                shards_quick: 16,
                shards_thorough: 16,
                strat: orf::strat,
                check: orf::check,
                must_reach: &[
                    ">=2 ORFs in different frames",
                    "nested starts (same stop)",
                    "start codon without in-frame stop (not reported)",
                    "empty start set",
                    "empty stop set",
                    "frame length = min_len + 3 (shortest that must be reported)",
                    "frame length in min_len..=min_len+2 (slack)",
                    "frame shorter than min_len",
                    "byte sequence",
                ],
                watch: true,
            }),
            Box::new(ExhSub { name: "C20/orf-exhaustive", enumerate: orf::enumerate, check: orf::check, must_reach: &["nested starts (same stop)"] }),
            Box::new(ExhSub { name: "C20/complement-exhaustive", enumerate: comp::enumerate_bytes, check: comp::check_byte, must_reach: &["lower-case code", "non-nucleotide byte", "self-complementary code"] }),
            Box::new(PropSub { name: "C20/revcomp", quick: 240_000, thorough: 2_000_000, shards_quick: 16, shards_thorough: 8, strat: comp::strat_seq, check: comp::check_seq, must_reach: &["lower-case nucleotides", "non-nucleotide bytes", "rna", "dna"], watch: false }),
            Box::new(PropSub { name: "C20/alphabet", quick: 180_000, thorough: 1_500_000, shards_quick: 16, shards_thorough: 8, strat: alpha::strat, check: alpha::check, must_reach: &["alphabet of size 1", "alphabet of size 256", "empty alphabet", "text with a non-member", "library alphabet"], watch: false }),
            Box::new(crate::oracles::scale::C1920LadderSub {
                name: "C20/large-orf",
                cases: large::orf::cases,
                check: large::orf::check,
                cost: |c| c.n as u64 + 2000,
                shards_quick: 16,
                shards_thorough: 16,
                must_reach: large_must(
                    &[
                        (&crate::c1920_bands!("sequence length"), 12),
                        (&crate::c1920_bands!("ORFs reported"), 12),
                        (&crate::c1920_bands!("length of a frame (bases)"), 12),
                        (&crate::c1920_bands!("nested starts sharing one stop"), 12),
                        (&crate::c1920_bands!("min_len"), 12),
                    ],
                    &[
                        "ORFs reported > 65536",
                        "longest ORF (bases) > 2^20",
                        "nested starts sharing one stop > 65536",
                        "frame length in min_len+3..=min_len+5 (shortest that must be reported)",
                        "frame length in min_len..=min_len+2 (slack)",
                        "frame shorter than min_len",
                        "a reported ORF straddles position 256 or 512",
                        "a reported ORF straddles position 65536",
                        "a reported ORF straddles position 2^17, 2^19 or 2^20",
                        "ORF starting beyond position 2^20",
                        ">=2 ORFs in different frames",
                        "owned items",
                        "linear oracle cross-checked against the per-start scan",
                    ],
                ),
            }),
            Box::new(crate::oracles::scale::C1920LadderSub {
                name: "C20/large-revcomp",
                cases: large::revcomp::cases,
                check: large::revcomp::check,
                cost: |c| c.n as u64 + 2000,
                shards_quick: 2,
                shards_thorough: 4,
                must_reach: large_must(&[(&crate::c1920_bands!("sequence length"), 12)], &["rna", "dna", "all byte values", "reverse-complement palindrome"]),
            }),
            Box::new(crate::oracles::scale::C1920LadderSub {
                name: "C20/large-alphabet",
                cases: large::alpha::cases,
                check: large::alpha::check,
                cost: |c| c.n as u64 + 2000,
                shards_quick: 2,
                shards_thorough: 4,
                must_reach: large_must(&[(&crate::c1920_bands!("text length"), 12), (&crate::c1920_bands!("position of the only non-member + 1"), 12)], &["alphabet of size 256", "library alphabet", "only the last symbol is a non-member"]),
            }),
            Box::new(crate::oracles::scale::C1920LadderSub {
                name: "C20/large-gc",
                cases: large::gc::cases,
                check: large::gc::check,
                cost: |c| c.n as u64 + 2000,
                shards_quick: 8,
                shards_thorough: 16,
                must_reach: large_must(
                    &[(&crate::c1920_bands!("sequence length"), 12), (&crate::c1920_bands!("G/C symbols"), 12), (&crate::c1920_bands!("symbols counted by gc3"), 12)],
                    &["sequence length in 2^24-1..=2^24+1", "sequence length > 2^24+1", "G/C symbols in 2^24-1..=2^24+1", "gc3 differs from gc"],
                ),
            }),
            Box::new(PropSub { name: "C20/gc", quick: 240_000, thorough: 2_000_000, shards_quick: 16, shards_thorough: 8, strat: gc::strat, check: gc::check, must_reach: &["lower-case g/c", "gc3 differs from gc", "length 1"], watch: false }),
        ],
    }
}
