//! C20 — ORF finder, DNA/RNA complement, alphabets, rank transform, GC content.
//!
//! ORF conventions read from orf.rs (and stated by the property): an ORF is reported as
//! `start..end` where `start` is the first base of the start codon and `end` is one past the
//! last base of the stop codon, so the length `end - start` *includes* the stop codon and is a
//! multiple of three; `offset = start mod 3`.

use crate::engine::gen::idx;
use crate::engine::*;
use crate::{ensure, fail};
use proptest::prelude::*;
use serde::{Deserialize, Serialize};

// ---------------------------------------------------------------------------
// ORF finder

pub mod orf {
    use super::*;
    use bio::seq_analysis::orf::{Finder, Orf};

    #[derive(Serialize, Deserialize, Debug, Clone)]
    pub struct Case {
        pub seq: B,
        /// start codons (3 bytes each), a set
        pub starts: Vec<B>,
        /// stop codons (3 bytes each), a set disjoint from the start codons
        pub stops: Vec<B>,
        pub min_len: usize,
    }

    /// (start, end) of every frame: a start codon at `start`, `end` = one past the first
    /// in-frame stop codon behind it; start codons without an in-frame stop are no frames
    pub fn frames(seq: &[u8], starts: &[[u8; 3]], stops: &[[u8; 3]]) -> (Vec<(usize, usize)>, usize) {
        let n = seq.len();
        let mut out = Vec::new();
        let mut open = 0usize;
        if n < 3 {
            return (out, 0);
        }
        for s in 0..=n - 3 {
            if !starts.iter().any(|c| c[..] == seq[s..s + 3]) {
                continue;
            }
            let mut e = s + 3;
            let mut found = false;
            while e + 3 <= n {
                if stops.iter().any(|c| c[..] == seq[e..e + 3]) {
                    out.push((s, e + 3));
                    found = true;
                    break;
                }
                e += 3;
            }
            if !found {
                open += 1;
            }
        }
        (out, open)
    }

    fn codons(v: &[B]) -> Option<Vec<[u8; 3]>> {
        v.iter().map(|c| <[u8; 3]>::try_from(&c[..]).ok()).collect()
    }

    fn show(c: &Case) -> String {
        let f = |v: &Vec<B>| v.iter().map(|c| lossy(c)).collect::<Vec<_>>().join(",");
        format!("seq {:?} (len {}) starts {{{}}} stops {{{}}} min_len {}", lossy(&c.seq), c.seq.len(), f(&c.starts), f(&c.stops), c.min_len)
    }

    pub fn check(c: &Case) -> R {
        let seq: &[u8] = &c.seq;
        let (Some(starts), Some(stops)) = (codons(&c.starts), codons(&c.stops)) else {
            fail!("harness: codon that is not 3 bytes long generated");
        };
        ensure!(!starts.iter().any(|s| stops.contains(s)), "harness: start and stop codon sets overlap");
        let finder = Finder::new(starts.iter().collect(), stops.iter().collect(), c.min_len);
        // more results than positions means duplicates or an iterator that does not end
        let cap = seq.len() + 2;
        let got: Vec<Orf> = finder.find_all(seq).take(cap).collect();
        ensure!(got.len() < cap, "{}: find_all yields more ORFs ({}+) than the sequence has positions (does not terminate?)", show(c), got.len());
        let got_owned: Vec<Orf> = finder.find_all(seq.iter().copied()).take(cap).collect();
        ensure!(got == got_owned, "{}: find_all over &u8 items gives {:?} but over u8 items {:?}", show(c), got, got_owned);

        let (frames, open) = frames(seq, &starts, &stops);
        for o in &got {
            ensure!(o.start <= o.end && o.end <= seq.len(), "{}: reported {:?} is out of range", show(c), o);
            let len = o.end - o.start;
            ensure!(len % 3 == 0 && len >= 6, "{}: reported {:?} has length {} (not a multiple of three holding a start and a stop codon)", show(c), o, len);
            ensure!(starts.iter().any(|s| s[..] == seq[o.start..o.start + 3]), "{}: reported {:?} does not begin with a start codon ({:?})", show(c), o, lossy(&seq[o.start..o.start + 3]));
            ensure!(stops.iter().any(|s| s[..] == seq[o.end - 3..o.end]), "{}: reported {:?} does not end with a stop codon ({:?})", show(c), o, lossy(&seq[o.end - 3..o.end]));
            ensure!(
                frames.contains(&(o.start, o.end)),
                "{}: reported {:?} contains an earlier in-frame stop codon (the frame of this start is {:?})",
                show(c), o, frames.iter().find(|f| f.0 == o.start)
            );
            ensure!(len >= c.min_len, "{}: reported {:?} has length {} < min_len", show(c), o, len);
            ensure!(o.offset as i64 == (o.start % 3) as i64, "{}: reported {:?} carries offset {} but start mod 3 = {}", show(c), o, o.offset, o.start % 3);
        }
        let mut sorted: Vec<(usize, usize)> = got.iter().map(|o| (o.start, o.end)).collect();
        sorted.sort_unstable();
        if let Some(w) = sorted.windows(2).find(|w| w[0] == w[1]) {
            fail!("{}: ORF {:?} is reported more than once: {:?}", show(c), w[0], got);
        }
        for f in &frames {
            let len = f.1 - f.0;
            if len > c.min_len + 2 {
                ensure!(sorted.binary_search(f).is_ok(), "{}: frame {:?} of length {} > min_len + 2 is not reported; got {:?}", show(c), f, len, got);
            }
        }

        let must: Vec<(usize, usize)> = frames.iter().copied().filter(|f| f.1 - f.0 > c.min_len + 2).collect();
        let diff_frames = must.iter().any(|a| must.iter().any(|b| a.0 % 3 != b.0 % 3));
        let nested = must.iter().any(|a| must.iter().any(|b| a.0 != b.0 && a.1 == b.1));
        let overlapping = must.iter().any(|a| must.iter().any(|b| a.0 % 3 != b.0 % 3 && a.0 < b.1 && b.0 < a.1));
        let mut pass = Pass::new(diff_frames || nested);
        pass.add_if(diff_frames, ">=2 ORFs in different frames");
        pass.add_if(overlapping, "overlapping ORFs in different frames");
        pass.add_if(nested, "nested starts (same stop)");
        pass.add_if(must.iter().any(|a| must.iter().any(|b| a.0 % 3 == b.0 % 3 && a.1 < b.1)), "successive ORFs in one frame");
        pass.add_if(open > 0, "start codon without in-frame stop (not reported)");
        pass.add_if(c.starts.is_empty(), "empty start set");
        pass.add_if(c.stops.is_empty(), "empty stop set");
        pass.add_if(frames.iter().any(|f| f.1 - f.0 == c.min_len + 3), "frame length = min_len + 3 (shortest that must be reported)");
        pass.add_if(frames.iter().any(|f| (c.min_len..=c.min_len + 2).contains(&(f.1 - f.0))), "frame length in min_len..=min_len+2 (slack)");
        pass.add_if(frames.iter().any(|f| f.1 - f.0 < c.min_len), "frame shorter than min_len");
        pass.add_if(got.is_empty(), "no ORF reported");
        pass.add_if(frames.is_empty(), "no frame in the sequence");
        pass.add_if(got.len() >= 4, ">=4 ORFs reported");
        pass.add_if(c.min_len == 0, "min_len 0");
        pass.add_if(seq.len() < 6, "sequence shorter than two codons");
        pass.add_if(seq.iter().any(|b| !b.is_ascii_graphic()), "byte sequence");
        Ok(pass)
    }

    #[derive(Debug, Clone)]
    enum Piece {
        Rand(Vec<u8>),
        Start(u16),
        Stop(u16),
        Codons(Vec<u8>),
        /// start codon, filler codons (may hold further start codons), stop codon
        Gene(u16, Vec<u8>, u16),
    }

    #[derive(Debug, Clone)]
    enum MinSpec {
        Abs(usize),
        /// length of the frame chosen by the fraction, plus delta - 3
        Near(u16, usize),
    }

    fn min_spec() -> BoxedStrategy<MinSpec> {
        prop_oneof![4 => (0usize..=9).prop_map(MinSpec::Abs), 1 => (10usize..=40).prop_map(MinSpec::Abs), 3 => (any::<u16>(), 0usize..=5).prop_map(|(f, d)| MinSpec::Near(f, d))].boxed()
    }

    fn finish(seq: Vec<u8>, mut starts: Vec<[u8; 3]>, mut stops: Vec<[u8; 3]>, ms: MinSpec) -> Case {
        starts.sort_unstable();
        starts.dedup();
        stops.sort_unstable();
        stops.dedup();
        stops.retain(|c| !starts.contains(c));
        let min_len = match ms {
            MinSpec::Abs(m) => m,
            MinSpec::Near(f, d) => {
                let (fr, _) = frames(&seq, &starts, &stops);
                if fr.is_empty() {
                    d
                } else {
                    let (s, e) = fr[idx(f, fr.len() - 1)];
                    (e - s + d).saturating_sub(3)
                }
            }
        };
        Case { seq: B(seq), starts: starts.iter().map(|c| B(c.to_vec())).collect(), stops: stops.iter().map(|c| B(c.to_vec())).collect(), min_len }
    }

    fn subset(of: &'static [&'static [u8; 3]], full: u32) -> BoxedStrategy<Vec<[u8; 3]>> {
        // mostly non-empty subsets, sometimes empty
        prop_oneof![
            1 => Just(Vec::new()),
            full => Just(of.iter().map(|c| **c).collect::<Vec<[u8; 3]>>()),
            8 => proptest::collection::vec(any::<bool>(), of.len()).prop_map(move |m| {
                let mut v: Vec<[u8; 3]> = of.iter().zip(&m).filter(|(_, &b)| b).map(|(c, _)| **c).collect();
                if v.is_empty() {
                    v.push(*of[0]);
                }
                v
            }),
        ]
        .boxed()
    }

    const BIO_STARTS: &[&[u8; 3]] = &[b"ATG", b"GTG", b"TTG"];
    const BIO_STOPS: &[&[u8; 3]] = &[b"TAA", b"TAG", b"TGA"];
    /// codons that are no stop codons; the last two are start codons
    const FILLER: [&[u8; 3]; 6] = [b"AAA", b"GGG", b"GCA", b"TTT", b"ATG", b"GTG"];

    fn letters(alpha: &'static [u8], len: impl Into<proptest::collection::SizeRange>) -> BoxedStrategy<Vec<u8>> {
        proptest::collection::vec((0..alpha.len()).prop_map(move |i| alpha[i]), len).boxed()
    }

    /// biological codon sets; sequence random over ATG / ACGT or assembled from codon pieces
    fn bio() -> BoxedStrategy<Case> {
        let piece = prop_oneof![
            3 => letters(b"ATG", 0..=5).prop_map(Piece::Rand),
            3 => any::<u16>().prop_map(Piece::Start),
            3 => any::<u16>().prop_map(Piece::Stop),
            // whole codons that are neither start nor stop
            3 => proptest::collection::vec(0usize..4, 0..=5).prop_map(|v| Piece::Codons(v.iter().flat_map(|&i| FILLER[i].iter().copied()).collect())),
            5 => (any::<u16>(), proptest::collection::vec(0usize..6, 0..=6), any::<u16>()).prop_map(|(a, v, b)| Piece::Gene(a, v.iter().flat_map(|&i| FILLER[i].iter().copied()).collect(), b)),
        ];
        let seq = prop_oneof![
            2 => letters(b"ATG", 10..=90),
            1 => letters(b"ACGT", 0..=90),
            5 => proptest::collection::vec(piece, 2..=10).prop_map(|ps| {
                let mut s = Vec::new();
                for p in ps {
                    match p {
                        Piece::Rand(v) | Piece::Codons(v) => s.extend(v),
                        Piece::Gene(a, body, b) => {
                            s.extend_from_slice(BIO_STARTS[idx(a, 2)]);
                            s.extend(body);
                            s.extend_from_slice(BIO_STOPS[idx(b, 2)]);
                        }
                        Piece::Start(f) => s.extend_from_slice(BIO_STARTS[idx(f, 2)]),
                        Piece::Stop(f) => s.extend_from_slice(BIO_STOPS[idx(f, 2)]),
                    }
                }
                s
            }),
        ];
        (seq, subset(BIO_STARTS, 10), subset(BIO_STOPS, 24), min_spec()).prop_map(|(s, a, b, m)| finish(s, a, b, m)).boxed()
    }

    /// arbitrary codon sets over a small alphabet or over bytes: codons are random triples or
    /// are cut out of the sequence itself
    fn general() -> BoxedStrategy<Case> {
        let seqs = prop_oneof![
            3 => proptest::collection::vec((0u8..2).prop_map(|c| b'a' + c), 0..=60),
            3 => proptest::collection::vec((0u8..3).prop_map(|c| b'a' + c), 6..=90),
            1 => proptest::collection::vec(any::<u8>(), 0..=60),
            // bytes with few distinct values: codons cut from the sequence recur
            2 => (proptest::collection::vec(any::<u8>(), 2..=3), proptest::collection::vec(any::<u16>(), 6..=70)).prop_map(|(al, v)| v.iter().map(|&f| al[idx(f, al.len() - 1)]).collect::<Vec<u8>>()),
        ];
        let codon_src = || {
            let one = prop_oneof![4 => any::<u16>().prop_map(Ok), 1 => proptest::array::uniform3(prop_oneof![(0u8..3).prop_map(|c| b'a' + c), any::<u8>()]).prop_map(Err)];
            move |hi: usize| prop_oneof![1 => proptest::collection::vec(one.clone(), 0..=0), 16 => proptest::collection::vec(one.clone(), 1..=hi)]
        };
        (seqs, codon_src()(2), codon_src()(5), min_spec())
            .prop_map(|(s, a, b, m)| {
                let cut = |v: Vec<Result<u16, [u8; 3]>>| -> Vec<[u8; 3]> {
                    v.into_iter()
                        .filter_map(|x| match x {
                            Ok(f) => {
                                if s.len() >= 3 {
                                    let p = idx(f, s.len() - 3);
                                    Some([s[p], s[p + 1], s[p + 2]])
                                } else {
                                    None
                                }
                            }
                            Err(c) => Some(c),
                        })
                        .collect()
                };
                let (a, b) = (cut(a), cut(b));
                finish(s, a, b, m)
            })
            .boxed()
    }

    pub fn strat(_t: Tier) -> BoxedStrategy<Case> {
        prop_oneof![3 => bio(), 2 => general()].boxed()
    }

    fn all_strings(alpha: &[u8], len: usize) -> Vec<Vec<u8>> {
        let mut out = vec![vec![]];
        for _ in 0..len {
            out = out.into_iter().flat_map(|s| alpha.iter().map(move |&c| { let mut n = s.clone(); n.push(c); n })).collect();
        }
        out
    }

    /// every sequence over {A,T,G} of length <= L with start {ATG}, stop {TAA,TAG,TGA} (and the
    /// two-letter analogue start {aab}, stop {bba} up to a larger length), min_len 0, 4, 6, 9
    pub fn enumerate(t: Tier) -> Box<dyn Iterator<Item = Case>> {
        let (l3, l2) = match t {
            Tier::Quick => (8, 13),
            Tier::Thorough => (11, 17),
        };
        let mk = |alpha: &'static [u8], maxlen: usize, starts: Vec<&'static [u8; 3]>, stops: Vec<&'static [u8; 3]>| {
            (0..=maxlen).flat_map(move |l| {
                let (starts, stops) = (starts.clone(), stops.clone());
                all_strings(alpha, l).into_iter().flat_map(move |s| {
                    let (starts, stops) = (starts.clone(), stops.clone());
                    [0usize, 4, 6, 9].into_iter().map(move |m| Case {
                        seq: B(s.clone()),
                        starts: starts.iter().map(|c| B(c.to_vec())).collect(),
                        stops: stops.iter().map(|c| B(c.to_vec())).collect(),
                        min_len: m,
                    })
                })
            })
        };
        Box::new(mk(b"ATG", l3, vec![b"ATG"], vec![b"TAA", b"TAG", b"TGA"]).chain(mk(b"ab", l2, vec![b"aab"], vec![b"bba", b"bab"])))
    }
}

// ---------------------------------------------------------------------------
// complement tables

pub mod comp {
    use super::*;
    use bio::alphabets::{dna, rna};

    /// IUPAC code -> set of bases as bits A=1 C=2 G=4 T/U=8
    fn code_set(upper: u8, rna: bool) -> Option<u8> {
        let t = if rna { b'U' } else { b'T' };
        Some(match upper {
            b'A' => 1,
            b'C' => 2,
            b'G' => 4,
            x if x == t => 8,
            b'R' => 1 | 4,
            b'Y' => 2 | 8,
            b'S' => 2 | 4,
            b'W' => 1 | 8,
            b'K' => 4 | 8,
            b'M' => 1 | 2,
            b'B' => 2 | 4 | 8,
            b'D' => 1 | 4 | 8,
            b'H' => 1 | 2 | 8,
            b'V' => 1 | 2 | 4,
            b'N' => 15,
            _ => return None,
        })
    }

    fn set_code(set: u8, rna: bool) -> u8 {
        for c in b'A'..=b'Z' {
            if code_set(c, rna) == Some(set) {
                return c;
            }
        }
        unreachable!()
    }

    /// complement by definition: complement every base of the code's set (A<->T/U, C<->G), case
    /// preserved, every other byte unchanged
    pub fn expected(b: u8, rna: bool) -> u8 {
        let lower = b.is_ascii_lowercase();
        let up = b.to_ascii_uppercase();
        match code_set(up, rna) {
            None => b,
            Some(s) => {
                let cs = ((s & 1) << 3) | ((s & 8) >> 3) | ((s & 2) << 1) | ((s & 4) >> 1);
                let c = set_code(cs, rna);
                if lower {
                    c.to_ascii_lowercase()
                } else {
                    c
                }
            }
        }
    }

    fn complement(b: u8, is_rna: bool) -> u8 {
        if is_rna {
            rna::complement(b)
        } else {
            dna::complement(b)
        }
    }

    #[derive(Serialize, Deserialize, Debug, Clone)]
    pub struct ByteCase {
        pub byte: u8,
        pub rna: bool,
    }

    pub fn check_byte(c: &ByteCase) -> R {
        let name = if c.rna { "rna" } else { "dna" };
        let b = c.byte;
        let got = complement(b, c.rna);
        let exp = expected(b, c.rna);
        let nucleotide = code_set(b.to_ascii_uppercase(), c.rna).is_some();
        ensure!(
            got == exp,
            "{}::complement({} {:?}) = {} {:?}, expected {} {:?} ({})",
            name, b, b as char, got, got as char, exp, exp as char,
            if nucleotide { "complement of the IUPAC base set, case preserved" } else { "not a nucleotide code: unchanged" }
        );
        let back = complement(got, c.rna);
        ensure!(back == b, "{}::complement is no involution: {} {:?} -> {} {:?} -> {} {:?}", name, b, b as char, got, got as char, back, back as char);
        ensure!(
            b.is_ascii_lowercase() == got.is_ascii_lowercase() && b.is_ascii_uppercase() == got.is_ascii_uppercase(),
            "{}::complement does not preserve case: {:?} -> {:?}", name, b as char, got as char
        );
        let mut pass = Pass::new(nucleotide && got != b);
        pass.add_if(nucleotide, "nucleotide code");
        pass.add_if(nucleotide && got == b, "self-complementary code");
        pass.add_if(!nucleotide, "non-nucleotide byte");
        pass.add_if(b.is_ascii_lowercase() && nucleotide, "lower-case code");
        pass.add_if(b >= 128, "non-ASCII byte");
        Ok(pass)
    }

    pub fn enumerate_bytes(_t: Tier) -> Box<dyn Iterator<Item = ByteCase>> {
        Box::new([false, true].into_iter().flat_map(|rna| (0u16..256).map(move |b| ByteCase { byte: b as u8, rna })))
    }

    #[derive(Serialize, Deserialize, Debug, Clone)]
    pub struct SeqCase {
        pub seq: B,
        pub rna: bool,
    }

    pub fn check_seq(c: &SeqCase) -> R {
        let name = if c.rna { "rna" } else { "dna" };
        let s: &[u8] = &c.seq;
        let rc = if c.rna { rna::revcomp(s) } else { dna::revcomp(s) };
        let exp: Vec<u8> = s.iter().rev().map(|&b| expected(b, c.rna)).collect();
        ensure!(rc == exp, "{}::revcomp({:?}) = {:?}, expected {:?}", name, B(s.to_vec()), B(rc.clone()), B(exp.clone()));
        let rc_owned = if c.rna { rna::revcomp(s.to_vec()) } else { dna::revcomp(s.to_vec()) };
        ensure!(rc_owned == rc, "{}::revcomp over owned bytes differs: {:?} vs {:?}", name, B(rc_owned.clone()), B(rc.clone()));
        let back = if c.rna { rna::revcomp(&rc) } else { dna::revcomp(&rc) };
        ensure!(back == s, "{}::revcomp twice does not restore {:?}: got {:?} (via {:?})", name, B(s.to_vec()), B(back.clone()), B(rc.clone()));
        let changed = s.iter().filter(|&&b| expected(b, c.rna) != b).count();
        let mut pass = Pass::new(s.len() >= 2 && changed >= 1 && rc != s);
        pass.add_if(s.is_empty(), "empty sequence");
        pass.add_if(rc == s && !s.is_empty(), "reverse-complement palindrome");
        pass.add_if(s.iter().any(|b| b.is_ascii_lowercase() && expected(*b, c.rna) != *b), "lower-case nucleotides");
        pass.add_if(s.iter().any(|&b| code_set(b.to_ascii_uppercase(), c.rna).is_none()), "non-nucleotide bytes");
        pass.add_if(s.iter().any(|&b| b"RYKMBDHVrykmbdhv".contains(&b)), "ambiguity codes");
        pass.add_if(c.rna, "rna");
        pass.add_if(!c.rna, "dna");
        Ok(pass)
    }

    pub fn strat_seq(_t: Tier) -> BoxedStrategy<SeqCase> {
        let sym = prop_oneof![
            4 => proptest::sample::select(&b"ACGTUacgtu"[..]),
            3 => proptest::sample::select(&b"RYSWKMBDHVNZryswkmbdhvnz"[..]),
            2 => any::<u8>(),
        ];
        let seq = prop_oneof![
            6 => proptest::collection::vec(sym, 0..=40),
            // palindromes: s + revcomp-by-definition(s)
            1 => (proptest::collection::vec(proptest::sample::select(&b"ACGTacgtNRYryKM"[..]), 1..=10), any::<bool>()).prop_map(|(h, _)| {
                let mut s = h.clone();
                s.extend(h.iter().rev().map(|&b| expected(b, false)));
                s
            }),
        ];
        (seq, any::<bool>()).prop_map(|(s, rna)| SeqCase { seq: B(s), rna }).boxed()
    }
}

// ---------------------------------------------------------------------------
// alphabets and rank transform

pub mod alpha {
    use super::*;
    use bio::alphabets::{self, Alphabet, RankTransform};

    #[derive(Serialize, Deserialize, Debug, Clone)]
    pub enum Build {
        /// Alphabet::new(symbols)
        New,
        /// empty alphabet, then insert() symbol by symbol
        Insert,
        /// library alphabet number k; `symbols` is ignored, the member list is the literal in NAMED
        Named(u8),
    }

    #[derive(Serialize, Deserialize, Debug, Clone)]
    pub struct Case {
        pub build: Build,
        /// symbols handed to the constructor (order and duplicates are free)
        pub symbols: B,
        pub texts: Vec<B>,
    }

    const NAMED: &[(&str, &[u8])] = &[
        ("dna::alphabet", b"ACGTacgt"),
        ("dna::n_alphabet", b"ACGTNacgtn"),
        ("dna::iupac_alphabet", b"ACGTRYSWKMBDHVNZacgtryswkmbdhvnz"),
        ("rna::alphabet", b"ACGUacgu"),
        ("rna::n_alphabet", b"ACGUNacgun"),
        ("rna::iupac_alphabet", b"ACGURYSWKMBDHVNZacguryswkmbdhvnz"),
        ("protein::alphabet", b"ARNDCEQGHILKMFPSTWYVarndceqghilkmfpstwyv"),
        ("protein::iupac_alphabet", b"ABCDEFGHIKLMNPQRSTVWXYZabcdefghiklmnpqrstvwxyz"),
    ];

    fn named(k: u8) -> Alphabet {
        match k {
            0 => alphabets::dna::alphabet(),
            1 => alphabets::dna::n_alphabet(),
            2 => alphabets::dna::iupac_alphabet(),
            3 => alphabets::rna::alphabet(),
            4 => alphabets::rna::n_alphabet(),
            5 => alphabets::rna::iupac_alphabet(),
            6 => alphabets::protein::alphabet(),
            _ => alphabets::protein::iupac_alphabet(),
        }
    }

    pub fn check(c: &Case) -> R {
        let (what, list): (String, Vec<u8>) = match c.build {
            Build::New => (format!("Alphabet::new({:?})", c.symbols), c.symbols.to_vec()),
            Build::Insert => (format!("Alphabet built by insert() of {:?}", c.symbols), c.symbols.to_vec()),
            Build::Named(k) => {
                ensure!((k as usize) < NAMED.len(), "harness: unknown named alphabet");
                (NAMED[k as usize].0.to_string(), NAMED[k as usize].1.to_vec())
            }
        };
        let mut member = [false; 256];
        for &b in &list {
            member[b as usize] = true;
        }
        let sorted: Vec<u8> = (0u16..256).filter(|&b| member[b as usize]).map(|b| b as u8).collect();
        let a = match c.build {
            Build::New => Alphabet::new(&list),
            Build::Insert => {
                let mut a = Alphabet::new(b"");
                for &b in &list {
                    a.insert(b);
                }
                a
            }
            Build::Named(k) => named(k),
        };
        ensure!(a.len() == sorted.len(), "{}: len() = {} but there are {} distinct symbols", what, a.len(), sorted.len());
        ensure!(a.is_empty() == sorted.is_empty(), "{}: is_empty() = {} with {} symbols", what, a.is_empty(), sorted.len());
        ensure!(a.max_symbol() == sorted.last().copied(), "{}: max_symbol() = {:?}, expected {:?}", what, a.max_symbol(), sorted.last());
        for b in 0u16..256 {
            let b = b as u8;
            ensure!(a.is_word([b]) == member[b as usize], "{}: is_word([{}]) = {} but membership is {}", what, b, a.is_word([b]), member[b as usize]);
        }
        ensure!(a.is_word(b""), "{}: the empty text is not accepted", what);
        let rt = RankTransform::new(&a);
        ensure!(rt.ranks.len() == sorted.len(), "{}: rank transform has {} entries for {} symbols", what, rt.ranks.len(), sorted.len());
        for (i, &b) in sorted.iter().enumerate() {
            let r = rt.get(b);
            ensure!(r as usize == i, "{}: rank of symbol {} is {}, but it is the {}-th smallest symbol (ranks must be an order-preserving bijection onto 0..{})", what, b, r, i, sorted.len());
        }
        let back = rt.alphabet();
        ensure!(back == a, "{}: RankTransform::alphabet() does not restore the alphabet", what);
        let mut any_word = false;
        let mut any_nonword = false;
        for t in &c.texts {
            let expect = t.iter().all(|&b| member[b as usize]);
            let got = a.is_word(&t[..]);
            ensure!(got == expect, "{}: is_word({:?}) = {}, expected {}", what, t, got, expect);
            let got_owned = a.is_word(t.iter().copied());
            ensure!(got_owned == expect, "{}: is_word over owned bytes of {:?} = {}, expected {}", what, t, got_owned, expect);
            if expect {
                any_word |= !t.is_empty();
                let tr = rt.transform(&t[..]);
                let exp: Vec<u8> = t.iter().map(|b| sorted.binary_search(b).unwrap() as u8).collect();
                ensure!(tr == exp, "{}: transform({:?}) = {:?}, expected {:?}", what, t, tr, exp);
            } else {
                any_nonword = true;
            }
        }
        let mut pass = Pass::new(sorted.len() >= 2 && any_word);
        pass.add_if(sorted.is_empty(), "empty alphabet");
        pass.add_if(sorted.len() == 1, "alphabet of size 1");
        pass.add_if(sorted.len() == 256, "alphabet of size 256");
        pass.add_if(sorted.len() >= 100 && sorted.len() < 256, "alphabet of size 100..255");
        pass.add_if(list.len() > sorted.len(), "duplicate symbols in constructor input");
        pass.add_if(any_word, "text over the alphabet");
        pass.add_if(any_nonword, "text with a non-member");
        pass.add_if(c.texts.iter().any(|t| !t.is_empty() && t[..t.len() - 1].iter().all(|&b| member[b as usize]) && !member[t[t.len() - 1] as usize]), "only the last symbol is a non-member");
        pass.add_if(matches!(c.build, Build::Named(_)), "library alphabet");
        pass.add_if(matches!(c.build, Build::Insert), "built by insert");
        pass.add_if(member[0] || member[255], "contains byte 0 or 255");
        Ok(pass)
    }

    #[derive(Debug, Clone)]
    enum TextSpec {
        /// positions into the member list
        Members(Vec<u16>),
        /// members with one arbitrary byte put at a position
        Planted(Vec<u16>, u16, u8),
        Bytes(Vec<u8>),
    }

    pub fn strat(_t: Tier) -> BoxedStrategy<Case> {
        let symbols = prop_oneof![
            1 => Just(Vec::new()),
            2 => proptest::collection::vec(any::<u8>(), 1..=1),
            6 => proptest::collection::vec(any::<u8>(), 2..=12),
            2 => proptest::collection::vec(prop_oneof![(b'a'..=b'f'), (b'A'..=b'F')], 1..=10),
            2 => proptest::collection::vec(any::<u8>(), 100..=400),
            // all 256 byte values in a rotated order, some twice
            2 => (any::<u8>(), proptest::collection::vec(any::<u8>(), 0..=5)).prop_map(|(rot, extra)| {
                let mut v: Vec<u8> = (0u16..256).map(|b| (b as u8).wrapping_add(rot)).collect();
                v.extend(extra);
                v
            }),
            // all but a few
            1 => proptest::collection::vec(any::<u8>(), 1..=3).prop_map(|miss| (0u16..256).map(|b| b as u8).filter(|b| !miss.contains(b)).collect()),
        ];
        let build = prop_oneof![5 => Just(Build::New), 2 => Just(Build::Insert), 2 => (0u8..8).prop_map(Build::Named)];
        let text = prop_oneof![
            4 => proptest::collection::vec(any::<u16>(), 0..=20).prop_map(TextSpec::Members),
            4 => (proptest::collection::vec(any::<u16>(), 0..=20), any::<u16>(), any::<u8>()).prop_map(|(m, p, b)| TextSpec::Planted(m, p, b)),
            1 => proptest::collection::vec(any::<u8>(), 0..=8).prop_map(TextSpec::Bytes),
        ];
        (build, symbols, proptest::collection::vec(text, 1..=4))
            .prop_map(|(build, symbols, texts)| {
                let list: Vec<u8> = match build {
                    Build::Named(k) => NAMED[k as usize].1.to_vec(),
                    _ => symbols.clone(),
                };
                let mut sorted = list.clone();
                sorted.sort_unstable();
                sorted.dedup();
                let pick = |m: &[u16]| -> Vec<u8> { if sorted.is_empty() { Vec::new() } else { m.iter().map(|&f| sorted[idx(f, sorted.len() - 1)]).collect() } };
                let texts = texts
                    .into_iter()
                    .map(|t| match t {
                        TextSpec::Members(m) => B(pick(&m)),
                        TextSpec::Planted(m, p, b) => {
                            let mut v = pick(&m);
                            let at = idx(p, v.len());
                            v.insert(at, b);
                            B(v)
                        }
                        TextSpec::Bytes(v) => B(v),
                    })
                    .collect();
                let symbols = if matches!(build, Build::Named(_)) { Vec::new() } else { symbols };
                Case { build, symbols: B(symbols), texts }
            })
            .boxed()
    }
}

// ---------------------------------------------------------------------------
// GC content

pub mod gc {
    use super::*;
    use bio::seq_analysis::gc::{gc3_content, gc_content};

    #[derive(Serialize, Deserialize, Debug, Clone)]
    pub struct Case {
        pub seq: B,
    }

    fn is_gc(b: u8) -> bool {
        matches!(b, b'G' | b'C' | b'g' | b'c')
    }

    pub fn check(c: &Case) -> R {
        let s: &[u8] = &c.seq;
        ensure!(!s.is_empty(), "harness: empty sequence generated (the fraction is undefined)");
        let n_gc = s.iter().filter(|&&b| is_gc(b)).count();
        let expect = n_gc as f64 / s.len() as f64;
        let got = gc_content(s);
        ensure!((got as f64 - expect).abs() <= 1e-6, "gc_content({:?}) = {}, expected {}/{} = {}", c.seq, got, n_gc, s.len(), expect);
        let got_owned = gc_content(s.iter().copied());
        ensure!((got_owned as f64 - expect).abs() <= 1e-6, "gc_content over owned bytes of {:?} = {}, expected {}", c.seq, got_owned, expect);
        // gc3: every third symbol starting with the first (documented example: positions 0, 3, 6 of GATATACA)
        let third: Vec<u8> = s.iter().copied().step_by(3).collect();
        let n3 = third.iter().filter(|&&b| is_gc(b)).count();
        let expect3 = n3 as f64 / third.len() as f64;
        let got3 = gc3_content(s);
        ensure!((got3 as f64 - expect3).abs() <= 1e-6, "gc3_content({:?}) = {}, expected {}/{} = {} (positions 0,3,6,..)", c.seq, got3, n3, third.len(), expect3);
        let mut pass = Pass::new(n_gc > 0 && n_gc < s.len());
        pass.add_if(n_gc == 0, "no G/C");
        pass.add_if(n_gc == s.len(), "only G/C");
        pass.add_if(s.iter().any(|&b| b == b'g' || b == b'c'), "lower-case g/c");
        pass.add_if(s.len() == 1, "length 1");
        pass.add_if(s.len() % 3 != 0, "length not a multiple of 3");
        pass.add_if((expect - expect3).abs() > 1e-6, "gc3 differs from gc");
        pass.add_if(s.iter().any(|b| !b.is_ascii_alphabetic()), "non-letter bytes");
        Ok(pass)
    }

    pub fn strat(_t: Tier) -> BoxedStrategy<Case> {
        let sym = prop_oneof![
            6 => proptest::sample::select(&b"ACGT"[..]),
            3 => proptest::sample::select(&b"acgtNnSsUu"[..]),
            1 => any::<u8>(),
        ];
        prop_oneof![
            8 => proptest::collection::vec(sym, 1..=60),
            1 => proptest::collection::vec(proptest::sample::select(&b"GCgc"[..]), 1..=20),
            1 => proptest::collection::vec(proptest::sample::select(&b"ATat"[..]), 1..=20),
            1 => proptest::collection::vec(proptest::sample::select(&b"ACGT"[..]), 200..=2000),
        ]
        .prop_map(|s| Case { seq: B(s) })
        .boxed()
    }
}

pub fn property() -> Property {
    Property {
        id: "C20",
        rule: "orf: sequences over ATG/ACGT (random or assembled from start/stop/filler codons) with start set within {ATG,GTG,TTG} and stop set within {TAA,TAG,TGA}, and sequences over 2-3 letters or all bytes with codon sets cut out of the sequence or random (sets disjoint, possibly empty), min_len absolute 0..60 or placed around the length of an existing frame; oracle = per start codon the first in-frame stop; every reported ORF must be such a frame with length (stop codon included) >= min_len and offset = start mod 3, no ORF twice, every frame longer than min_len+2 reported; exhaustive: all sequences over ATG up to length 8 (11 thorough) and over ab up to 13 (17). complement: all 256 bytes for DNA and RNA against a table derived from IUPAC base sets, involution, case; revcomp on random byte strings twice = identity. alphabet: random symbol lists (size 0, 1, small, 100+, all 256) and the eight library alphabets: len, is_empty, max_symbol, is_word on every single byte and on texts with/without a planted non-member, rank transform = position in the sorted symbol list. gc: gc_content = (#G/C either case)/len, gc3 over positions 0,3,6... Non-trivial = orf: at least two ORFs that must be reported lying in different frames or sharing a stop (nested starts); complement: nucleotide code that changes; revcomp: length >= 2 with a changing symbol; alphabet: >= 2 symbols and a non-empty accepted text; gc: mixed content. Distinct = distinct serialised case.",
        assumptions: &[
            "start and stop codon sets are disjoint (a codon that is both would be its own stop; the property does not define that)",
            "ORF length counts the stop codon (end - start), as the reported coordinates do",
            "GC content is checked on non-empty sequences only (0/0 otherwise); g and c count as G/C",
            "gc3_content is the G/C fraction over positions 0,3,6,.. as in its documented example",
            "for DNA, U is not a nucleotide code (left unchanged), for RNA, T is not",
        ],
        subs: vec![
            Box::new(PropSub {
                name: "C20/orf",
                quick: 1_000_000,
                thorough: 10_000_000,
                shards_quick: 16,
                shards_thorough: 16,
                strat: orf::strat,
                check: orf::check,
                must_reach: &[
                    ">=2 ORFs in different frames",
                    "nested starts (same stop)",
                    "start codon without in-frame stop (not reported)",
                    "empty start set",
                    "empty stop set",
                    "frame length = min_len + 3 (shortest that must be reported)",
                    "frame length in min_len..=min_len+2 (slack)",
                    "frame shorter than min_len",
                    "byte sequence",
                ],
                watch: true,
            }),
            Box::new(ExhSub { name: "C20/orf-exhaustive", enumerate: orf::enumerate, check: orf::check, must_reach: &["nested starts (same stop)"] }),
            Box::new(ExhSub { name: "C20/complement-exhaustive", enumerate: comp::enumerate_bytes, check: comp::check_byte, must_reach: &["lower-case code", "non-nucleotide byte", "self-complementary code"] }),
            Box::new(PropSub { name: "C20/revcomp", quick: 240_000, thorough: 2_000_000, shards_quick: 16, shards_thorough: 8, strat: comp::strat_seq, check: comp::check_seq, must_reach: &["lower-case nucleotides", "non-nucleotide bytes", "rna", "dna"], watch: false }),
            Box::new(PropSub { name: "C20/alphabet", quick: 180_000, thorough: 1_500_000, shards_quick: 16, shards_thorough: 8, strat: alpha::strat, check: alpha::check, must_reach: &["alphabet of size 1", "alphabet of size 256", "empty alphabet", "text with a non-member", "library alphabet"], watch: false }),
            Box::new(PropSub { name: "C20/gc", quick: 240_000, thorough: 2_000_000, shards_quick: 16, shards_thorough: 8, strat: gc::strat, check: gc::check, must_reach: &["lower-case g/c", "gc3 differs from gc", "length 1"], watch: false }),
        ],
    }
}
