//! C14 — HMM decoding and likelihoods equal their definitions over all state paths.
//!
//! Oracle: enumeration of all S^T state paths in plain f64,
//! joint(path) = init(p0) * emit(p0,o0) * prod_t trans(p[t-1],p[t]) * emit(p[t],o[t]) * end(p[T-1])
//! where the last factor is present only when the model was built with explicit end
//! probabilities (this is the model's own definition: `forward` multiplies the last column
//! with `end_prob`, `backward` starts from `end_prob`).
//!
//! Tolerances (DESIGN.md, C14): Viterbi uses no approximate exponential (sums of logs only):
//! relative 1e-9.  forward/backward go through `ln_sum_exp` (fast exponential, relative error
//! <= 8.9e-6 per column, so <= (T+1)*8.9e-6 overall): relative 1e-3.  The comparison
//! forward-vs-backward uses the same 1e-3 (two results each within (T+1)*8.9e-6 of the truth
//! can differ by 1.2e-4 for T=6, so the 1e-4 mentioned in the design text is not derivable).

use crate::engine::gen::idx;
use crate::engine::*;
use crate::{ensure, fail};
use bio::stats::hmm::discrete_emission::Model as Plain;
use bio::stats::hmm::discrete_emission_opt_end::Model as OptEnd;
use bio::stats::hmm::{backward, forward, viterbi, Model, State, Trainable};
use bio::stats::{LogProb, Prob};
use ndarray::{Array1, Array2};
use proptest::prelude::*;
use serde::{Deserialize, Serialize};
use std::cell::RefCell;

pub const TOL_VITERBI: f64 = 1e-9;
pub const TOL_LIKELIHOOD: f64 = 1e-3;

/// One probability vector: p[i] = w[i] / (sum(w) + slack); all zero when the denominator is 0.
/// slack > 0 makes the row sub-stochastic.
#[derive(Serialize, Deserialize, Debug, Clone, PartialEq)]
pub struct Row {
    pub w: Vec<u32>,
    pub slack: u32,
}

impl Row {
    fn denom(&self) -> u64 {
        self.w.iter().map(|&x| x as u64).sum::<u64>() + self.slack as u64
    }
    fn probs(&self) -> Vec<f64> {
        let d = self.denom();
        self.w.iter().map(|&x| if d == 0 { 0.0 } else { x as f64 / d as f64 }).collect()
    }
}

#[derive(Serialize, Deserialize, Debug, Clone, Copy, PartialEq)]
pub enum Flavor {
    /// `discrete_emission::Model`
    Plain,
    /// `discrete_emission_opt_end::Model` built with `end = None`
    OptEndNone,
    /// `discrete_emission_opt_end::Model` with explicit end probabilities `end[s] = n/d`
    OptEndFree,
    /// `discrete_emission_opt_end::Model` with explicit end probabilities taken from the slack of
    /// the transition row: end[s] = slack_s / denom_s  (transition row + end sum to one, as in
    /// the crate's own Eisner ice-cream example)
    OptEndSlack,
}

#[derive(Serialize, Deserialize, Debug, Clone, Copy, PartialEq)]
pub enum Ctor {
    WithFloat,
    WithProb,
    /// `Model::new` with `LogProb(p.ln())`
    NewLog,
}

#[derive(Serialize, Deserialize, Debug, Clone)]
pub struct Case {
    pub flavor: Flavor,
    pub ctor: Ctor,
    /// S entries
    pub init: Row,
    /// S rows of S entries
    pub trans: Vec<Row>,
    /// S rows of M entries
    pub emit: Vec<Row>,
    /// only for `OptEndFree`: S fractions (numerator, denominator), n <= d, d >= 1
    pub end: Vec<(u32, u32)>,
    /// T >= 1 symbols in 0..M
    pub obs: Vec<u8>,
}

pub struct Dense {
    pub s: usize,
    pub m: usize,
    pub init: Vec<f64>,
    pub trans: Vec<Vec<f64>>,
    pub emit: Vec<Vec<f64>>,
    /// Some(..) iff the model has explicit end probabilities
    pub end: Option<Vec<f64>>,
}

pub fn dense(c: &Case) -> Result<Dense, Stop> {
    let s = c.init.w.len();
    ensure!(s >= 1 && c.trans.len() == s && c.emit.len() == s, "harness: inconsistent dimensions in {:?}", c);
    let m = c.emit[0].w.len();
    ensure!(m >= 1 && c.emit.iter().all(|r| r.w.len() == m) && c.trans.iter().all(|r| r.w.len() == s), "harness: ragged matrices in {:?}", c);
    ensure!(!c.obs.is_empty() && c.obs.iter().all(|&o| (o as usize) < m), "harness: observation out of range / empty in {:?}", c);
    let end = match c.flavor {
        Flavor::Plain | Flavor::OptEndNone => None,
        Flavor::OptEndFree => {
            ensure!(c.end.len() == s && c.end.iter().all(|&(n, d)| d >= 1 && n <= d), "harness: bad end fractions in {:?}", c);
            Some(c.end.iter().map(|&(n, d)| n as f64 / d as f64).collect())
        }
        Flavor::OptEndSlack => Some(
            c.trans
                .iter()
                .map(|r| {
                    let d = r.denom();
                    if d == 0 {
                        1.0
                    } else {
                        r.slack as f64 / d as f64
                    }
                })
                .collect(),
        ),
    };
    Ok(Dense { s, m, init: c.init.probs(), trans: c.trans.iter().map(|r| r.probs()).collect(), emit: c.emit.iter().map(|r| r.probs()).collect(), end })
}

/// Result of the enumeration of all state paths.
pub struct Enumerated {
    pub total: f64,
    pub best: f64,
    /// number of paths whose joint probability is within 1e-12 (relative) of the maximum
    pub n_best: usize,
    pub n_positive: usize,
    pub n_paths: usize,
}

pub fn joint(d: &Dense, obs: &[u8], path: &[usize]) -> f64 {
    let mut p = d.init[path[0]] * d.emit[path[0]][obs[0] as usize];
    for t in 1..obs.len() {
        p *= d.trans[path[t - 1]][path[t]] * d.emit[path[t]][obs[t] as usize];
    }
    if let Some(e) = &d.end {
        p *= e[path[obs.len() - 1]];
    }
    p
}

pub fn enumerate_paths(d: &Dense, obs: &[u8]) -> Enumerated {
    let t = obs.len();
    let mut path = vec![0usize; t];
    let mut joints = Vec::new();
    loop {
        joints.push(joint(d, obs, &path));
        // next path (odometer)
        let mut k = 0;
        loop {
            if k == t {
                break;
            }
            path[k] += 1;
            if path[k] < d.s {
                break;
            }
            path[k] = 0;
            k += 1;
        }
        if k == t {
            break;
        }
    }
    let total: f64 = joints.iter().sum();
    let best = joints.iter().cloned().fold(0.0f64, f64::max);
    let n_best = if best > 0.0 { joints.iter().filter(|&&j| j >= best * (1.0 - 1e-12)).count() } else { joints.len() };
    Enumerated { total, best, n_best, n_positive: joints.iter().filter(|&&j| j > 0.0).count(), n_paths: joints.len() }
}

fn arr2(v: &[Vec<f64>]) -> Array2<f64> {
    let r = v.len();
    let c = v[0].len();
    Array2::from_shape_fn((r, c), |(i, j)| v[i][j])
}

#[derive(Debug)]
pub struct Outputs {
    pub vit_path: Vec<usize>,
    pub vit: f64,
    pub fwd: f64,
    pub bwd: f64,
}

fn same_outputs(a: &Outputs, b: &Outputs) -> bool {
    a.vit_path == b.vit_path && a.vit.to_bits() == b.vit.to_bits() && a.fwd.to_bits() == b.fwd.to_bits() && a.bwd.to_bits() == b.bwd.to_bits()
}

fn run<M: Model<usize>>(hmm: &M, obs: &[usize]) -> Outputs {
    let (path, vp) = viterbi(hmm, obs);
    let (_, fp) = forward(hmm, obs);
    let (_, bp) = backward(hmm, obs);
    Outputs { vit_path: path.iter().map(|s: &State| **s).collect(), vit: *vp, fwd: *fp, bwd: *bp }
}

pub fn run_library(c: &Case, d: &Dense) -> Result<Outputs, Stop> {
    let obs: Vec<usize> = c.obs.iter().map(|&o| o as usize).collect();
    let tr = arr2(&d.trans);
    let em = arr2(&d.emit);
    let ini = Array1::from(d.init.clone());
    let endv = d.end.clone().map(Array1::from);
    let lp = |x: &f64| LogProb(x.ln());
    let out = match c.flavor {
        Flavor::Plain => {
            let hmm = match c.ctor {
                Ctor::WithFloat => Plain::with_float(&tr, &em, &ini),
                Ctor::WithProb => Plain::with_prob(&tr.map(|x| Prob(*x)), &em.map(|x| Prob(*x)), &ini.map(|x| Prob(*x))),
                Ctor::NewLog => Plain::new(tr.map(lp), em.map(lp), ini.map(lp)),
            };
            let Ok(hmm) = hmm else { fail!("constructor rejected consistent dimensions S={} M={}", d.s, d.m) };
            let out = run(&hmm, &obs);
            let cl = run(&hmm.clone(), &obs);
            ensure!(same_outputs(&out, &cl), "a clone() of the model answers {:?}, the model itself {:?}", cl, out);
            out
        }
        _ => {
            let hmm = match c.ctor {
                Ctor::WithFloat => OptEnd::with_float(&tr, &em, &ini, endv.as_ref()),
                Ctor::WithProb => {
                    let e = endv.as_ref().map(|e| e.map(|x| Prob(*x)));
                    OptEnd::with_prob(&tr.map(|x| Prob(*x)), &em.map(|x| Prob(*x)), &ini.map(|x| Prob(*x)), e.as_ref())
                }
                Ctor::NewLog => {
                    let e = match &endv {
                        Some(e) => e.map(lp),
                        None => Array1::from(vec![LogProb::ln_one(); d.s]),
                    };
                    OptEnd::new(RefCell::new(tr.map(lp)), RefCell::new(em.map(lp)), RefCell::new(ini.map(lp)), RefCell::new(e), endv.is_some())
                }
            };
            let Ok(hmm) = hmm else { fail!("constructor rejected consistent dimensions S={} M={}", d.s, d.m) };
            let out = run(&hmm, &obs);
            // a clone is an independent model: re-parameterising it (Trainable::update_matrices takes &self)
            // must leave the model it was cloned from alone, and the clone must answer for its new matrices
            let cl = hmm.clone();
            let before = run(&cl, &obs);
            ensure!(same_outputs(&out, &before), "a clone() of the model answers {:?}, the model itself {:?}", before, out);
            let uni = |n: usize| LogProb((1.0 / n as f64).ln());
            let (t2, e2, i2, end2) = (Array2::from_elem((d.s, d.s), uni(d.s + 1)), Array2::from_elem((d.s, d.m), uni(d.m)), Array1::from_elem(d.s, uni(d.s)), Array1::from_elem(d.s, uni(d.s + 1)));
            cl.update_matrices(t2.clone(), e2.clone(), i2.clone(), end2.clone());
            let after = run(&hmm, &obs);
            ensure!(same_outputs(&out, &after), "after update_matrices on a clone() of the model, the model itself answers {:?}; before: {:?}", after, out);
            let updated = run(&cl, &obs);
            let fresh = OptEnd::new(RefCell::new(t2), RefCell::new(e2), RefCell::new(i2), RefCell::new(end2), endv.is_some());
            let Ok(fresh) = fresh else { fail!("constructor rejected uniform matrices S={} M={}", d.s, d.m) };
            let want = run(&fresh, &obs);
            ensure!(same_outputs(&updated, &want), "a clone() re-parameterised with update_matrices (uniform matrices) answers {:?}, a model constructed from those matrices {:?}", updated, want);
            // the new parameters may describe a model of another size (one more state)
            let s2 = d.s + 1;
            let (t3, e3, i3, end3) = (Array2::from_elem((s2, s2), uni(s2 + 1)), Array2::from_elem((s2, d.m), uni(d.m)), Array1::from_elem(s2, uni(s2)), Array1::from_elem(s2, uni(s2 + 1)));
            // (a refusal - a panic saying that the shape may not change - would be a legitimate answer to this use;
            // what may not happen is a silent answer for some other model)
            let attempt = catch(|| {
                cl.update_matrices(t3.clone(), e3.clone(), i3.clone(), end3.clone());
                run(&cl, &obs)
            });
            if let Ok(grown) = attempt {
                let Ok(fresh3) = OptEnd::new(RefCell::new(t3), RefCell::new(e3), RefCell::new(i3), RefCell::new(end3), endv.is_some()) else { fail!("constructor rejected uniform matrices S={} M={}", s2, d.m) };
                let want3 = run(&fresh3, &obs);
                ensure!(same_outputs(&grown, &want3), "a model of {} states re-parameterised through update_matrices with matrices for {} states answers {:?}, a model constructed from those matrices {:?}", d.s, s2, grown, want3);
            }
            out
        }
    };
    Ok(out)
}

fn rel_err(got: f64, want: f64) -> f64 {
    if want == 0.0 {
        if got == 0.0 {
            0.0
        } else {
            f64::INFINITY
        }
    } else {
        ((got - want) / want).abs()
    }
}

/// Measured relative errors of one case (for the tolerance report).
#[derive(Debug, Default, Clone, Copy)]
pub struct Errors {
    pub viterbi_vs_path: f64,
    pub viterbi_vs_max: f64,
    pub forward_vs_sum: f64,
    pub backward_vs_sum: f64,
    pub forward_vs_backward: f64,
}

pub fn eval(c: &Case) -> Result<(Pass, Errors), Stop> {
    let d = dense(c)?;
    let t = c.obs.len();
    let en = enumerate_paths(&d, &c.obs);
    let out = run_library(c, &d)?;
    let model = format!(
        "{:?}/{:?} S={} M={} init={:?} trans={:?} emit={:?} end={:?} obs={:?}",
        c.flavor, c.ctor, d.s, d.m, d.init, d.trans, d.emit, d.end, c.obs
    );

    // --- well-formedness: no NaN, no +inf, log-probabilities of probabilities are <= 0
    for (name, lp) in [("viterbi", out.vit), ("forward", out.fwd), ("backward", out.bwd)] {
        ensure!(!lp.is_nan(), "{} returned NaN for {}", name, model);
        ensure!(lp != f64::INFINITY, "{} returned +inf for {}", name, model);
    }
    ensure!(out.vit_path.len() == t, "viterbi path has length {} for {} observations: {:?}; {}", out.vit_path.len(), t, out.vit_path, model);
    ensure!(out.vit_path.iter().all(|&s| s < d.s), "viterbi path {:?} contains a state >= S; {}", out.vit_path, model);

    let v = out.vit.exp();
    let f = out.fwd.exp();
    let b = out.bwd.exp();
    let pj = joint(&d, &c.obs, &out.vit_path);
    let mut errs = Errors::default();

    if en.total == 0.0 {
        // impossible observation sequence: probability exactly zero from all three
        ensure!(out.vit == f64::NEG_INFINITY, "impossible sequence: viterbi reports log-prob {} (prob {:e}), expected ln(0); {}", out.vit, v, model);
        ensure!(out.fwd == f64::NEG_INFINITY, "impossible sequence: forward reports log-prob {} (prob {:e}), expected ln(0); {}", out.fwd, f, model);
        ensure!(out.bwd == f64::NEG_INFINITY, "impossible sequence: backward reports log-prob {} (prob {:e}), expected ln(0); {}", out.bwd, b, model);
    } else {
        // --- Viterbi: reported = joint(returned path) = max over all paths
        errs.viterbi_vs_path = rel_err(v, pj);
        errs.viterbi_vs_max = rel_err(v, en.best);
        ensure!(
            errs.viterbi_vs_path <= TOL_VITERBI,
            "viterbi reports probability {:e} but its path {:?} has joint probability {:e} (max over all {} paths: {:e}); {}",
            v, out.vit_path, pj, en.n_paths, en.best, model
        );
        ensure!(
            errs.viterbi_vs_max <= TOL_VITERBI,
            "viterbi reports probability {:e} for path {:?} (joint {:e}) but the maximum joint probability over all {} paths is {:e}; {}",
            v, out.vit_path, pj, en.n_paths, en.best, model
        );
        // --- likelihoods
        errs.forward_vs_sum = rel_err(f, en.total);
        errs.backward_vs_sum = rel_err(b, en.total);
        errs.forward_vs_backward = (f - b).abs() / f.max(b);
        ensure!(errs.forward_vs_sum <= TOL_LIKELIHOOD, "forward likelihood {:e} differs from the sum over all {} paths {:e} (rel {:e}); {}", f, en.n_paths, en.total, errs.forward_vs_sum, model);
        ensure!(errs.backward_vs_sum <= TOL_LIKELIHOOD, "backward likelihood {:e} differs from the sum over all {} paths {:e} (rel {:e}); {}", b, en.n_paths, en.total, errs.backward_vs_sum, model);
        ensure!(errs.forward_vs_backward <= TOL_LIKELIHOOD, "forward likelihood {:e} != backward likelihood {:e} (path sum {:e}); {}", f, b, en.total, model);
        // --- likelihood never smaller than the Viterbi probability
        ensure!(f >= v * (1.0 - TOL_LIKELIHOOD), "forward likelihood {:e} is smaller than the viterbi probability {:e} (path {:?}; path sum {:e}, path max {:e}); {}", f, v, out.vit_path, en.total, en.best, model);
        ensure!(b >= v * (1.0 - TOL_LIKELIHOOD), "backward likelihood {:e} is smaller than the viterbi probability {:e} (path {:?}; path sum {:e}, path max {:e}); {}", b, v, out.vit_path, en.total, en.best, model);
    }

    // --- classification
    let all_rows = || c.trans.iter().chain(c.emit.iter()).chain(std::iter::once(&c.init));
    let has_zero = all_rows().any(|r| r.w.iter().any(|&w| w == 0));
    let zero_row = all_rows().any(|r| r.w.iter().all(|&w| w == 0));
    let substoch = all_rows().any(|r| r.slack > 0 && r.w.iter().any(|&w| w > 0));
    let mut pass = Pass::new(d.s >= 2 && t >= 2 && en.n_positive >= 2);
    pass.add_if(d.s == 1, "S=1");
    pass.add_if(d.s == 4, "S=4");
    pass.add_if(d.s >= 5, "S>=5");
    pass.add_if(d.m == 1, "M=1");
    pass.add_if(t == 1, "T=1");
    pass.add_if(t >= 6, "T>=6");
    pass.add_if(en.n_paths >= 4096, "paths>=4096");
    pass.add_if(has_zero, "exact zero entry");
    pass.add_if(zero_row, "all-zero row");
    pass.add_if(substoch, "sub-stochastic row");
    pass.add_if(en.total == 0.0, "impossible sequence");
    pass.add_if(en.total > 0.0 && en.n_positive < en.n_paths, "some but not all paths impossible");
    pass.add_if(en.total > 0.0 && en.n_best >= 2, "tie (>=2 maximal paths)");
    pass.add_if(en.total > 0.0 && en.n_best == 1 && en.n_positive >= 2, "unique best among >=2 possible paths");
    pass.add_if(en.n_positive == 1, "exactly one possible path");
    match c.flavor {
        Flavor::Plain => pass.add("plain model"),
        Flavor::OptEndNone => pass.add("opt_end model, end=None"),
        Flavor::OptEndFree | Flavor::OptEndSlack => pass.add("explicit end probabilities"),
    }
    pass.add_if(c.flavor == Flavor::OptEndSlack, "end = 1 - transition row sum");
    if let Some(e) = &d.end {
        pass.add_if(e.iter().any(|&x| x == 0.0), "end probability zero for some state");
        if en.total > 0.0 {
            // would the best path change when the end probabilities are ignored?
            let no_end = Dense { s: d.s, m: d.m, init: d.init.clone(), trans: d.trans.clone(), emit: d.emit.clone(), end: None };
            let en2 = enumerate_paths(&no_end, &c.obs);
            let with_end_of_noend_best = {
                // best joint-with-end among the maximisers of joint-without-end is < best  <=> end changes the decision
                let mut path = vec![0usize; t];
                let mut best_among = 0.0f64;
                loop {
                    if joint(&no_end, &c.obs, &path) >= en2.best * (1.0 - 1e-12) {
                        best_among = best_among.max(joint(&d, &c.obs, &path));
                    }
                    let mut k = 0;
                    loop {
                        if k == t {
                            break;
                        }
                        path[k] += 1;
                        if path[k] < d.s {
                            break;
                        }
                        path[k] = 0;
                        k += 1;
                    }
                    if k == t {
                        break;
                    }
                }
                best_among
            };
            pass.add_if(with_end_of_noend_best < en.best * (1.0 - 1e-9), "end probabilities change the best path");
        }
    }
    match c.ctor {
        Ctor::WithFloat => pass.add("ctor with_float"),
        Ctor::WithProb => pass.add("ctor with_prob"),
        Ctor::NewLog => pass.add("ctor new(LogProb)"),
    }
    Ok((pass, errs))
}

pub fn check(c: &Case) -> R {
    eval(c).map(|x| x.0)
}

// ---------------------------------------------------------------------------
// generator

fn weight() -> BoxedStrategy<u32> {
    prop_oneof![
        4 => Just(0u32),
        6 => 1u32..=3,
        5 => 1u32..=20,
        3 => 1u32..=1000,
        1 => 1u32..=60_000,
    ]
    .boxed()
}

fn pos_weight() -> BoxedStrategy<u32> {
    prop_oneof![6 => 1u32..=3, 5 => 1u32..=20, 3 => 1u32..=1000, 1 => 1u32..=60_000].boxed()
}

fn row(n: usize) -> BoxedStrategy<Row> {
    let slack = prop_oneof![17 => Just(0u32), 2 => 1u32..=5, 1 => 1u32..=2000];
    prop_oneof![
        // independent weights (each an exact zero with probability ~1/5)
        6 => (proptest::collection::vec(weight(), n), slack.clone()).prop_map(|(w, slack)| Row { w, slack }),
        // all entries positive
        4 => (proptest::collection::vec(pos_weight(), n), slack.clone()).prop_map(|(w, slack)| Row { w, slack }),
        // uniform row (ties)
        3 => (1u32..=3, slack.clone()).prop_map(move |(k, slack)| Row { w: vec![k; n], slack }),
        // deterministic row: a single non-zero entry
        1 => (any::<u16>(), slack).prop_map(move |(f, slack)| {
            let mut w = vec![0; n];
            w[idx(f, n - 1)] = 1;
            Row { w, slack }
        }),
    ]
    .boxed()
}

fn matrix(rows: usize, cols: usize) -> BoxedStrategy<Vec<Row>> {
    prop_oneof![
        6 => proptest::collection::vec(row(cols), rows),
        // duplicate rows (ties between states)
        3 => row(cols).prop_map(move |r| vec![r; rows]),
        // first two rows equal, rest independent
        1 => (row(cols), proptest::collection::vec(row(cols), rows)).prop_map(|(r, mut v)| {
            let n = v.len().min(2);
            for x in v.iter_mut().take(n) {
                *x = r.clone();
            }
            v
        }),
    ]
    .boxed()
}

/// how an impossible sequence is forced
#[derive(Debug, Clone)]
enum Force {
    No,
    /// nobody emits the symbol observed at this position
    Emission(u16),
    InitZero,
    /// all end probabilities zero (only with explicit end probabilities; otherwise like Emission)
    EndZero(u16),
    /// no transitions at all (only effective for T >= 2)
    TransZero,
}

fn dims(t: Tier) -> BoxedStrategy<(usize, usize, usize)> {
    // (S, M, T) with S^T bounded
    let (max_s, max_paths, max_t) = match t {
        Tier::Quick => (4usize, 4096usize, 6usize),
        Tier::Thorough => (5usize, 20_000usize, 9usize),
    };
    (prop_oneof![1 => Just(1usize), 4 => Just(2usize), 4 => Just(3usize), 3 => 4usize..=max_s], prop_oneof![1 => Just(1usize), 3 => Just(2usize), 3 => 3usize..=4], any::<u16>(), 0u8..20)
        .prop_map(move |(s, m, tf, short)| {
            let mut tmax = 1;
            while tmax < max_t && (s as f64).powi(tmax as i32 + 1) <= max_paths as f64 {
                tmax += 1;
            }
            if s == 1 {
                tmax = max_t;
            }
            let t = if short == 0 { 1 } else { 1 + idx(tf, tmax - 1) };
            (s, m, t)
        })
        .boxed()
}

pub fn strat(t: Tier) -> BoxedStrategy<Case> {
    dims(t)
        .prop_flat_map(|(s, m, t)| {
            let flavor = prop_oneof![3 => Just(Flavor::Plain), 2 => Just(Flavor::OptEndNone), 3 => Just(Flavor::OptEndFree), 2 => Just(Flavor::OptEndSlack)];
            let ctor = prop_oneof![4 => Just(Ctor::WithFloat), 1 => Just(Ctor::WithProb), 1 => Just(Ctor::NewLog)];
            let endfrac = prop_oneof![
                2 => Just((0u32, 1u32)),
                2 => Just((1u32, 1u32)),
                6 => (1u32..=100).prop_flat_map(|d| (0..=d, Just(d))),
                2 => (1u32..=100_000).prop_flat_map(|d| (0..=d.min(20), Just(d))),
            ];
            let force = prop_oneof![
                36 => Just(Force::No),
                1 => any::<u16>().prop_map(Force::Emission),
                1 => Just(Force::InitZero),
                1 => any::<u16>().prop_map(Force::EndZero),
                1 => Just(Force::TransZero),
            ];
            (
                (flavor, ctor, row(s), matrix(s, s), matrix(s, m)),
                proptest::collection::vec(endfrac, s),
                proptest::collection::vec(0..m as u8, t),
                force,
                proptest::collection::vec(prop_oneof![1 => Just(0u32), 6 => 1u32..=4, 1 => 1u32..=500], s),
            )
        })
        .prop_map(|((flavor, ctor, init, trans, emit), end, obs, force, slacks)| {
            let mut c = Case { flavor, ctor, init, trans, emit, end: if flavor == Flavor::OptEndFree { end } else { vec![] }, obs };
            // in the slack flavour the slack *is* the end probability: make it non-zero more often
            if c.flavor == Flavor::OptEndSlack {
                for (r, s) in c.trans.iter_mut().zip(slacks) {
                    if r.slack == 0 {
                        r.slack = s;
                    }
                }
            }
            let force = match force {
                Force::EndZero(f) if !matches!(c.flavor, Flavor::OptEndFree | Flavor::OptEndSlack) => Force::Emission(f),
                f => f,
            };
            match force {
                Force::No => {}
                Force::Emission(f) => {
                    let pos = idx(f, c.obs.len() - 1);
                    let sym = c.obs[pos] as usize;
                    for r in c.emit.iter_mut() {
                        r.w[sym] = 0;
                    }
                }
                Force::InitZero => {
                    for w in c.init.w.iter_mut() {
                        *w = 0;
                    }
                }
                Force::EndZero(_) => {
                    if c.flavor == Flavor::OptEndFree {
                        for e in c.end.iter_mut() {
                            e.0 = 0;
                        }
                    } else {
                        for r in c.trans.iter_mut() {
                            r.slack = 0;
                        }
                    }
                }
                Force::TransZero => {
                    for r in c.trans.iter_mut() {
                        for w in r.w.iter_mut() {
                            *w = 0;
                        }
                    }
                }
            }
            c
        })
        .boxed()
}

// ---------------------------------------------------------------------------
// bounded-exhaustive: every 2-state / 2-symbol model whose init/trans/emit weights are 0 or 1
// (probabilities 0, 1/2, 1), end in {absent (both model types), {0,1/4,1/2}^2}, every
// observation sequence of length 1..=3 (quick) / 1..=4 (thorough)

fn enumerate(t: Tier) -> Box<dyn Iterator<Item = Case>> {
    let max_t = match t {
        Tier::Quick => 3,
        Tier::Thorough => 4,
    };
    let mut obs_all: Vec<Vec<u8>> = Vec::new();
    for len in 1..=max_t {
        for code in 0..(1u32 << len) {
            obs_all.push((0..len).map(|i| ((code >> i) & 1) as u8).collect());
        }
    }
    let mut ends: Vec<(Flavor, Vec<(u32, u32)>)> = vec![(Flavor::Plain, vec![]), (Flavor::OptEndNone, vec![])];
    for a in 0..3u32 {
        for b in 0..3u32 {
            ends.push((Flavor::OptEndFree, vec![(a, 4), (b, 4)]));
        }
    }
    let obs_all = std::sync::Arc::new(obs_all);
    let ends = std::sync::Arc::new(ends);
    let row2 = |bits: u32| Row { w: vec![bits & 1, (bits >> 1) & 1], slack: 0 };
    Box::new((0u32..(1 << 10)).flat_map(move |code| {
        let init = row2(code);
        let trans = vec![row2(code >> 2), row2(code >> 4)];
        let emit = vec![row2(code >> 6), row2(code >> 8)];
        let obs_all = obs_all.clone();
        let ends = ends.clone();
        (0..ends.len()).flat_map(move |ei| {
            let (init, trans, emit) = (init.clone(), trans.clone(), emit.clone());
            let obs_all = obs_all.clone();
            let ends = ends.clone();
            (0..obs_all.len()).map(move |oi| Case {
                flavor: ends[ei].0,
                ctor: Ctor::WithFloat,
                init: init.clone(),
                trans: trans.clone(),
                emit: emit.clone(),
                end: ends[ei].1.clone(),
                obs: obs_all[oi].clone(),
            })
        })
    }))
}

// ---------------------------------------------------------------------------
// LARGE-SCALE sub-checks (C14/large-*): many states, many symbols, long observation sequences.
//
// The enumeration of all S^T paths is impossible there. Oracles:
//  * an independent textbook reference in plain f64 / std `ln` (NOT the library's LogProb): Viterbi as
//    max-sum over std logarithms, forward and backward as scaled sum-product in linear space (Rabiner's
//    scaling, log-likelihood = sum of the logs of the scaling factors). The reference is cross-validated
//    against the path enumeration of this module on every case with S^T <= 20000 (sub-checks
//    `C14/large-crosscheck` and `C14/large-reference-vs-enumeration` run thousands of those per run);
//  * dyadic models (every probability a power of two): the joint probability of a path is 2^-cost with
//    an integer cost, so "the returned path is maximal" is decided EXACTLY by an integer shortest-path
//    computation (no tolerance);
//  * structured models with an analytic answer: the deterministic cycle (one possible path: Viterbi
//    path, Viterbi probability and likelihood are known in closed form and forward/backward involve no
//    approximate exponential at all, so they are compared within rounding).
//
// Tolerances in LOG space (linear images underflow for long sequences):
//  * Viterbi (sums of std logarithms only): max(1e-9 * max(1,|L|), 4 (T+2) eps |L|)   (rounding only)
//  * forward / backward: one `ln_sum_exp` per column, each within the documented relative error of
//    the fast exponential (8.9e-6) of the truth, errors of consecutive columns add up in log space:
//    (T+1) * 1e-5 + the rounding term.  That is the "stated numerical tolerance of the log-space
//    arithmetic" carried over T columns; for the small cases of C14/random it is below the 1e-3 used there.

pub mod large {
    use super::*;
    use crate::oracles::scale::c141516::{ladder, Sm64};
    use crate::rung_label_c141516 as rung;

    #[derive(Serialize, Deserialize, Debug, Clone, Copy, PartialEq)]
    pub enum Kind {
        /// every probability is 0 or a power of two (rows sub-stochastic by construction)
        Dyadic,
        /// integer weights over a denominator, zeros, sub-stochastic and all-zero rows
        Dense,
        /// state i -> (i + stride) mod S with one probability, state i emits one symbol: one possible path
        Cycle,
        /// left-to-right: stay or advance with probability 1/2 each, start in state 0
        LeftRight,
        /// block-diagonal transition matrix, each block with its own slice of the alphabet
        Block,
    }

    #[derive(Serialize, Deserialize, Debug, Clone, Copy, PartialEq)]
    pub enum ObsKind {
        Random,
        /// one symbol repeated (the largest one)
        Constant,
        /// a short random word repeated
        Periodic,
        /// symbols around 255/256, 65535/65536 and M-1 only
        Thresholds,
    }

    #[derive(Serialize, Deserialize, Debug, Clone)]
    pub struct Case {
        pub kind: Kind,
        /// number of states S >= 1
        pub s: u32,
        /// number of symbols M >= 1
        pub m: u32,
        /// number of observations T >= 1
        pub t: u32,
        /// Plain / OptEndNone / OptEndFree (OptEndSlack is treated like OptEndFree)
        pub flavor: Flavor,
        pub ctor: Ctor,
        pub obs: ObsKind,
        /// Some(p): the symbol observed at position p (p < T) is emitted by no state
        pub impossible_at: Option<u32>,
        pub seed: u64,
    }

    pub const INF: u32 = u32::MAX;

    /// flat row-major model
    pub struct Flat {
        pub s: usize,
        pub m: usize,
        pub init: Vec<f64>,
        pub trans: Vec<f64>,
        pub emit: Vec<f64>,
        pub end: Option<Vec<f64>>,
        /// Some: every probability is exactly 2^-k (k = INF: probability 0); same layout
        pub exps: Option<Exps>,
        /// Some: the model has exactly one possible state path for the generated observations
        pub single_path: Option<Vec<usize>>,
    }

    pub struct Exps {
        pub init: Vec<u32>,
        pub trans: Vec<u32>,
        pub emit: Vec<u32>,
        pub end: Option<Vec<u32>>,
    }

    fn pow2neg(k: u32) -> f64 {
        if k == INF {
            0.0
        } else {
            f64::from_bits(((1023 - k as u64) & 0x7ff) << 52)
        }
    }

    fn ceil_log2(n: usize) -> u32 {
        let mut k = 0;
        while (1usize << k) < n {
            k += 1;
        }
        k
    }

    fn has_end(c: &Case) -> bool {
        matches!(c.flavor, Flavor::OptEndFree | Flavor::OptEndSlack)
    }

    /// model and observations of a case (deterministic)
    pub fn build(c: &Case) -> Result<(Flat, Vec<usize>), Stop> {
        let (s, m, t) = (c.s as usize, c.m as usize, c.t as usize);
        ensure!(s >= 1 && m >= 1 && t >= 1, "harness: empty dimension in {:?}", c);
        ensure!((s as u64) * (s as u64) <= 40_000_000 && (s as u64) * (m as u64) <= 40_000_000 && (s as u64) * (s as u64) * (t as u64) <= 4_000_000_000, "harness: case too large {:?}", c);
        ensure!(c.impossible_at.map_or(true, |p| (p as usize) < t), "harness: impossible_at out of range in {:?}", c);
        let mut g = Sm64::stream(c.seed, 1);
        let mut og = Sm64::stream(c.seed, 2);
        let end_wanted = has_end(c);
        let mut exps: Option<Exps> = None;
        let mut single: Option<Vec<usize>> = None;
        let mut init = vec![0.0; s];
        let mut trans = vec![0.0; s * s];
        let mut emit = vec![0.0; s * m];
        let mut end: Option<Vec<f64>> = None;
        let mut obs: Vec<usize> = Vec::with_capacity(t);

        // ---- observations that do not depend on the model
        let gen_obs = |og: &mut Sm64, kind: ObsKind| -> Vec<usize> {
            match kind {
                ObsKind::Random => (0..t).map(|_| og.below(m as u64) as usize).collect(),
                ObsKind::Constant => vec![m - 1; t],
                ObsKind::Periodic => {
                    let p = 1 + og.below(7) as usize;
                    let w: Vec<usize> = (0..p).map(|_| og.below(m as u64) as usize).collect();
                    (0..t).map(|i| w[i % p]).collect()
                }
                ObsKind::Thresholds => {
                    let mut cand: Vec<usize> = vec![0, m - 1, m.saturating_sub(2), 254, 255, 256, 257, 65534, 65535, 65536, 65537];
                    cand.retain(|&x| x < m);
                    cand.sort_unstable();
                    cand.dedup();
                    (0..t).map(|_| cand[og.below(cand.len() as u64) as usize]).collect()
                }
            }
        };

        match c.kind {
            Kind::Dyadic => {
                let (ks, km) = (ceil_log2(s), ceil_log2(m));
                let mut e = Exps { init: vec![INF; s], trans: vec![INF; s * s], emit: vec![INF; s * m], end: None };
                let draw = |g: &mut Sm64, base: u32| -> u32 {
                    let r = g.next();
                    if r & 7 == 0 {
                        INF
                    } else {
                        base + ((r >> 3) & 3) as u32
                    }
                };
                for x in e.init.iter_mut() {
                    *x = draw(&mut g, ks);
                }
                for x in e.trans.iter_mut() {
                    *x = draw(&mut g, ks);
                }
                for x in e.emit.iter_mut() {
                    *x = draw(&mut g, km);
                }
                if end_wanted {
                    e.end = Some((0..s).map(|_| draw(&mut g, 0)).collect());
                }
                init = e.init.iter().map(|&k| pow2neg(k)).collect();
                trans = e.trans.iter().map(|&k| pow2neg(k)).collect();
                emit = e.emit.iter().map(|&k| pow2neg(k)).collect();
                end = e.end.as_ref().map(|v| v.iter().map(|&k| pow2neg(k)).collect());
                exps = Some(e);
                obs = gen_obs(&mut og, c.obs);
            }
            Kind::Dense => {
                let fill = |g: &mut Sm64, row: &mut [f64]| -> f64 {
                    // returns the probability mass left over (1 - sum)
                    let r = g.next();
                    if r & 63 == 0 {
                        for x in row.iter_mut() {
                            *x = 0.0;
                        }
                        return 1.0;
                    }
                    let mut sum = 0u64;
                    for x in row.iter_mut() {
                        let w = g.next();
                        let v = if w & 7 == 0 { 0 } else { 1 + ((w >> 3) % 1000) };
                        *x = v as f64;
                        sum += v;
                    }
                    let slack = if (r >> 6) & 3 == 0 { 1 + ((r >> 8) % (sum / 4 + 2)) } else { 0 };
                    let d = (sum + slack) as f64;
                    if sum + slack > 0 {
                        for x in row.iter_mut() {
                            *x /= d;
                        }
                    }
                    if sum + slack > 0 {
                        slack as f64 / d
                    } else {
                        1.0
                    }
                };
                fill(&mut g, &mut init);
                let mut left = vec![0.0; s];
                for i in 0..s {
                    left[i] = fill(&mut g, &mut trans[i * s..(i + 1) * s]);
                }
                for i in 0..s {
                    fill(&mut g, &mut emit[i * m..(i + 1) * m]);
                }
                if end_wanted {
                    let slack_based = g.next() & 1 == 0;
                    end = Some((0..s).map(|i| if slack_based { left[i] } else { g.below(101) as f64 / 100.0 }).collect());
                }
                obs = gen_obs(&mut og, c.obs);
            }
            Kind::Cycle => {
                let r = g.next();
                let stride = if s == 1 { 0 } else { 1 + g.below(s as u64 - 1) as usize };
                let ka = (r & 1) as u32; // transition probability 1 or 1/2
                let kb = ((r >> 1) % 3) as u32; // emission probability 1, 1/2, 1/4
                let one_hot = (r >> 3) & 1 == 0;
                let s0 = s - 1 - g.below(s.min(4) as u64) as usize;
                let off = if m >= s { m - s } else { 0 };
                let sym = |i: usize| (i + off) % m;
                for i in 0..s {
                    trans[i * s + (i + stride) % s] = pow2neg(ka);
                    emit[i * m + sym(i)] = pow2neg(kb);
                }
                let mut e = Exps { init: vec![INF; s], trans: vec![INF; s * s], emit: vec![INF; s * m], end: None };
                for i in 0..s {
                    e.trans[i * s + (i + stride) % s] = ka;
                    e.emit[i * m + sym(i)] = kb;
                }
                if one_hot {
                    init[s0] = 1.0;
                    e.init[s0] = 0;
                } else {
                    for x in init.iter_mut() {
                        *x = 1.0 / s as f64;
                    }
                }
                if end_wanted {
                    let ke: Vec<u32> = (0..s).map(|_| (g.next() % 3) as u32).collect();
                    end = Some(ke.iter().map(|&k| pow2neg(k)).collect());
                    e.end = Some(ke);
                }
                if one_hot {
                    exps = Some(e);
                }
                let path: Vec<usize> = (0..t).map(|k| (s0 + k * stride) % s).collect();
                obs = path.iter().map(|&i| sym(i)).collect();
                if m >= s || one_hot {
                    // every state has its own symbol, or only s0 can start: one possible path
                    single = Some(path);
                }
            }
            Kind::LeftRight => {
                let r = g.next();
                let last_absorbing = r & 1 == 0;
                let mut e = Exps { init: vec![INF; s], trans: vec![INF; s * s], emit: vec![INF; s * m], end: None };
                // start as far left as still allows reaching the last state
                let start0 = s.saturating_sub(t);
                e.init[start0] = 0;
                for i in 0..s {
                    if i + 1 < s {
                        e.trans[i * s + i] = 1;
                        e.trans[i * s + i + 1] = 1;
                    } else {
                        e.trans[i * s + i] = if last_absorbing { 0 } else { 1 };
                    }
                    if m == 1 {
                        e.emit[i * m] = 0;
                    } else {
                        e.emit[i * m + i % m] = 1;
                        e.emit[i * m + (i + 1) % m] = 1;
                    }
                }
                if end_wanted {
                    e.end = Some((0..s).map(|_| (g.next() % 3) as u32).collect());
                }
                init = e.init.iter().map(|&k| pow2neg(k)).collect();
                trans = e.trans.iter().map(|&k| pow2neg(k)).collect();
                emit = e.emit.iter().map(|&k| pow2neg(k)).collect();
                end = e.end.as_ref().map(|v| v.iter().map(|&k| pow2neg(k)).collect());
                exps = Some(e);
                // simulate: advance with probability 1/2 (quickly for short sequences so that high states are reached)
                let mut st = start0;
                let fast = t < 4 * s;
                for _ in 0..t {
                    let o = if m == 1 { 0 } else if og.next() & 1 == 0 { st % m } else { (st + 1) % m };
                    obs.push(o);
                    let adv = if fast { og.next() & 7 != 0 } else { og.next() & 1 == 0 };
                    if adv && st + 1 < s {
                        st += 1;
                    }
                }
            }
            Kind::Block => {
                let b = 2 + g.below(3) as usize; // block size 2..=4
                let nb = (s + b - 1) / b;
                let w = (m / nb).max(1); // alphabet slice width
                let block_of = |i: usize| i / b;
                let lo_sym = |j: usize| if m >= nb { j * w } else { j % m };
                let hi_sym = |j: usize| if m >= nb { if j == nb - 1 { m } else { (j + 1) * w } } else { j % m + 1 };
                for x in init.iter_mut() {
                    *x = 1.0 / s as f64;
                }
                for i in 0..s {
                    let j = block_of(i);
                    let (lo, hi) = (j * b, ((j + 1) * b).min(s));
                    let mut sum = 0.0;
                    for k in lo..hi {
                        let v = (1 + g.below(9)) as f64;
                        trans[i * s + k] = v;
                        sum += v;
                    }
                    let slack = if g.next() & 3 == 0 { 1.0 } else { 0.0 };
                    for k in lo..hi {
                        trans[i * s + k] /= sum + slack;
                    }
                    let (sl, sh) = (lo_sym(j), hi_sym(j));
                    // at most 8 emitted symbols per state (the first and the last of the slice included)
                    let width = sh - sl;
                    let mut syms: Vec<usize> = if width <= 8 { (sl..sh).collect() } else { vec![sl, sl + 1, sl + width / 2, sh - 2, sh - 1] };
                    syms.dedup();
                    let mut es = 0.0;
                    for &o in &syms {
                        let v = (1 + g.below(9)) as f64;
                        emit[i * m + o] = v;
                        es += v;
                    }
                    for &o in &syms {
                        emit[i * m + o] /= es;
                    }
                }
                if end_wanted {
                    end = Some((0..s).map(|_| g.below(101) as f64 / 100.0).collect());
                }
                // observations from the slice of one of the last blocks
                let j = nb - 1 - og.below(nb.min(2) as u64) as usize;
                let (sl, sh) = (lo_sym(j), hi_sym(j));
                let width = sh - sl;
                let cand: Vec<usize> = if width <= 8 { (sl..sh).collect() } else { vec![sl, sl + 1, sl + width / 2, sh - 2, sh - 1] };
                obs = (0..t).map(|_| cand[og.below(cand.len() as u64) as usize]).collect();
            }
        }

        if let Some(p) = c.impossible_at {
            let z = obs[p as usize];
            for i in 0..s {
                emit[i * m + z] = 0.0;
            }
            if let Some(e) = exps.as_mut() {
                for i in 0..s {
                    e.emit[i * m + z] = INF;
                }
            }
            single = None;
        }
        ensure!(obs.len() == t && obs.iter().all(|&o| o < m), "harness: bad observations generated for {:?}", c);
        Ok((Flat { s, m, init, trans, emit, end, exps, single_path: single }, obs))
    }

    // ---- the reference ------------------------------------------------------------------------

    fn ln_vec(v: &[f64]) -> Vec<f64> {
        v.iter().map(|x| x.ln()).collect()
    }

    /// log of the maximal joint probability over all state paths (max-sum over std logarithms)
    pub fn ref_viterbi_log(f: &Flat, obs: &[usize]) -> f64 {
        let (s, m) = (f.s, f.m);
        let lt = ln_vec(&f.trans);
        let le = ln_vec(&f.emit);
        let mut v: Vec<f64> = (0..s).map(|i| f.init[i].ln() + le[i * m + obs[0]]).collect();
        let mut nv = vec![f64::NEG_INFINITY; s];
        for &o in &obs[1..] {
            for x in nv.iter_mut() {
                *x = f64::NEG_INFINITY;
            }
            for i in 0..s {
                let vi = v[i];
                if vi == f64::NEG_INFINITY {
                    continue;
                }
                let row = &lt[i * s..(i + 1) * s];
                for j in 0..s {
                    let c = vi + row[j];
                    if c > nv[j] {
                        nv[j] = c;
                    }
                }
            }
            for j in 0..s {
                nv[j] += le[j * m + o];
            }
            std::mem::swap(&mut v, &mut nv);
        }
        let mut best = f64::NEG_INFINITY;
        for i in 0..s {
            let e = match &f.end {
                Some(e) => e[i].ln(),
                None => 0.0,
            };
            best = best.max(v[i] + e);
        }
        best
    }

    /// log-likelihood by the scaled forward recursion in linear space
    /// ln(sum_i exp(t_i)) with the maximum factored out (std exp / ln: relative error ~1e-16 per call)
    fn lse(terms: &[f64]) -> f64 {
        let mx = terms.iter().cloned().fold(f64::NEG_INFINITY, f64::max);
        if mx == f64::NEG_INFINITY {
            return mx;
        }
        mx + terms.iter().map(|t| (t - mx).exp()).sum::<f64>().ln()
    }

    /// Forward likelihood, every state kept in log space. (A scaled linear-space recursion loses a state whose
    /// value falls more than 10^-308 below the largest one - which is the state that matters when the end
    /// probabilities, or for the backward pass the initial distribution, select it; sweep seed 403 hit that with
    /// two disconnected states over 511 steps.)
    pub fn ref_forward_log(f: &Flat, obs: &[usize]) -> f64 {
        let (s, m) = (f.s, f.m);
        let lt = ln_vec(&f.trans);
        let le = ln_vec(&f.emit);
        let mut a: Vec<f64> = (0..s).map(|i| f.init[i].ln() + le[i * m + obs[0]]).collect();
        let mut terms = vec![0.0; s];
        for &o in &obs[1..] {
            let mut na = vec![f64::NEG_INFINITY; s];
            for j in 0..s {
                if le[j * m + o] == f64::NEG_INFINITY {
                    continue;
                }
                for i in 0..s {
                    terms[i] = a[i] + lt[i * s + j];
                }
                na[j] = lse(&terms) + le[j * m + o];
            }
            a = na;
        }
        let fin: Vec<f64> = match &f.end {
            Some(e) => (0..s).map(|i| a[i] + e[i].ln()).collect(),
            None => a,
        };
        lse(&fin)
    }

    pub fn ref_backward_log(f: &Flat, obs: &[usize]) -> f64 {
        let (s, m) = (f.s, f.m);
        let t = obs.len();
        let lt = ln_vec(&f.trans);
        let le = ln_vec(&f.emit);
        let mut b: Vec<f64> = match &f.end {
            Some(e) => e.iter().map(|x| x.ln()).collect(),
            None => vec![0.0; s],
        };
        let mut terms = vec![0.0; s];
        for k in (1..t).rev() {
            // b_{k-1}[i] = sum_j trans[i][j] emit[j][obs[k]] b_k[j]
            let o = obs[k];
            let w: Vec<f64> = (0..s).map(|j| le[j * m + o] + b[j]).collect();
            let mut nb = vec![f64::NEG_INFINITY; s];
            for i in 0..s {
                for j in 0..s {
                    terms[j] = lt[i * s + j] + w[j];
                }
                nb[i] = lse(&terms);
            }
            b = nb;
        }
        let fin: Vec<f64> = (0..s).map(|i| f.init[i].ln() + le[i * m + obs[0]] + b[i]).collect();
        lse(&fin)
    }

    /// log of the joint probability of one path (sum of std logarithms)
    pub fn log_joint(f: &Flat, obs: &[usize], path: &[usize]) -> f64 {
        let (s, m) = (f.s, f.m);
        let mut l = f.init[path[0]].ln() + f.emit[path[0] * m + obs[0]].ln();
        for k in 1..obs.len() {
            l += f.trans[path[k - 1] * s + path[k]].ln() + f.emit[path[k] * m + obs[k]].ln();
        }
        if let Some(e) = &f.end {
            l += e[path[obs.len() - 1]].ln();
        }
        l
    }

    fn addk(a: u64, k: u32) -> u64 {
        if a == u64::MAX || k == INF {
            u64::MAX
        } else {
            a + k as u64
        }
    }

    /// minimal integer cost over all paths (u64::MAX: no possible path)
    pub fn int_viterbi(f: &Flat, e: &Exps, obs: &[usize]) -> u64 {
        let (s, m) = (f.s, f.m);
        let mut v: Vec<u64> = (0..s).map(|i| addk(addk(0, e.init[i]), e.emit[i * m + obs[0]])).collect();
        let mut nv = vec![u64::MAX; s];
        for &o in &obs[1..] {
            for x in nv.iter_mut() {
                *x = u64::MAX;
            }
            for i in 0..s {
                if v[i] == u64::MAX {
                    continue;
                }
                let row = &e.trans[i * s..(i + 1) * s];
                for j in 0..s {
                    let c = addk(v[i], row[j]);
                    if c < nv[j] {
                        nv[j] = c;
                    }
                }
            }
            for j in 0..s {
                nv[j] = addk(nv[j], e.emit[j * m + o]);
            }
            std::mem::swap(&mut v, &mut nv);
        }
        (0..s).map(|i| match &e.end { Some(x) => addk(v[i], x[i]), None => v[i] }).min().unwrap()
    }

    pub fn int_cost(f: &Flat, e: &Exps, obs: &[usize], path: &[usize]) -> u64 {
        let (s, m) = (f.s, f.m);
        let mut c = addk(addk(0, e.init[path[0]]), e.emit[path[0] * m + obs[0]]);
        for k in 1..obs.len() {
            c = addk(addk(c, e.trans[path[k - 1] * s + path[k]]), e.emit[path[k] * m + obs[k]]);
        }
        if let Some(x) = &e.end {
            c = addk(c, x[path[obs.len() - 1]]);
        }
        c
    }

    // ---- the library --------------------------------------------------------------------------

    fn run_flat(c: &Case, f: &Flat, obs: &[usize]) -> Result<Outputs, Stop> {
        let (s, m) = (f.s, f.m);
        let tr = Array2::from_shape_vec((s, s), f.trans.clone()).unwrap();
        let em = Array2::from_shape_vec((s, m), f.emit.clone()).unwrap();
        let ini = Array1::from(f.init.clone());
        let endv = f.end.clone().map(Array1::from);
        let lp = |x: &f64| LogProb(x.ln());
        let out = match c.flavor {
            Flavor::Plain => {
                let hmm = match c.ctor {
                    Ctor::WithFloat => Plain::with_float(&tr, &em, &ini),
                    Ctor::WithProb => Plain::with_prob(&tr.map(|x| Prob(*x)), &em.map(|x| Prob(*x)), &ini.map(|x| Prob(*x))),
                    Ctor::NewLog => Plain::new(tr.map(lp), em.map(lp), ini.map(lp)),
                };
                drop((tr, em));
                let Ok(hmm) = hmm else { fail!("constructor rejected consistent dimensions S={} M={}", s, m) };
                run(&hmm, obs)
            }
            _ => {
                let hmm = match c.ctor {
                    Ctor::WithFloat => OptEnd::with_float(&tr, &em, &ini, endv.as_ref()),
                    Ctor::WithProb => {
                        let e = endv.as_ref().map(|e| e.map(|x| Prob(*x)));
                        OptEnd::with_prob(&tr.map(|x| Prob(*x)), &em.map(|x| Prob(*x)), &ini.map(|x| Prob(*x)), e.as_ref())
                    }
                    Ctor::NewLog => {
                        let e = match &endv {
                            Some(e) => e.map(lp),
                            None => Array1::from(vec![LogProb::ln_one(); s]),
                        };
                        OptEnd::new(RefCell::new(tr.map(lp)), RefCell::new(em.map(lp)), RefCell::new(ini.map(lp)), RefCell::new(e), endv.is_some())
                    }
                };
                drop((tr, em));
                let Ok(hmm) = hmm else { fail!("constructor rejected consistent dimensions S={} M={}", s, m) };
                run(&hmm, obs)
            }
        };
        Ok(out)
    }

    fn to_dense(f: &Flat) -> Dense {
        Dense {
            s: f.s,
            m: f.m,
            init: f.init.clone(),
            trans: (0..f.s).map(|i| f.trans[i * f.s..(i + 1) * f.s].to_vec()).collect(),
            emit: (0..f.s).map(|i| f.emit[i * f.m..(i + 1) * f.m].to_vec()).collect(),
            end: f.end.clone(),
        }
    }

    pub fn from_dense(d: &Dense) -> Flat {
        Flat { s: d.s, m: d.m, init: d.init.clone(), trans: d.trans.concat(), emit: d.emit.concat(), end: d.end.clone(), exps: None, single_path: None }
    }

    const EPS: f64 = 2.220446049250313e-16;

    fn tol_round(t: usize, l: f64) -> f64 {
        let a = if l.is_finite() { l.abs() } else { 0.0 };
        (1e-9 * a.max(1.0)).max(4.0 * (t as f64 + 2.0) * EPS * a)
    }

    fn close(a: f64, b: f64, tol: f64) -> bool {
        a == b || (a - b).abs() <= tol
    }

    /// the reference against the enumeration of all paths (small cases)
    pub fn cross_validate(f: &Flat, obs: &[usize], what: &str) -> Result<(), Stop> {
        let d = to_dense(f);
        let o8: Vec<u8> = obs.iter().map(|&o| o as u8).collect();
        let en = enumerate_paths(&d, &o8);
        let rv = ref_viterbi_log(f, obs).exp();
        let rf = ref_forward_log(f, obs).exp();
        let rb = ref_backward_log(f, obs).exp();
        ensure!(super::rel_err(rv, en.best) <= 1e-9, "harness: reference Viterbi {:e} != maximum over all {} paths {:e} ({})", rv, en.n_paths, en.best, what);
        ensure!(super::rel_err(rf, en.total) <= 1e-9, "harness: reference forward {:e} != sum over all {} paths {:e} ({})", rf, en.n_paths, en.total, what);
        ensure!(super::rel_err(rb, en.total) <= 1e-9, "harness: reference backward {:e} != sum over all {} paths {:e} ({})", rb, en.n_paths, en.total, what);
        if let Some(e) = &f.exps {
            let k = int_viterbi(f, e, obs);
            let p = if k == u64::MAX { 0.0 } else { (-(k as f64) * std::f64::consts::LN_2).exp() };
            ensure!(super::rel_err(p, en.best) <= 1e-9, "harness: integer shortest path cost {} (2^-cost = {:e}) != maximum over all paths {:e} ({})", k, p, en.best, what);
        }
        if let Some(p) = &f.single_path {
            ensure!(en.n_positive == 1, "harness: 'single path' model has {} possible paths ({})", en.n_positive, what);
            let o8p = joint(&d, &o8, p);
            ensure!(o8p > 0.0 && super::rel_err(o8p, en.best) <= 1e-12, "harness: the predicted single path {:?} has joint {:e}, maximum {:e} ({})", p, o8p, en.best, what);
        }
        Ok(())
    }

    pub fn check(c: &Case) -> R {
        let _published = crate::oracles::scale::c141516::publish(c);
        let (f, obs) = build(c)?;
        let (s, m, t) = (f.s, f.m, obs.len());
        let what = format!("{:?}", c);
        let small = t <= 12 && (s as f64).powi(t as i32) <= 20_000.0 && m <= 255; // (longer sequences underflow in the linear-space enumeration)
        if small {
            cross_validate(&f, &obs, &what)?;
        }
        let rv = ref_viterbi_log(&f, &obs);
        let rf = ref_forward_log(&f, &obs);
        let rb = ref_backward_log(&f, &obs);
        ensure!(close(rf, rb, tol_round(t, rf) * 10.0), "harness: reference forward {} != reference backward {} for {}", rf, rb, what);
        ensure!((rv == f64::NEG_INFINITY) == (rf == f64::NEG_INFINITY), "harness: reference Viterbi {} and forward {} disagree about possibility for {}", rv, rf, what);
        ensure!(rv <= rf + tol_round(t, rf) * 10.0, "harness: reference Viterbi {} > reference forward {} for {}", rv, rf, what);

        let out = run_flat(c, &f, &obs)?;
        for (name, lp) in [("viterbi", out.vit), ("forward", out.fwd), ("backward", out.bwd)] {
            ensure!(!lp.is_nan(), "{} returned NaN for {}", name, what);
            ensure!(lp != f64::INFINITY, "{} returned +inf for {}", name, what);
        }
        ensure!(out.vit_path.len() == t, "viterbi path has length {} for {} observations; {}", out.vit_path.len(), t, what);
        ensure!(out.vit_path.iter().all(|&x| x < s), "viterbi path contains a state >= S = {}; {}", s, what);

        let impossible = rf == f64::NEG_INFINITY;
        let tv = tol_round(t, rv);
        let tf = (t as f64 + 1.0) * 1e-5 + tv;
        let mut exact_opt = false;
        if impossible {
            ensure!(out.vit == f64::NEG_INFINITY, "impossible sequence: viterbi reports log-prob {}, expected ln(0); {}", out.vit, what);
            ensure!(out.fwd == f64::NEG_INFINITY, "impossible sequence: forward reports log-prob {}, expected ln(0); {}", out.fwd, what);
            ensure!(out.bwd == f64::NEG_INFINITY, "impossible sequence: backward reports log-prob {}, expected ln(0); {}", out.bwd, what);
        } else {
            let pj = log_joint(&f, &obs, &out.vit_path);
            let show_path = |p: &[usize]| if p.len() <= 24 { format!("{:?}", p) } else { format!("[{} states: {:?} .. {:?}]", p.len(), &p[..8], &p[p.len() - 8..]) };
            ensure!(
                close(out.vit, pj, tv),
                "viterbi reports log-probability {} but its path {} has joint log-probability {} (difference {:e} > {:e}; reference optimum {}); {}",
                out.vit, show_path(&out.vit_path), pj, (out.vit - pj).abs(), tv, rv, what
            );
            ensure!(
                close(out.vit, rv, tv),
                "viterbi reports log-probability {} (path {}, joint {}) but the maximum over all paths is {} (difference {:e} > {:e}); {}",
                out.vit, show_path(&out.vit_path), pj, rv, (out.vit - rv).abs(), tv, what
            );
            if let Some(e) = &f.exps {
                let opt = int_viterbi(&f, e, &obs);
                let got = int_cost(&f, e, &obs, &out.vit_path);
                ensure!(opt != u64::MAX, "harness: integer oracle says impossible but the reference says {} for {}", rv, what);
                ensure!(
                    got == opt,
                    "viterbi path {} has joint probability 2^-{} but the maximum over all paths is 2^-{} (all probabilities of the model are powers of two: exact); reported log-probability {}; {}",
                    show_path(&out.vit_path), got as i64, opt, out.vit, what
                );
                let exact = -(opt as f64) * std::f64::consts::LN_2;
                ensure!(close(out.vit, exact, tv), "viterbi reports log-probability {} but the maximal joint probability is exactly 2^-{} (log {}); {}", out.vit, opt, exact, what);
                exact_opt = true;
            }
            ensure!(close(out.fwd, rf, tf), "forward log-likelihood {} differs from the reference (scaled sum-product in f64) {} by {:e} > {:e}; {}", out.fwd, rf, (out.fwd - rf).abs(), tf, what);
            ensure!(close(out.bwd, rf, tf), "backward log-likelihood {} differs from the reference (scaled sum-product in f64) {} by {:e} > {:e}; {}", out.bwd, rf, (out.bwd - rf).abs(), tf, what);
            ensure!(close(out.fwd, out.bwd, tf), "forward log-likelihood {} != backward log-likelihood {} (difference {:e} > {:e}; reference {}); {}", out.fwd, out.bwd, (out.fwd - out.bwd).abs(), tf, rf, what);
            ensure!(out.fwd >= out.vit - tf, "forward log-likelihood {} is smaller than the viterbi log-probability {}; {}", out.fwd, out.vit, what);
            ensure!(out.bwd >= out.vit - tf, "backward log-likelihood {} is smaller than the viterbi log-probability {}; {}", out.bwd, out.vit, what);
            if let Some(p) = &f.single_path {
                // exactly one possible path: it is the Viterbi path, and every log-sum-exp of forward/backward
                // has a single finite operand (no approximate exponential involved): rounding only
                let first_diff = (0..t).find(|&k| p[k] != out.vit_path[k]);
                ensure!(
                    first_diff.is_none(),
                    "the model has exactly one possible state path but viterbi returns a different one: first difference at position {}: expected state {}, got {}; {}",
                    first_diff.unwrap(), p[first_diff.unwrap()], out.vit_path[first_diff.unwrap()], what
                );
                let lj = log_joint(&f, &obs, p);
                ensure!(close(out.fwd, lj, tv) && close(out.bwd, lj, tv), "one possible path with log-probability {}: forward {} / backward {} differ by more than rounding ({:e}); {}", lj, out.fwd, out.bwd, tv, what);
            }
        }

        let max_state = out.vit_path.iter().cloned().max().unwrap_or(0);
        let max_sym = obs.iter().cloned().max().unwrap_or(0);
        let big = s >= 255 || m >= 255 || t >= 255;
        let mut pass = Pass::new(!impossible && (big || (s >= 2 && t >= 2)));
        if let Some(l) = rung!("S", s) {
            pass.add(l);
        }
        if let Some(l) = rung!("M", m) {
            pass.add(l);
        }
        if let Some(l) = rung!("T", t) {
            pass.add(l);
        }
        pass.add_if(s > 1025 && s < 4095, "S in 1026..4094");
        pass.add_if(t > 257 && s >= 255, "S >= 255 and T >= 255 together");
        pass.add_if(!impossible && max_state >= 256, "viterbi path visits a state >= 256");
        pass.add_if(!impossible && max_state >= 1024, "viterbi path visits a state >= 1024");
        pass.add_if(max_sym >= 256, "observed symbol >= 256");
        pass.add_if(max_sym >= 65536, "observed symbol >= 65536");
        pass.add_if(max_sym + 1 == m && m >= 255, "largest symbol observed");
        pass.add_if(impossible, "impossible sequence");
        pass.add_if(impossible && c.impossible_at.is_some_and(|p| p >= 255), "impossible because of a symbol at position >= 255");
        pass.add_if(impossible && c.impossible_at.is_some_and(|p| p >= 65535), "impossible because of a symbol at position >= 65535");
        pass.add_if(exact_opt, "maximality decided exactly (dyadic model, integer shortest path)");
        pass.add_if(f.single_path.is_some() && !impossible, "one possible path (analytic answer, likelihood within rounding)");
        pass.add_if(small, "reference cross-validated against the path enumeration");
        pass.add_if(!small, "beyond the reach of the path enumeration");
        pass.add(match c.kind {
            Kind::Dyadic => "dyadic model",
            Kind::Dense => "dense model",
            Kind::Cycle => "cycle model",
            Kind::LeftRight => "left-to-right model",
            Kind::Block => "block-diagonal model",
        });
        pass.add(match c.flavor {
            Flavor::Plain => "plain model",
            Flavor::OptEndNone => "opt_end model, end=None",
            _ => "explicit end probabilities",
        });
        pass.add(match c.ctor {
            Ctor::WithFloat => "ctor with_float",
            Ctor::WithProb => "ctor with_prob",
            Ctor::NewLog => "ctor new(LogProb)",
        });
        pass.add(match c.obs {
            ObsKind::Random => "observations random",
            ObsKind::Constant => "observations constant",
            ObsKind::Periodic => "observations periodic",
            ObsKind::Thresholds => "observations at threshold symbols",
        });
        Ok(pass)
    }

    // ---- deterministic ladders ----------------------------------------------------------------

    const FLAVORS: [Flavor; 3] = [Flavor::Plain, Flavor::OptEndFree, Flavor::OptEndNone];
    const CTORS: [Ctor; 3] = [Ctor::WithFloat, Ctor::NewLog, Ctor::WithProb];
    const KINDS: [Kind; 5] = [Kind::Dyadic, Kind::Cycle, Kind::Dense, Kind::LeftRight, Kind::Block];
    const OBS: [ObsKind; 4] = [ObsKind::Random, ObsKind::Thresholds, ObsKind::Constant, ObsKind::Periodic];

    fn mk(k: usize, kind: Kind, s: u64, m: u64, t: u64, impossible_at: Option<u32>) -> Case {
        Case {
            kind,
            s: s as u32,
            m: m as u32,
            t: t as u32,
            flavor: FLAVORS[k % 3],
            ctor: CTORS[(k / 3) % 3],
            obs: OBS[(k / 2) % 4],
            impossible_at,
            seed: 0x5eed_0014_0000 + k as u64 * 7919,
        }
    }

    /// S across the ladder (T small so that S*S*T stays cheap)
    pub fn enumerate_states(tier: Tier) -> Box<dyn Iterator<Item = Case>> {
        let mut v = Vec::new();
        let mut k = 0usize;
        let mut vals = ladder(1025);
        vals.extend([300, 700]);
        for &s in &vals {
            for (ki, &kind) in KINDS.iter().enumerate() {
                // T: 1, 2, 3 rotate (1 and 2 are the special branches of backward)
                let t = [3u64, 2, 4, 1, 3][(k + ki) % 5];
                let m = match kind {
                    Kind::Cycle => s + [0, 1, 3][k % 3],
                    Kind::Block => s,
                    _ => [2u64, 3, 5][k % 3],
                };
                v.push(mk(k, kind, s, m, t, None));
                k += 1;
            }
        }
        // S and T large together
        v.push(mk(k, Kind::Cycle, 257, 257, 257, None));
        k += 1;
        v.push(mk(k, Kind::Dyadic, 256, 3, 300, None));
        k += 1;
        v.push(mk(k, Kind::LeftRight, 300, 2, 256, None));
        k += 1;
        v.push(mk(k, Kind::Dyadic, 257, 3, 3, Some(2)));
        k += 1;
        for (i, &s) in [2047u64, 2048, 2049].iter().enumerate() {
            for (ki, &kind) in [Kind::Cycle, Kind::Dyadic, Kind::Dense].iter().enumerate() {
                if tier == Tier::Quick && (i + ki) % 3 != 0 {
                    continue;
                }
                let m = if kind == Kind::Cycle { s } else { 2 };
                v.push(mk(k, kind, s, m, 2, None));
                k += 1;
            }
        }
        Box::new(v.into_iter())
    }

    /// S in 4095..4097 (16.8 million transition probabilities; about two CPU seconds per case)
    pub fn enumerate_states_4096(tier: Tier) -> Box<dyn Iterator<Item = Case>> {
        let mut v = Vec::new();
        let mut k = 500usize;
        for (i, &s) in [4095u64, 4096, 4097].iter().enumerate() {
            for (ki, &kind) in [Kind::Cycle, Kind::Dyadic, Kind::Dense].iter().enumerate() {
                if tier == Tier::Quick && (i + ki) % 3 != 0 {
                    continue;
                }
                let m = if kind == Kind::Cycle { s } else { 2 };
                v.push(mk(k, kind, s, m, 2, None));
                k += 1;
            }
        }
        Box::new(v.into_iter())
    }

    /// M across the ladder
    pub fn enumerate_symbols(tier: Tier) -> Box<dyn Iterator<Item = Case>> {
        let mut v = Vec::new();
        let mut k = 1000usize;
        let top = match tier {
            Tier::Quick => (1u64 << 20) + 1,
            Tier::Thorough => (1u64 << 20) + 1,
        };
        for &m in &ladder(top) {
            for (ki, &kind) in [Kind::Dyadic, Kind::Dense, Kind::Block].iter().enumerate() {
                let s = [2u64, 3, 4][(k + ki) % 3];
                let t = 6 + (k % 5) as u64;
                let mut c = mk(k, kind, s, m, t, None);
                c.obs = [ObsKind::Thresholds, ObsKind::Constant, ObsKind::Random][k % 3];
                v.push(c);
                k += 1;
            }
            // many states AND many symbols: every state its own symbol
            if m <= 1025 {
                v.push(mk(k, Kind::Cycle, m, m, 5, None));
                k += 1;
            }
        }
        // an impossible symbol among many
        v.push(mk(k, Kind::Dense, 3, 65537, 9, Some(4)));
        Box::new(v.into_iter())
    }

    /// T across the ladder (few states)
    pub fn enumerate_length(tier: Tier) -> Box<dyn Iterator<Item = Case>> {
        let mut v = Vec::new();
        let mut k = 2000usize;
        for &t in &ladder((1 << 20) + 1) {
            let kinds: &[Kind] = if t <= 70_000 || tier == Tier::Thorough { &KINDS } else if t <= 131_073 { &[Kind::Cycle, Kind::Dyadic, Kind::Dense] } else { &[Kind::Cycle, Kind::Dyadic] };
            // above 2^17 each value of a rung gets one kind (quick); thorough: all
            for (ki, &kind) in kinds.iter().enumerate() {
                if tier == Tier::Quick && t > 131_073 && (t as usize + ki) % 2 != 0 {
                    continue;
                }
                let s = match kind {
                    Kind::Cycle => [2u64, 3, 5][k % 3],
                    Kind::LeftRight => [2u64, 3, 4][k % 3],
                    Kind::Block => [4u64, 5, 6][k % 3],
                    _ => [2u64, 3][k % 2],
                };
                let m = match kind {
                    Kind::Cycle => s,
                    _ => [2u64, 3, 4][k % 3],
                };
                v.push(mk(k, kind, s, m, t, None));
                k += 1;
            }
        }
        // impossible symbols deep inside a long sequence
        for (t, p) in [(300u64, 256u32), (70_000, 65_536), (70_000, 65_535), (66_000, 0), (65_537, 65_536)] {
            v.push(mk(k, Kind::Dyadic, 2, 3, t, Some(p)));
            k += 1;
            v.push(mk(k, Kind::Dense, 3, 3, t, Some(p)));
            k += 1;
        }
        Box::new(v.into_iter())
    }

    // ---- random variation ---------------------------------------------------------------------

    fn size_near_ladder(max: u64) -> BoxedStrategy<u64> {
        let l = ladder(max);
        let n = l.len();
        prop_oneof![
            // a ladder value +- 2
            3 => (0..n, -2i64..=2).prop_map(move |(i, d)| (l[i] as i64 + d).max(1) as u64),
            // anything in between
            1 => 255u64..=max,
        ]
        .boxed()
    }

    pub fn strat(tier: Tier) -> BoxedStrategy<Case> {
        let tmax: u64 = match tier {
            Tier::Quick => 131_073,
            Tier::Thorough => (1 << 20) + 1,
        };
        let kind = prop_oneof![Just(Kind::Dyadic), Just(Kind::Dense), Just(Kind::Cycle), Just(Kind::LeftRight), Just(Kind::Block)];
        let dims = prop_oneof![
            // many states
            3 => (size_near_ladder(1025), 1u64..=6, 1u64..=4).prop_map(|(s, m, t)| (s, m, t)),
            // many symbols
            2 => (1u64..=4, size_near_ladder((1 << 20) + 1), 1u64..=12).prop_map(|(s, m, t)| (s, m, t)),
            // long sequences
            3 => (1u64..=4, 1u64..=5, size_near_ladder(tmax)).prop_map(|(s, m, t)| (s, m, t)),
            // everything moderately large
            1 => (200u64..=300, 200u64..=300, 200u64..=300).prop_map(|(s, m, t)| (s, m, t)),
        ];
        (
            kind,
            dims,
            prop_oneof![Just(Flavor::Plain), Just(Flavor::OptEndNone), Just(Flavor::OptEndFree)],
            prop_oneof![4 => Just(Ctor::WithFloat), 1 => Just(Ctor::WithProb), 1 => Just(Ctor::NewLog)],
            prop_oneof![Just(ObsKind::Random), Just(ObsKind::Constant), Just(ObsKind::Periodic), Just(ObsKind::Thresholds)],
            proptest::option::weighted(0.1, any::<u16>()),
            any::<u64>(),
        )
            .prop_map(|(kind, (s, mut m, t), flavor, ctor, obs, imp, seed)| {
                if kind == Kind::Cycle && s > 4 {
                    m = m.max(s); // keep the emission matrix S x M small unless S is small
                }
                if s * m > 30_000_000 {
                    m = 30_000_000 / s;
                }
                let impossible_at = imp.map(|f| idx(f, t as usize - 1) as u32);
                Case { kind, s: s as u32, m: m as u32, t: t as u32, flavor, ctor, obs, impossible_at, seed }
            })
            .boxed()
    }

    /// the large check at SMALL sizes: every case is cross-validated against the path enumeration
    pub fn strat_small(_tier: Tier) -> BoxedStrategy<Case> {
        let kind = prop_oneof![Just(Kind::Dyadic), Just(Kind::Dense), Just(Kind::Cycle), Just(Kind::LeftRight), Just(Kind::Block)];
        (
            kind,
            (1u64..=5, 1u64..=5, any::<u16>()),
            prop_oneof![Just(Flavor::Plain), Just(Flavor::OptEndNone), Just(Flavor::OptEndFree)],
            prop_oneof![4 => Just(Ctor::WithFloat), 1 => Just(Ctor::WithProb), 1 => Just(Ctor::NewLog)],
            prop_oneof![Just(ObsKind::Random), Just(ObsKind::Constant), Just(ObsKind::Periodic), Just(ObsKind::Thresholds)],
            proptest::option::weighted(0.1, any::<u16>()),
            any::<u64>(),
        )
            .prop_map(|(kind, (s, m, tf), flavor, ctor, obs, imp, seed)| {
                let mut tmax = 1usize;
                while tmax < 9 && (s as f64).powi(tmax as i32 + 1) <= 20_000.0 {
                    tmax += 1;
                }
                let t = 1 + idx(tf, tmax - 1) as u64;
                let impossible_at = imp.map(|f| idx(f, t as usize - 1) as u32);
                Case { kind, s: s as u32, m: m as u32, t: t as u32, flavor, ctor, obs, impossible_at, seed }
            })
            .boxed()
    }

    /// reference vs enumeration on the cases of the existing small generator (no library call)
    pub fn check_reference(c: &super::Case) -> R {
        let d = dense(c)?;
        let f = from_dense(&d);
        let obs: Vec<usize> = c.obs.iter().map(|&o| o as usize).collect();
        cross_validate(&f, &obs, "a case of the C14/random generator")?;
        let rf = ref_forward_log(&f, &obs);
        Ok(Pass::new(d.s >= 2 && obs.len() >= 2).class_if(rf == f64::NEG_INFINITY, "impossible sequence").class_if(d.end.is_some(), "explicit end probabilities").class("reference cross-validated against the path enumeration"))
    }
}

pub fn property() -> Property {
    Property {
        id: "C14",
        rule: "random: S in 1..=4 states, M in 1..=4 symbols, T in 1..=6 observations (S^T <= 4096; thorough S<=5, T<=9, S^T<=20000); probability vectors are integer weights over a denominator (weights zero with probability ~1/4, uniform and one-hot rows, duplicated rows, slack>0 = sub-stochastic, all-zero rows allowed); models discrete_emission and discrete_emission_opt_end with end=None, with free explicit end probabilities, and with end = 1 - transition row sum; three constructors; impossible sequences forced in ~10% (no emitter, zero init, zero end, zero transitions). exhaustive: all 2-state 2-symbol models with weights in {0,1}, end absent / in {0,1/4,1/2}^2, all observation sequences up to length 3 (thorough 4). Oracle: enumeration of all S^T paths in f64 (joint = init*prod trans*prod emit*end(last) when end probabilities are explicit): viterbi value = joint of its path = max joint (rel 1e-9), forward = backward = path sum (rel 1e-3), likelihood >= viterbi*(1-1e-3), impossible => exactly ln(0) from all three, never NaN/+inf/panic. Non-trivial = S>=2, T>=2 and at least two paths of positive probability; distinct = distinct serialised case. LARGE-SCALE (C14/large-*): cases are {model kind, S, M, T, flavor, constructor, observation kind, seed}, expanded deterministically by splitmix64; deterministic ladders push S (255..257, 511..513, 1023..1025, 2047..2049, 4095..4097), M and T (every rung 255..257 .. 2^20-1..2^20+1 and 70000) across the thresholds, a random sub-check varies sizes around the rungs; model kinds: dyadic (all probabilities powers of two: maximality of the Viterbi path decided EXACTLY by an integer shortest path), dense, deterministic cycle (one possible path: path, probability and likelihood known in closed form, forward/backward within rounding), left-to-right, block-diagonal; impossible symbols forced at positions beyond 255/65535. Oracle there: textbook reference in plain f64/std ln (Viterbi max-sum, scaled forward and backward), compared in LOG space (viterbi: 1e-9 relative / rounding; forward/backward: (T+1)*1e-5, the fast-exponential error of one log-sum-exp per column); the reference is cross-validated against the path enumeration on every case with S^T <= 20000 (C14/large-crosscheck: the large check at small sizes; C14/large-reference-vs-enumeration: on the cases of the C14/random generator). Non-trivial there = possible sequence with a size >= 255 (or S,T >= 2 in the cross-checks).",
        assumptions: &[
            "observation symbols are < M (larger symbols index out of the emission matrix: outside the model)",
            "every probability is in [0,1] and every probability vector sums to at most 1 (sub-stochastic allowed); end probabilities are individual probabilities in [0,1] per state",
            "S^T <= 4096 (quick) so that the path enumeration is the oracle",
            "large-scale sub-checks: S*S <= 40 million and S*M <= 40 million matrix entries (S <= 4097, M <= 2^20+1 with S <= 4), T <= 2^20+1; beyond the enumeration the oracle is the f64 reference (cross-validated against the enumeration on the small cases of the same run)",
            "large-scale forward/backward tolerance (T+1)*1e-5 in log space = documented relative error of the fast exponential (8.9e-6) per log-sum-exp, accumulated over T columns",
        ],
        subs: vec![
            Box::new(PropSub {
                name: "C14/random",
                quick: 600_000,
                thorough: 6_000_000,
                shards_quick: 16,
                shards_thorough: 16,
                strat,
                check,
                must_reach: &[
                    "exact zero entry",
                    "impossible sequence",
                    "tie (>=2 maximal paths)",
                    "sub-stochastic row",
                    "explicit end probabilities",
                    "end probabilities change the best path",
                    "opt_end model, end=None",
                    "plain model",
                    "T=1",
                    "S=1",
                    "paths>=4096",
                    "some but not all paths impossible",
                ],
                watch: false,
            }),
            Box::new(ExhSub { name: "C14/exhaustive-2x2", enumerate, check, must_reach: &["impossible sequence", "explicit end probabilities", "tie (>=2 maximal paths)"] }),
            // ---- large-scale sub-checks (threshold ladders for S, M, T)
            Box::new(ExhSub { name: "C14/large-states", enumerate: large::enumerate_states, check: large::check, must_reach: &["S in 255..257", "S in 511..513", "S in 1023..1025", "S in 2047..2049", "S >= 255 and T >= 255 together", "viterbi path visits a state >= 256", "viterbi path visits a state >= 1024", "maximality decided exactly (dyadic model, integer shortest path)", "one possible path (analytic answer, likelihood within rounding)", "impossible sequence", "dyadic model", "dense model", "cycle model", "left-to-right model", "block-diagonal model", "explicit end probabilities", "plain model", "opt_end model, end=None", "ctor with_float", "ctor with_prob", "ctor new(LogProb)"] }),
            Box::new(ExhSub { name: "C14/large-states-4096", enumerate: large::enumerate_states_4096, check: large::check, must_reach: &["S in 4095..4097", "viterbi path visits a state >= 1024"] }),
            Box::new(ExhSub { name: "C14/large-symbols", enumerate: large::enumerate_symbols, check: large::check, must_reach: &["M in 255..257", "M in 511..513", "M in 1023..1025", "M in 4095..4097", "M in 8191..8193", "M in 16383..16385", "M in 32767..32769", "M in 65535..65537", "M in 131071..131073", "M in 2^19-1..2^19+1", "M in 2^20-1..2^20+1", "M ~70000", "observed symbol >= 256", "observed symbol >= 65536", "largest symbol observed", "impossible sequence", "maximality decided exactly (dyadic model, integer shortest path)"] }),
            Box::new(ExhSub { name: "C14/large-length", enumerate: large::enumerate_length, check: large::check, must_reach: &["T in 255..257", "T in 511..513", "T in 1023..1025", "T in 4095..4097", "T in 8191..8193", "T in 16383..16385", "T in 32767..32769", "T in 65535..65537", "T in 131071..131073", "T in 2^19-1..2^19+1", "T in 2^20-1..2^20+1", "T ~70000", "impossible because of a symbol at position >= 255", "impossible because of a symbol at position >= 65535", "maximality decided exactly (dyadic model, integer shortest path)", "one possible path (analytic answer, likelihood within rounding)", "dyadic model", "dense model", "cycle model", "left-to-right model", "block-diagonal model"] }),
            Box::new(PropSub { name: "C14/large-random", quick: 96, thorough: 1600, shards_quick: 16, shards_thorough: 16, strat: large::strat, check: large::check, must_reach: &["beyond the reach of the path enumeration", "viterbi path visits a state >= 256", "observed symbol >= 256"], watch: true }),
            Box::new(PropSub { name: "C14/large-crosscheck", quick: 48_000, thorough: 480_000, shards_quick: 8, shards_thorough: 16, strat: large::strat_small, check: large::check, must_reach: &["reference cross-validated against the path enumeration", "impossible sequence", "maximality decided exactly (dyadic model, integer shortest path)", "one possible path (analytic answer, likelihood within rounding)", "dyadic model", "dense model", "cycle model", "left-to-right model", "block-diagonal model", "explicit end probabilities", "plain model", "opt_end model, end=None", "ctor with_float", "ctor with_prob", "ctor new(LogProb)"], watch: false }),
            Box::new(PropSub { name: "C14/large-reference-vs-enumeration", quick: 48_000, thorough: 480_000, shards_quick: 8, shards_thorough: 16, strat, check: large::check_reference, must_reach: &["reference cross-validated against the path enumeration", "impossible sequence", "explicit end probabilities"], watch: false }),
        ],
    }
}
