//! C14 — HMM decoding and likelihoods equal their definitions over all state paths.
//!
//! Oracle: enumeration of all S^T state paths in plain f64,
//! joint(path) = init(p0) * emit(p0,o0) * prod_t trans(p[t-1],p[t]) * emit(p[t],o[t]) * end(p[T-1])
//! where the last factor is present only when the model was built with explicit end
//! probabilities (this is the model's own definition: `forward` multiplies the last column
//! with `end_prob`, `backward` starts from `end_prob`).
//!
//! Tolerances (DESIGN.md, C14): Viterbi uses no approximate exponential (sums of logs only):
//! relative 1e-9.  forward/backward go through `ln_sum_exp` (fast exponential, relative error
//! <= 8.9e-6 per column, so <= (T+1)*8.9e-6 overall): relative 1e-3.  The comparison
//! forward-vs-backward uses the same 1e-3 (two results each within (T+1)*8.9e-6 of the truth
//! can differ by 1.2e-4 for T=6, so the 1e-4 mentioned in the design text is not derivable).

use crate::engine::gen::idx;
use crate::engine::*;
use crate::{ensure, fail};
use bio::stats::hmm::discrete_emission::Model as Plain;
use bio::stats::hmm::discrete_emission_opt_end::Model as OptEnd;
use bio::stats::hmm::{backward, forward, viterbi, Model, State};
use bio::stats::{LogProb, Prob};
use ndarray::{Array1, Array2};
use proptest::prelude::*;
use serde::{Deserialize, Serialize};
use std::cell::RefCell;

pub const TOL_VITERBI: f64 = 1e-9;
pub const TOL_LIKELIHOOD: f64 = 1e-3;

/// One probability vector: p[i] = w[i] / (sum(w) + slack); all zero when the denominator is 0.
/// slack > 0 makes the row sub-stochastic.
#[derive(Serialize, Deserialize, Debug, Clone, PartialEq)]
pub struct Row {
    pub w: Vec<u32>,
    pub slack: u32,
}

impl Row {
    fn denom(&self) -> u64 {
        self.w.iter().map(|&x| x as u64).sum::<u64>() + self.slack as u64
    }
    fn probs(&self) -> Vec<f64> {
        let d = self.denom();
        self.w.iter().map(|&x| if d == 0 { 0.0 } else { x as f64 / d as f64 }).collect()
    }
}

#[derive(Serialize, Deserialize, Debug, Clone, Copy, PartialEq)]
pub enum Flavor {
    /// `discrete_emission::Model`
    Plain,
    /// `discrete_emission_opt_end::Model` built with `end = None`
    OptEndNone,
    /// `discrete_emission_opt_end::Model` with explicit end probabilities `end[s] = n/d`
    OptEndFree,
    /// `discrete_emission_opt_end::Model` with explicit end probabilities taken from the slack of
    /// the transition row: end[s] = slack_s / denom_s  (transition row + end sum to one, as in
    /// the crate's own Eisner ice-cream example)
    OptEndSlack,
}

#[derive(Serialize, Deserialize, Debug, Clone, Copy, PartialEq)]
pub enum Ctor {
    WithFloat,
    WithProb,
    /// `Model::new` with `LogProb(p.ln())`
    NewLog,
}

#[derive(Serialize, Deserialize, Debug, Clone)]
pub struct Case {
    pub flavor: Flavor,
    pub ctor: Ctor,
    /// S entries
    pub init: Row,
    /// S rows of S entries
    pub trans: Vec<Row>,
    /// S rows of M entries
    pub emit: Vec<Row>,
    /// only for `OptEndFree`: S fractions (numerator, denominator), n <= d, d >= 1
    pub end: Vec<(u32, u32)>,
    /// T >= 1 symbols in 0..M
    pub obs: Vec<u8>,
}

pub struct Dense {
    pub s: usize,
    pub m: usize,
    pub init: Vec<f64>,
    pub trans: Vec<Vec<f64>>,
    pub emit: Vec<Vec<f64>>,
    /// Some(..) iff the model has explicit end probabilities
    pub end: Option<Vec<f64>>,
}

pub fn dense(c: &Case) -> Result<Dense, Stop> {
    let s = c.init.w.len();
    ensure!(s >= 1 && c.trans.len() == s && c.emit.len() == s, "harness: inconsistent dimensions in {:?}", c);
    let m = c.emit[0].w.len();
    ensure!(m >= 1 && c.emit.iter().all(|r| r.w.len() == m) && c.trans.iter().all(|r| r.w.len() == s), "harness: ragged matrices in {:?}", c);
    ensure!(!c.obs.is_empty() && c.obs.iter().all(|&o| (o as usize) < m), "harness: observation out of range / empty in {:?}", c);
    let end = match c.flavor {
        Flavor::Plain | Flavor::OptEndNone => None,
        Flavor::OptEndFree => {
            ensure!(c.end.len() == s && c.end.iter().all(|&(n, d)| d >= 1 && n <= d), "harness: bad end fractions in {:?}", c);
            Some(c.end.iter().map(|&(n, d)| n as f64 / d as f64).collect())
        }
        Flavor::OptEndSlack => Some(
            c.trans
                .iter()
                .map(|r| {
                    let d = r.denom();
                    if d == 0 {
                        1.0
                    } else {
                        r.slack as f64 / d as f64
                    }
                })
                .collect(),
        ),
    };
    Ok(Dense { s, m, init: c.init.probs(), trans: c.trans.iter().map(|r| r.probs()).collect(), emit: c.emit.iter().map(|r| r.probs()).collect(), end })
}

/// Result of the enumeration of all state paths.
pub struct Enumerated {
    pub total: f64,
    pub best: f64,
    /// number of paths whose joint probability is within 1e-12 (relative) of the maximum
    pub n_best: usize,
    pub n_positive: usize,
    pub n_paths: usize,
}

pub fn joint(d: &Dense, obs: &[u8], path: &[usize]) -> f64 {
    let mut p = d.init[path[0]] * d.emit[path[0]][obs[0] as usize];
    for t in 1..obs.len() {
        p *= d.trans[path[t - 1]][path[t]] * d.emit[path[t]][obs[t] as usize];
    }
    if let Some(e) = &d.end {
        p *= e[path[obs.len() - 1]];
    }
    p
}

pub fn enumerate_paths(d: &Dense, obs: &[u8]) -> Enumerated {
    let t = obs.len();
    let mut path = vec![0usize; t];
    let mut joints = Vec::new();
    loop {
        joints.push(joint(d, obs, &path));
        // next path (odometer)
        let mut k = 0;
        loop {
            if k == t {
                break;
            }
            path[k] += 1;
            if path[k] < d.s {
                break;
            }
            path[k] = 0;
            k += 1;
        }
        if k == t {
            break;
        }
    }
    let total: f64 = joints.iter().sum();
    let best = joints.iter().cloned().fold(0.0f64, f64::max);
    let n_best = if best > 0.0 { joints.iter().filter(|&&j| j >= best * (1.0 - 1e-12)).count() } else { joints.len() };
    Enumerated { total, best, n_best, n_positive: joints.iter().filter(|&&j| j > 0.0).count(), n_paths: joints.len() }
}

fn arr2(v: &[Vec<f64>]) -> Array2<f64> {
    let r = v.len();
    let c = v[0].len();
    Array2::from_shape_fn((r, c), |(i, j)| v[i][j])
}

pub struct Outputs {
    pub vit_path: Vec<usize>,
    pub vit: f64,
    pub fwd: f64,
    pub bwd: f64,
}

fn run<M: Model<usize>>(hmm: &M, obs: &[usize]) -> Outputs {
    let (path, vp) = viterbi(hmm, obs);
    let (_, fp) = forward(hmm, obs);
    let (_, bp) = backward(hmm, obs);
    Outputs { vit_path: path.iter().map(|s: &State| **s).collect(), vit: *vp, fwd: *fp, bwd: *bp }
}

pub fn run_library(c: &Case, d: &Dense) -> Result<Outputs, Stop> {
    let obs: Vec<usize> = c.obs.iter().map(|&o| o as usize).collect();
    let tr = arr2(&d.trans);
    let em = arr2(&d.emit);
    let ini = Array1::from(d.init.clone());
    let endv = d.end.clone().map(Array1::from);
    let lp = |x: &f64| LogProb(x.ln());
    let out = match c.flavor {
        Flavor::Plain => {
            let hmm = match c.ctor {
                Ctor::WithFloat => Plain::with_float(&tr, &em, &ini),
                Ctor::WithProb => Plain::with_prob(&tr.map(|x| Prob(*x)), &em.map(|x| Prob(*x)), &ini.map(|x| Prob(*x))),
                Ctor::NewLog => Plain::new(tr.map(lp), em.map(lp), ini.map(lp)),
            };
            let Ok(hmm) = hmm else { fail!("constructor rejected consistent dimensions S={} M={}", d.s, d.m) };
            run(&hmm, &obs)
        }
        _ => {
            let hmm = match c.ctor {
                Ctor::WithFloat => OptEnd::with_float(&tr, &em, &ini, endv.as_ref()),
                Ctor::WithProb => {
                    let e = endv.as_ref().map(|e| e.map(|x| Prob(*x)));
                    OptEnd::with_prob(&tr.map(|x| Prob(*x)), &em.map(|x| Prob(*x)), &ini.map(|x| Prob(*x)), e.as_ref())
                }
                Ctor::NewLog => {
                    let e = match &endv {
                        Some(e) => e.map(lp),
                        None => Array1::from(vec![LogProb::ln_one(); d.s]),
                    };
                    OptEnd::new(RefCell::new(tr.map(lp)), RefCell::new(em.map(lp)), RefCell::new(ini.map(lp)), RefCell::new(e), endv.is_some())
                }
            };
            let Ok(hmm) = hmm else { fail!("constructor rejected consistent dimensions S={} M={}", d.s, d.m) };
            run(&hmm, &obs)
        }
    };
    Ok(out)
}

fn rel_err(got: f64, want: f64) -> f64 {
    if want == 0.0 {
        if got == 0.0 {
            0.0
        } else {
            f64::INFINITY
        }
    } else {
        ((got - want) / want).abs()
    }
}

/// Measured relative errors of one case (for the tolerance report).
#[derive(Debug, Default, Clone, Copy)]
pub struct Errors {
    pub viterbi_vs_path: f64,
    pub viterbi_vs_max: f64,
    pub forward_vs_sum: f64,
    pub backward_vs_sum: f64,
    pub forward_vs_backward: f64,
}

pub fn eval(c: &Case) -> Result<(Pass, Errors), Stop> {
    let d = dense(c)?;
    let t = c.obs.len();
    let en = enumerate_paths(&d, &c.obs);
    let out = run_library(c, &d)?;
    let model = format!(
        "{:?}/{:?} S={} M={} init={:?} trans={:?} emit={:?} end={:?} obs={:?}",
        c.flavor, c.ctor, d.s, d.m, d.init, d.trans, d.emit, d.end, c.obs
    );

    // --- well-formedness: no NaN, no +inf, log-probabilities of probabilities are <= 0
    for (name, lp) in [("viterbi", out.vit), ("forward", out.fwd), ("backward", out.bwd)] {
        ensure!(!lp.is_nan(), "{} returned NaN for {}", name, model);
        ensure!(lp != f64::INFINITY, "{} returned +inf for {}", name, model);
    }
    ensure!(out.vit_path.len() == t, "viterbi path has length {} for {} observations: {:?}; {}", out.vit_path.len(), t, out.vit_path, model);
    ensure!(out.vit_path.iter().all(|&s| s < d.s), "viterbi path {:?} contains a state >= S; {}", out.vit_path, model);

    let v = out.vit.exp();
    let f = out.fwd.exp();
    let b = out.bwd.exp();
    let pj = joint(&d, &c.obs, &out.vit_path);
    let mut errs = Errors::default();

    if en.total == 0.0 {
        // impossible observation sequence: probability exactly zero from all three
        ensure!(out.vit == f64::NEG_INFINITY, "impossible sequence: viterbi reports log-prob {} (prob {:e}), expected ln(0); {}", out.vit, v, model);
        ensure!(out.fwd == f64::NEG_INFINITY, "impossible sequence: forward reports log-prob {} (prob {:e}), expected ln(0); {}", out.fwd, f, model);
        ensure!(out.bwd == f64::NEG_INFINITY, "impossible sequence: backward reports log-prob {} (prob {:e}), expected ln(0); {}", out.bwd, b, model);
    } else {
        // --- Viterbi: reported = joint(returned path) = max over all paths
        errs.viterbi_vs_path = rel_err(v, pj);
        errs.viterbi_vs_max = rel_err(v, en.best);
        ensure!(
            errs.viterbi_vs_path <= TOL_VITERBI,
            "viterbi reports probability {:e} but its path {:?} has joint probability {:e} (max over all {} paths: {:e}); {}",
            v, out.vit_path, pj, en.n_paths, en.best, model
        );
        ensure!(
            errs.viterbi_vs_max <= TOL_VITERBI,
            "viterbi reports probability {:e} for path {:?} (joint {:e}) but the maximum joint probability over all {} paths is {:e}; {}",
            v, out.vit_path, pj, en.n_paths, en.best, model
        );
        // --- likelihoods
        errs.forward_vs_sum = rel_err(f, en.total);
        errs.backward_vs_sum = rel_err(b, en.total);
        errs.forward_vs_backward = (f - b).abs() / f.max(b);
        ensure!(errs.forward_vs_sum <= TOL_LIKELIHOOD, "forward likelihood {:e} differs from the sum over all {} paths {:e} (rel {:e}); {}", f, en.n_paths, en.total, errs.forward_vs_sum, model);
        ensure!(errs.backward_vs_sum <= TOL_LIKELIHOOD, "backward likelihood {:e} differs from the sum over all {} paths {:e} (rel {:e}); {}", b, en.n_paths, en.total, errs.backward_vs_sum, model);
        ensure!(errs.forward_vs_backward <= TOL_LIKELIHOOD, "forward likelihood {:e} != backward likelihood {:e} (path sum {:e}); {}", f, b, en.total, model);
        // --- likelihood never smaller than the Viterbi probability
        ensure!(f >= v * (1.0 - TOL_LIKELIHOOD), "forward likelihood {:e} is smaller than the viterbi probability {:e} (path {:?}; path sum {:e}, path max {:e}); {}", f, v, out.vit_path, en.total, en.best, model);
        ensure!(b >= v * (1.0 - TOL_LIKELIHOOD), "backward likelihood {:e} is smaller than the viterbi probability {:e} (path {:?}; path sum {:e}, path max {:e}); {}", b, v, out.vit_path, en.total, en.best, model);
    }

    // --- classification
    let all_rows = || c.trans.iter().chain(c.emit.iter()).chain(std::iter::once(&c.init));
    let has_zero = all_rows().any(|r| r.w.iter().any(|&w| w == 0));
    let zero_row = all_rows().any(|r| r.w.iter().all(|&w| w == 0));
    let substoch = all_rows().any(|r| r.slack > 0 && r.w.iter().any(|&w| w > 0));
    let mut pass = Pass::new(d.s >= 2 && t >= 2 && en.n_positive >= 2);
    pass.add_if(d.s == 1, "S=1");
    pass.add_if(d.s == 4, "S=4");
    pass.add_if(d.s >= 5, "S>=5");
    pass.add_if(d.m == 1, "M=1");
    pass.add_if(t == 1, "T=1");
    pass.add_if(t >= 6, "T>=6");
    pass.add_if(en.n_paths >= 4096, "paths>=4096");
    pass.add_if(has_zero, "exact zero entry");
    pass.add_if(zero_row, "all-zero row");
    pass.add_if(substoch, "sub-stochastic row");
    pass.add_if(en.total == 0.0, "impossible sequence");
    pass.add_if(en.total > 0.0 && en.n_positive < en.n_paths, "some but not all paths impossible");
    pass.add_if(en.total > 0.0 && en.n_best >= 2, "tie (>=2 maximal paths)");
    pass.add_if(en.total > 0.0 && en.n_best == 1 && en.n_positive >= 2, "unique best among >=2 possible paths");
    pass.add_if(en.n_positive == 1, "exactly one possible path");
    match c.flavor {
        Flavor::Plain => pass.add("plain model"),
        Flavor::OptEndNone => pass.add("opt_end model, end=None"),
        Flavor::OptEndFree | Flavor::OptEndSlack => pass.add("explicit end probabilities"),
    }
    pass.add_if(c.flavor == Flavor::OptEndSlack, "end = 1 - transition row sum");
    if let Some(e) = &d.end {
        pass.add_if(e.iter().any(|&x| x == 0.0), "end probability zero for some state");
        if en.total > 0.0 {
            // would the best path change when the end probabilities are ignored?
            let no_end = Dense { s: d.s, m: d.m, init: d.init.clone(), trans: d.trans.clone(), emit: d.emit.clone(), end: None };
            let en2 = enumerate_paths(&no_end, &c.obs);
            let with_end_of_noend_best = {
                // best joint-with-end among the maximisers of joint-without-end is < best  <=> end changes the decision
                let mut path = vec![0usize; t];
                let mut best_among = 0.0f64;
                loop {
                    if joint(&no_end, &c.obs, &path) >= en2.best * (1.0 - 1e-12) {
                        best_among = best_among.max(joint(&d, &c.obs, &path));
                    }
                    let mut k = 0;
                    loop {
                        if k == t {
                            break;
                        }
                        path[k] += 1;
                        if path[k] < d.s {
                            break;
                        }
                        path[k] = 0;
                        k += 1;
                    }
                    if k == t {
                        break;
                    }
                }
                best_among
            };
            pass.add_if(with_end_of_noend_best < en.best * (1.0 - 1e-9), "end probabilities change the best path");
        }
    }
    match c.ctor {
        Ctor::WithFloat => pass.add("ctor with_float"),
        Ctor::WithProb => pass.add("ctor with_prob"),
        Ctor::NewLog => pass.add("ctor new(LogProb)"),
    }
    Ok((pass, errs))
}

pub fn check(c: &Case) -> R {
    eval(c).map(|x| x.0)
}

// ---------------------------------------------------------------------------
// generator

fn weight() -> BoxedStrategy<u32> {
    prop_oneof![
        4 => Just(0u32),
        6 => 1u32..=3,
        5 => 1u32..=20,
        3 => 1u32..=1000,
        1 => 1u32..=60_000,
    ]
    .boxed()
}

fn pos_weight() -> BoxedStrategy<u32> {
    prop_oneof![6 => 1u32..=3, 5 => 1u32..=20, 3 => 1u32..=1000, 1 => 1u32..=60_000].boxed()
}

fn row(n: usize) -> BoxedStrategy<Row> {
    let slack = prop_oneof![17 => Just(0u32), 2 => 1u32..=5, 1 => 1u32..=2000];
    prop_oneof![
        // independent weights (each an exact zero with probability ~1/5)
        6 => (proptest::collection::vec(weight(), n), slack.clone()).prop_map(|(w, slack)| Row { w, slack }),
        // all entries positive
        4 => (proptest::collection::vec(pos_weight(), n), slack.clone()).prop_map(|(w, slack)| Row { w, slack }),
        // uniform row (ties)
        3 => (1u32..=3, slack.clone()).prop_map(move |(k, slack)| Row { w: vec![k; n], slack }),
        // deterministic row: a single non-zero entry
        1 => (any::<u16>(), slack).prop_map(move |(f, slack)| {
            let mut w = vec![0; n];
            w[idx(f, n - 1)] = 1;
            Row { w, slack }
        }),
    ]
    .boxed()
}

fn matrix(rows: usize, cols: usize) -> BoxedStrategy<Vec<Row>> {
    prop_oneof![
        6 => proptest::collection::vec(row(cols), rows),
        // duplicate rows (ties between states)
        3 => row(cols).prop_map(move |r| vec![r; rows]),
        // first two rows equal, rest independent
        1 => (row(cols), proptest::collection::vec(row(cols), rows)).prop_map(|(r, mut v)| {
            let n = v.len().min(2);
            for x in v.iter_mut().take(n) {
                *x = r.clone();
            }
            v
        }),
    ]
    .boxed()
}

/// how an impossible sequence is forced
#[derive(Debug, Clone)]
enum Force {
    No,
    /// nobody emits the symbol observed at this position
    Emission(u16),
    InitZero,
    /// all end probabilities zero (only with explicit end probabilities; otherwise like Emission)
    EndZero(u16),
    /// no transitions at all (only effective for T >= 2)
    TransZero,
}

fn dims(t: Tier) -> BoxedStrategy<(usize, usize, usize)> {
    // (S, M, T) with S^T bounded
    let (max_s, max_paths, max_t) = match t {
        Tier::Quick => (4usize, 4096usize, 6usize),
        Tier::Thorough => (5usize, 20_000usize, 9usize),
    };
    (prop_oneof![1 => Just(1usize), 4 => Just(2usize), 4 => Just(3usize), 3 => 4usize..=max_s], prop_oneof![1 => Just(1usize), 3 => Just(2usize), 3 => 3usize..=4], any::<u16>(), 0u8..20)
        .prop_map(move |(s, m, tf, short)| {
            let mut tmax = 1;
            while tmax < max_t && (s as f64).powi(tmax as i32 + 1) <= max_paths as f64 {
                tmax += 1;
            }
            if s == 1 {
                tmax = max_t;
            }
            let t = if short == 0 { 1 } else { 1 + idx(tf, tmax - 1) };
            (s, m, t)
        })
        .boxed()
}

pub fn strat(t: Tier) -> BoxedStrategy<Case> {
    dims(t)
        .prop_flat_map(|(s, m, t)| {
            let flavor = prop_oneof![3 => Just(Flavor::Plain), 2 => Just(Flavor::OptEndNone), 3 => Just(Flavor::OptEndFree), 2 => Just(Flavor::OptEndSlack)];
            let ctor = prop_oneof![4 => Just(Ctor::WithFloat), 1 => Just(Ctor::WithProb), 1 => Just(Ctor::NewLog)];
            let endfrac = prop_oneof![
                2 => Just((0u32, 1u32)),
                2 => Just((1u32, 1u32)),
                6 => (1u32..=100).prop_flat_map(|d| (0..=d, Just(d))),
                2 => (1u32..=100_000).prop_flat_map(|d| (0..=d.min(20), Just(d))),
            ];
            let force = prop_oneof![
                36 => Just(Force::No),
                1 => any::<u16>().prop_map(Force::Emission),
                1 => Just(Force::InitZero),
                1 => any::<u16>().prop_map(Force::EndZero),
                1 => Just(Force::TransZero),
            ];
            (
                (flavor, ctor, row(s), matrix(s, s), matrix(s, m)),
                proptest::collection::vec(endfrac, s),
                proptest::collection::vec(0..m as u8, t),
                force,
                proptest::collection::vec(prop_oneof![1 => Just(0u32), 6 => 1u32..=4, 1 => 1u32..=500], s),
            )
        })
        .prop_map(|((flavor, ctor, init, trans, emit), end, obs, force, slacks)| {
            let mut c = Case { flavor, ctor, init, trans, emit, end: if flavor == Flavor::OptEndFree { end } else { vec![] }, obs };
            // in the slack flavour the slack *is* the end probability: make it non-zero more often
            if c.flavor == Flavor::OptEndSlack {
                for (r, s) in c.trans.iter_mut().zip(slacks) {
                    if r.slack == 0 {
                        r.slack = s;
                    }
                }
            }
            let force = match force {
                Force::EndZero(f) if !matches!(c.flavor, Flavor::OptEndFree | Flavor::OptEndSlack) => Force::Emission(f),
                f => f,
            };
            match force {
                Force::No => {}
                Force::Emission(f) => {
                    let pos = idx(f, c.obs.len() - 1);
                    let sym = c.obs[pos] as usize;
                    for r in c.emit.iter_mut() {
                        r.w[sym] = 0;
                    }
                }
                Force::InitZero => {
                    for w in c.init.w.iter_mut() {
                        *w = 0;
                    }
                }
                Force::EndZero(_) => {
                    if c.flavor == Flavor::OptEndFree {
                        for e in c.end.iter_mut() {
                            e.0 = 0;
                        }
                    } else {
                        for r in c.trans.iter_mut() {
                            r.slack = 0;
                        }
                    }
                }
                Force::TransZero => {
                    for r in c.trans.iter_mut() {
                        for w in r.w.iter_mut() {
                            *w = 0;
                        }
                    }
                }
            }
            c
        })
        .boxed()
}

// ---------------------------------------------------------------------------
// bounded-exhaustive: every 2-state / 2-symbol model whose init/trans/emit weights are 0 or 1
// (probabilities 0, 1/2, 1), end in {absent (both model types), {0,1/4,1/2}^2}, every
// observation sequence of length 1..=3 (quick) / 1..=4 (thorough)

fn enumerate(t: Tier) -> Box<dyn Iterator<Item = Case>> {
    let max_t = match t {
        Tier::Quick => 3,
        Tier::Thorough => 4,
    };
    let mut obs_all: Vec<Vec<u8>> = Vec::new();
    for len in 1..=max_t {
        for code in 0..(1u32 << len) {
            obs_all.push((0..len).map(|i| ((code >> i) & 1) as u8).collect());
        }
    }
    let mut ends: Vec<(Flavor, Vec<(u32, u32)>)> = vec![(Flavor::Plain, vec![]), (Flavor::OptEndNone, vec![])];
    for a in 0..3u32 {
        for b in 0..3u32 {
            ends.push((Flavor::OptEndFree, vec![(a, 4), (b, 4)]));
        }
    }
    let obs_all = std::sync::Arc::new(obs_all);
    let ends = std::sync::Arc::new(ends);
    let row2 = |bits: u32| Row { w: vec![bits & 1, (bits >> 1) & 1], slack: 0 };
    Box::new((0u32..(1 << 10)).flat_map(move |code| {
        let init = row2(code);
        let trans = vec![row2(code >> 2), row2(code >> 4)];
        let emit = vec![row2(code >> 6), row2(code >> 8)];
        let obs_all = obs_all.clone();
        let ends = ends.clone();
        (0..ends.len()).flat_map(move |ei| {
            let (init, trans, emit) = (init.clone(), trans.clone(), emit.clone());
            let obs_all = obs_all.clone();
            let ends = ends.clone();
            (0..obs_all.len()).map(move |oi| Case {
                flavor: ends[ei].0,
                ctor: Ctor::WithFloat,
                init: init.clone(),
                trans: trans.clone(),
                emit: emit.clone(),
                end: ends[ei].1.clone(),
                obs: obs_all[oi].clone(),
            })
        })
    }))
}

pub fn property() -> Property {
    Property {
        id: "C14",
        rule: "random: S in 1..=4 states, M in 1..=4 symbols, T in 1..=6 observations (S^T <= 4096; thorough S<=5, T<=9, S^T<=20000); probability vectors are integer weights over a denominator (weights zero with probability ~1/4, uniform and one-hot rows, duplicated rows, slack>0 = sub-stochastic, all-zero rows allowed); models discrete_emission and discrete_emission_opt_end with end=None, with free explicit end probabilities, and with end = 1 - transition row sum; three constructors; impossible sequences forced in ~10% (no emitter, zero init, zero end, zero transitions). exhaustive: all 2-state 2-symbol models with weights in {0,1}, end absent / in {0,1/4,1/2}^2, all observation sequences up to length 3 (thorough 4). Oracle: enumeration of all S^T paths in f64 (joint = init*prod trans*prod emit*end(last) when end probabilities are explicit): viterbi value = joint of its path = max joint (rel 1e-9), forward = backward = path sum (rel 1e-3), likelihood >= viterbi*(1-1e-3), impossible => exactly ln(0) from all three, never NaN/+inf/panic. Non-trivial = S>=2, T>=2 and at least two paths of positive probability; distinct = distinct serialised case.",
        assumptions: &[
            "observation symbols are < M (larger symbols index out of the emission matrix: outside the model)",
            "every probability is in [0,1] and every probability vector sums to at most 1 (sub-stochastic allowed); end probabilities are individual probabilities in [0,1] per state",
            "S^T <= 4096 (quick) so that the path enumeration is the oracle",
        ],
        subs: vec![
            Box::new(PropSub {
                name: "C14/random",
                quick: 600_000,
                thorough: 6_000_000,
                shards_quick: 16,
                shards_thorough: 16,
                strat,
                check,
                must_reach: &[
                    "exact zero entry",
                    "impossible sequence",
                    "tie (>=2 maximal paths)",
                    "sub-stochastic row",
                    "explicit end probabilities",
                    "end probabilities change the best path",
                    "opt_end model, end=None",
                    "plain model",
                    "T=1",
                    "S=1",
                    "paths>=4096",
                    "some but not all paths impossible",
                ],
                watch: false,
            }),
            Box::new(ExhSub { name: "C14/exhaustive-2x2", enumerate, check, must_reach: &["impossible sequence", "explicit end probabilities", "tie (>=2 maximal paths)"] }),
        ],
    }
}
