pub mod engine;
pub mod fuzzglue;
pub mod oracles;
pub mod props;
