pub mod engine;
pub mod oracles;
pub mod props;
