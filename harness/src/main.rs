use vlib::engine::driver;
use vlib::engine::Tier;

fn main() {
    let args: Vec<String> = std::env::args().skip(1).collect();
    let props = vlib::props::all();
    let code = match args.first().map(|s| s.as_str()) {
        Some("run") => {
            let id = &args[1];
            let tier = Tier::parse(&args[2]).expect("tier");
            let seed: u64 = args.get(3).and_then(|s| s.parse().ok()).unwrap_or(20261002);
            driver::run_main(&props, id, tier, seed)
        }
        Some("worker") => driver::worker_main(&props, &args[1..]),
        Some("exec-case") => driver::exec_case_main(&props, &args[1]),
        Some("replay") => driver::replay_main(&props, &args[1], &args[2]),
        Some("list") => {
            for p in &props {
                println!("{}", p.id);
                for s in &p.subs {
                    println!("  {} quick={} thorough={}", s.name(), s.planned(Tier::Quick), s.planned(Tier::Thorough));
                }
            }
            0
        }
        _ => {
            eprintln!("usage: vcheck run <ID> <quick|thorough> [seed] | replay <ID> <file> | list");
            2
        }
    };
    std::process::exit(code);
}
