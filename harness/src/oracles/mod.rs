//! Independent reference implementations used as oracles.

/// all (possibly overlapping) occurrences of `p` in `t`, naive scan
pub fn naive_find(p: &[u8], t: &[u8]) -> Vec<usize> {
    let mut v = Vec::new();
    if p.is_empty() || p.len() > t.len() {
        return v;
    }
    for i in 0..=(t.len() - p.len()) {
        if &t[i..i + p.len()] == p {
            v.push(i);
        }
    }
    v
}
pub mod align;
pub mod sa;
pub mod io;
pub mod fm;
