//! Independent reference implementations used as oracles.

/// all (possibly overlapping) occurrences of `p` in `t`, naive scan
pub fn naive_find(p: &[u8], t: &[u8]) -> Vec<usize> {
    let mut v = Vec::new();
    if p.is_empty() || p.len() > t.len() {
        return v;
    }
    for i in 0..=(t.len() - p.len()) {
        if &t[i..i + p.len()] == p {
            v.push(i);
        }
    }
    v
}
pub mod align;
pub mod sa;
pub mod io;
pub mod fm;
pub mod prng;
pub mod itproto;

/// all occurrences of `p` in `t` in O(|p|+|t|) by the Z-function (textbook; independent of the
/// matchers under test; cross-checked against `naive_find` by the sub-checks that use it)
pub fn z_find(p: &[u8], t: &[u8]) -> Vec<usize> {
    let m = p.len();
    if m == 0 || m > t.len() {
        return Vec::new();
    }
    // s = p + [sentinel, as an out-of-alphabet u16] + t, on u16 so that every byte value may occur
    let mut s: Vec<u16> = Vec::with_capacity(m + 1 + t.len());
    s.extend(p.iter().map(|&b| b as u16));
    s.push(256);
    s.extend(t.iter().map(|&b| b as u16));
    let n = s.len();
    let mut z = vec![0usize; n];
    let (mut l, mut r) = (0usize, 0usize);
    for i in 1..n {
        if i < r {
            z[i] = (r - i).min(z[i - l]);
        }
        while i + z[i] < n && s[z[i]] == s[i + z[i]] {
            z[i] += 1;
        }
        if i + z[i] > r {
            l = i;
            r = i + z[i];
        }
    }
    (m + 1..n).filter(|&i| z[i] >= m).map(|i| i - m - 1).collect()
}
pub mod scale;
